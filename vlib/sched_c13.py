"""Schedule control for C13 (M5 of DESIGN.md).

(a) *Gated workers*: every task blocks on its own gate after signalling "started"; a
    controller thread releases the gates in a chosen order and waits, between two
    releases, until the result of the released task has been *dequeued* by
    ``CallableParallelExecution.execute`` in the parent.  The dequeue moment is observed
    from outside, without any hook in gemseo:

    * a successful task is dequeued when the harness callback is called (public
      ``exec_callback`` / DOE ``callbacks`` API);
    * a failing task is dequeued when ``execute`` logs
      ``"Failed to execute task indexed %s"`` on its module logger -- a ``logging.Handler``
      attached to that logger turns the record into an event.

    The forced completion order is therefore also the dequeue order, and the order that is
    counted as *observed* is the one read back from these two logs, never the requested one.
    Gates are ``threading.Event`` for thread workers and ``multiprocessing`` (fork context)
    events created before the workers are forked for process workers.

(b) *Completion-order enumeration*: with ``w`` workers the tasks start in index order as
    workers free up, hence the running set is always "the first ``done + w`` tasks minus the
    finished ones"; ``feasible_orders`` enumerates exactly the orders such a pool allows.

(c) *Yield injection*: ``sys.monitoring`` LINE events restricted to the code objects of
    ``gemseo/caches``, ``gemseo/utils/locks.py`` and ``gemseo/core/parallel_execution``;
    the callback releases the GIL (``time.sleep(0)`` or a few tens of microseconds) with a
    seeded probability.  To be used in multi-thread runs only.

Nothing here imports a check module; gemseo is imported lazily.
"""

from __future__ import annotations

import importlib
import logging
import multiprocessing
import pkgutil
import random
import sys
import threading
import time
import types

PE_LOGGER_NAME = "gemseo.core.parallel_execution.callable_parallel_execution"
FAIL_MSG = "Failed to execute task indexed %s"
YIELD_TOOL_ID = 3  # reach.py uses 4

# seconds; only watchdogs, never part of a verdict
T_START = {"thread": 10.0, "process": 30.0}
T_CONSUMED = {"thread": 10.0, "process": 30.0}
T_GATE = 60.0


# --------------------------------------------------------------------------- orders
def feasible_orders(n: int, w: int):
    """All completion orders of ``n`` tasks allowed by a FIFO pool of ``w`` workers."""
    w = max(1, min(w, n))
    done: list[int] = []
    done_set: set[int] = set()

    def rec():
        if len(done) == n:
            yield tuple(done)
            return
        started = min(n, len(done) + w)
        for i in range(started):
            if i not in done_set:
                done.append(i)
                done_set.add(i)
                yield from rec()
                done.pop()
                done_set.discard(i)

    yield from rec()


def n_feasible_orders(n: int, w: int) -> int:
    w = max(1, min(w, n))
    out = 1
    for k in range(1, w + 1):
        out *= k
    return out * w ** (n - w)


def random_feasible_order(rng: random.Random, n: int, w: int) -> tuple[int, ...]:
    w = max(1, min(w, n))
    done: list[int] = []
    done_set: set[int] = set()
    while len(done) < n:
        started = min(n, len(done) + w)
        running = [i for i in range(started) if i not in done_set]
        i = rng.choice(running)
        done.append(i)
        done_set.add(i)
    return tuple(done)


def is_feasible(order, n: int, w: int) -> bool:
    w = max(1, min(w, n))
    if sorted(order) != list(range(n)):
        return False
    done: set[int] = set()
    for k, i in enumerate(order):
        if i >= min(n, k + w):
            return False
        done.add(i)
    return True


# --------------------------------------------------------------------------- gates
class Gates:
    """Per-task gates shared by the workers (threads or forked processes) and the controller."""

    def __init__(self, n: int, backend: str):
        self.n = n
        self.backend = backend
        if backend == "thread":
            ev = threading.Event
            self._lock = threading.Lock()
            self.calls = [0] * n
            self.start_seq = [-1] * n
            self.gate_timeouts = [0] * n
            self._counter = [0]
        else:
            ctx = multiprocessing.get_context("fork")
            ev = ctx.Event
            self._lock = ctx.Lock()
            self.calls = ctx.Array("i", [0] * n, lock=False)
            self.start_seq = ctx.Array("i", [-1] * n, lock=False)
            self.gate_timeouts = ctx.Array("i", [0] * n, lock=False)
            self._counter = ctx.Array("i", [0], lock=False)
        self.started = [ev() for _ in range(n)]
        self.go = [ev() for _ in range(n)]
        self.finished = [ev() for _ in range(n)]

    # -- worker side ---------------------------------------------------------
    def enter(self, i: int) -> None:
        with self._lock:
            self.calls[i] += 1
            if self.start_seq[i] < 0:
                self.start_seq[i] = self._counter[0]
                self._counter[0] += 1
        self.started[i].set()
        if not self.go[i].wait(T_GATE):
            self.gate_timeouts[i] = 1

    def leave(self, i: int) -> None:
        self.finished[i].set()

    # -- controller side -----------------------------------------------------
    def release_all(self) -> None:
        for g in self.go:
            g.set()

    def start_order(self) -> list[int]:
        seq = list(self.start_seq)
        return [i for _, i in sorted((s, i) for i, s in enumerate(seq) if s >= 0)]


# --------------------------------------------------------------------------- observer
class _FailHandler(logging.Handler):
    def __init__(self, observer):
        super().__init__(level=logging.ERROR)
        self.observer = observer

    def emit(self, record):  # called in the thread that runs ``execute``
        if record.msg == FAIL_MSG and record.args:
            try:
                idx = int(record.args[0])
            except (TypeError, ValueError):
                return
            self.observer._failed(idx)


class Observer:
    """Parent-side log of what ``execute`` dequeued: callbacks and failure records."""

    def __init__(self, n: int, n_callbacks: int = 1, copy=lambda o: o):
        self.n = n
        self.lock = threading.Lock()
        self.events: list[tuple] = []  # ("cb_enter", k, i, output) ("cb_exit", k, i) ("fail", i)
        self.cv = threading.Condition()
        self.n_dequeued = 0  # results seen leaving the output queue (last callback of a success, or failure record)
        self.active = 0
        self.overlap = False
        self.bad_index = False
        self.submitted = threading.Event()
        self.done = threading.Event()
        self.n_callbacks = n_callbacks
        self._copy = copy
        self.callbacks = [self._make(k) for k in range(n_callbacks)]
        self._handler = _FailHandler(self)
        self._logger = logging.getLogger(PE_LOGGER_NAME)
        self._saved = None

    def _make(self, k):
        last = k == self.n_callbacks - 1

        def callback(index, output):
            with self.lock:
                self.active += 1
                if self.active > 1:
                    self.overlap = True
                self.events.append(("cb_enter", k, index, self._copy(output)))
            # a small window in which a concurrent callback would be seen
            time.sleep(0)
            with self.lock:
                self.events.append(("cb_exit", k, index))
                self.active -= 1
            if last:
                # the controller counts dequeues instead of trusting ``index`` (which is what is being judged)
                self._one_more()

        return callback

    def _failed(self, idx):
        with self.lock:
            self.events.append(("fail", idx))
        self._one_more()

    def _one_more(self):
        with self.cv:
            self.n_dequeued += 1
            self.cv.notify_all()

    def wait_dequeued(self, count: int, timeout: float) -> bool:
        """Wait until ``count`` results have been dequeued, or ``execute`` has returned."""
        end = time.monotonic() + timeout
        with self.cv:
            while self.n_dequeued < count:
                left = end - time.monotonic()
                if left <= 0 or self.done.is_set():
                    return self.n_dequeued >= count
                self.cv.wait(min(left, 0.05))
        return True

    def on_submitted(self):
        self.submitted.set()

    # -- logger plumbing -----------------------------------------------------
    def __enter__(self):
        lg = self._logger
        self._saved = (lg.propagate, lg.level, lg.disabled, logging.root.manager.disable)
        lg.propagate = False
        lg.disabled = False
        lg.setLevel(logging.ERROR)
        logging.disable(logging.NOTSET)
        lg.addHandler(self._handler)
        return self

    def __exit__(self, *exc):
        lg = self._logger
        lg.removeHandler(self._handler)
        lg.propagate, level, lg.disabled, disable = self._saved
        lg.setLevel(level)
        logging.disable(disable)
        self.done.set()
        return False

    # -- read back -------------------------------------------------------------
    def dequeue_order(self) -> list[int]:
        """Order in which ``execute`` dequeued results, from the two logs."""
        out = []
        for e in self.events:
            if e[0] == "fail":
                out.append(e[1])
            elif e[0] == "cb_enter" and e[1] == 0:
                out.append(e[2])
        return out

    def callback_log(self, k: int = 0) -> list[tuple]:
        return [(e[2], e[3]) for e in self.events if e[0] == "cb_enter" and e[1] == k]

    def failures_seen(self) -> list[int]:
        return [e[1] for e in self.events if e[0] == "fail"]


# --------------------------------------------------------------------------- controller
class Controller(threading.Thread):
    """Release the gates in ``order``; between two releases wait for the dequeue of the first.

    ``observe``: "dequeue" (wait until the observer has seen one more result leave the output queue) or "finish" (wait for the task's own
    ``finished`` event plus ``settle`` seconds; used where ``execute`` is called by gemseo without a
    callback, e.g. inside a parallel chain or a derivative approximator).
    ``stop_after``: index whose dequeue ends ``execute`` (exception to re-raise): every remaining
    gate is then opened at once.
    """

    def __init__(self, gates: Gates, order, observer: Observer | None = None, observe="dequeue",
                 stop_after=None, settle=0.0, wait_submitted=True):
        super().__init__(daemon=True, name="c13-controller")
        self.gates = gates
        self.order = list(order)
        self.observer = observer
        self.observe = observe
        self.stop_after = stop_after
        self.settle = settle
        self.wait_submitted = wait_submitted and observer is not None
        self.lost: str | None = None
        self.released: list[int] = []

    def _wait(self, event, timeout) -> bool:
        """Wait for ``event`` but give up as soon as ``execute`` has returned."""
        end = time.monotonic() + timeout
        done = self.observer.done if self.observer is not None else None
        while True:
            if event.wait(0.05 if done is not None else timeout):
                return True
            if done is None or done.is_set() or time.monotonic() > end:
                return event.is_set()

    def run(self):
        g = self.gates
        try:
            if self.wait_submitted:
                # do not touch the process-shared events while ``execute`` is forking
                if not self._wait(self.observer.submitted, T_START[g.backend]):
                    self.lost = "tasks never submitted"
                    return
            for k, i in enumerate(self.order):
                if not self._wait(g.started[i], T_START[g.backend]):
                    self.lost = f"task {i} did not start"
                    return
                g.go[i].set()
                self.released.append(i)
                if self.observe == "dequeue":
                    ok = self.observer.wait_dequeued(k + 1, T_CONSUMED[g.backend])
                    what = "dequeued"
                else:
                    ok = self._wait(g.finished[i], T_CONSUMED[g.backend])
                    what = "finished"
                    if self.settle:
                        time.sleep(self.settle)
                if not ok:
                    self.lost = f"task {i} released but never {what}"
                    return
                if i == self.stop_after:
                    return
        finally:
            g.release_all()


# --------------------------------------------------------------------------- yield injection
YIELD_PACKAGES = ("gemseo.caches", "gemseo.core.parallel_execution")
YIELD_MODULES = ("gemseo.utils.locks",)


def _nested_codes(code, seen):
    if code in seen:
        return
    seen.add(code)
    for c in code.co_consts:
        if isinstance(c, types.CodeType):
            _nested_codes(c, seen)


def _codes_of_module(mod, seen):
    fname = getattr(mod, "__file__", None)

    def visit(obj, depth=0):
        if depth > 4:
            return
        if isinstance(obj, (staticmethod, classmethod)):
            visit(obj.__func__, depth + 1)
        elif isinstance(obj, property):
            for f in (obj.fget, obj.fset, obj.fdel):
                if f is not None:
                    visit(f, depth + 1)
        elif isinstance(obj, type):
            if getattr(obj, "__module__", None) == mod.__name__:
                for v in vars(obj).values():
                    visit(v, depth + 1)
        elif callable(obj):
            code = getattr(obj, "__code__", None)
            if isinstance(code, types.CodeType):
                _nested_codes(code, seen)
            w = getattr(obj, "__wrapped__", None)
            if w is not None:
                visit(w, depth + 1)
            for cell in getattr(obj, "__closure__", None) or ():
                try:
                    c = cell.cell_contents
                except ValueError:
                    continue
                if isinstance(c, types.FunctionType):
                    visit(c, depth + 1)

    for v in list(vars(mod).values()):
        visit(v)
    # keep only code whose file is in the restricted modules (decorated methods bring the code
    # of ``synchronized`` from gemseo/utils/locks.py, which is wanted; anything else is not)
    return fname


def restricted_code_objects():
    """Code objects of gemseo/caches, gemseo/utils/locks.py, gemseo/core/parallel_execution."""
    mods = []
    for pkg_name in YIELD_PACKAGES:
        pkg = importlib.import_module(pkg_name)
        mods.append(pkg)
        for info in pkgutil.iter_modules(pkg.__path__, pkg_name + "."):
            try:
                mods.append(importlib.import_module(info.name))
            except Exception:  # optional dependency missing
                continue
    for name in YIELD_MODULES:
        mods.append(importlib.import_module(name))
    seen: set = set()
    files = set()
    for m in mods:
        f = _codes_of_module(m, seen)
        if f:
            files.add(f)
    return [c for c in seen if c.co_filename in files]


class YieldInjector:
    """Seeded GIL releases on LINE events of the restricted code objects."""

    def __init__(self, seed: int, p_yield: float = 0.35, p_sleep: float = 0.05, sleep_s: float = 5e-5):
        self.rng = random.Random(seed)
        self.p_yield = p_yield
        self.p_sleep = p_sleep
        self.sleep_s = sleep_s
        self.lines = 0
        self.yields = 0
        self.codes = restricted_code_objects()
        self.files_hit: set[str] = set()
        self._active = False
        self._switch = None

    def _on_line(self, code, line):
        self.lines += 1
        r = self.rng.random()
        if r < self.p_sleep:
            self.yields += 1
            self.files_hit.add(code.co_filename)
            time.sleep(self.sleep_s)
        elif r < self.p_sleep + self.p_yield:
            self.yields += 1
            self.files_hit.add(code.co_filename)
            time.sleep(0)

    def __enter__(self):
        mon = sys.monitoring
        mon.use_tool_id(YIELD_TOOL_ID, "verif-c13-yield")
        mon.register_callback(YIELD_TOOL_ID, mon.events.LINE, self._on_line)
        for c in self.codes:
            mon.set_local_events(YIELD_TOOL_ID, c, mon.events.LINE)
        self._switch = sys.getswitchinterval()
        sys.setswitchinterval(1e-5)
        self._active = True
        return self

    def __exit__(self, *exc):
        if not self._active:
            return False
        mon = sys.monitoring
        for c in self.codes:
            try:
                mon.set_local_events(YIELD_TOOL_ID, c, 0)
            except Exception:
                pass
        mon.register_callback(YIELD_TOOL_ID, mon.events.LINE, None)
        mon.free_tool_id(YIELD_TOOL_ID)
        sys.setswitchinterval(self._switch)
        self._active = False
        return False
