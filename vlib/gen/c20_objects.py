"""C20 — picklable harness objects and the table of objects to serialize.

Everything that has to survive ``pickle`` must be importable by qualified name, so the harness
disciplines, the plain functions wrapped by ``AutoPyDiscipline`` / ``ArrayBasedFunctionDiscipline`` /
``MDOFunction`` and the builders live at module level here (``vlib.gen.systems.CoupledSystem`` defines its
discipline class inside a method, which cannot be pickled).

A *builder* is ``f(ctx) -> dict`` with ``ctx = {"scratch": dir, "tag": unique str}``; the dict has

    kind      "discipline" | "scenario" | "function" | "space" | "problem" | "grammar" | "cache"
    obj       the object to serialize
    tol       0.0 (bitwise) or 1e-13 relative (processes that iterate)
    inputs    optional ``f(rng, k) -> dict`` giving the k-th fresh input of a discipline
    fail      optional input data on which ``execute`` raises (life moment "after a failed execution")
    linearize False when the object has no derivatives
    file_cache True when the object holds a file based cache (clearing the twin would clear the file)
"""

from __future__ import annotations

import os

import numpy as np
from gemseo.core.discipline import Discipline


# =========================================================================== harness disciplines
def _gen_eval(d, nonlinear, data):
    s = np.array(d["c"], dtype=float)
    u = {nm: np.asarray(data[nm]) for nm, _ in d["inputs"]}
    for nm, v in u.items():
        s = s + np.array(d["A"][nm]) @ v
    out = {d["y"][0]: np.tanh(s) if nonlinear else s}
    if "f" in d:
        f = np.array(d["d"], dtype=float)
        for nm, v in u.items():
            f = f + np.array(d["B"][nm]) @ v
        if d.get("q"):
            f = f + 0.5 * d["q"] * sum(float(np.sum(v ** 2)) for v in u.values())
        out[d["f"][0]] = f
    return out


def _gen_partials(d, nonlinear, data):
    s = np.array(d["c"], dtype=float)
    u = {nm: np.real(np.asarray(data[nm])) for nm, _ in d["inputs"]}
    for nm, v in u.items():
        s = s + np.array(d["A"][nm]) @ v
    g = (1 - np.tanh(s) ** 2) if nonlinear else np.ones_like(s)
    jac = {d["y"][0]: {nm: g[:, None] * np.array(d["A"][nm]) for nm in u}}
    if "f" in d:
        jac[d["f"][0]] = {}
        for nm, v in u.items():
            J = np.array(d["B"][nm], dtype=float)
            if d.get("q"):
                J = J + d["q"] * np.tile(v, (J.shape[0], 1))
            jac[d["f"][0]][nm] = J
    return jac


class GenDisc(Discipline):
    """One discipline of a generated coupled system (same maths as vlib.gen.systems)."""

    def __init__(self, d, nonlinear, defaults=None, sparse=False):
        super().__init__(name=d["name"])
        self.d = d
        self.nonlinear = nonlinear
        self.sparse = sparse
        self.n_run = 0
        self.n_lin = 0
        self.log = []  # a plain mutable attribute of the harness (must not be shared after restoring)
        ins = [nm for nm, _ in d["inputs"]]
        outs = [d["y"][0]] + ([d["f"][0]] if "f" in d else [])
        self.io.input_grammar.update_from_names(ins)
        self.io.output_grammar.update_from_names(outs)
        defaults = defaults or {}
        self.io.input_grammar.defaults = {
            nm: np.array(defaults.get(nm, np.linspace(0.1, 0.4, s)), dtype=float) for nm, s in d["inputs"]}

    def _run(self, input_data):
        self.n_run += 1
        self.log.append("run")
        return _gen_eval(self.d, self.nonlinear, input_data)

    def _compute_jacobian(self, input_names=(), output_names=()):
        self.n_lin += 1
        self.log.append("lin")
        jac = _gen_partials(self.d, self.nonlinear, self.io.data)
        if self.sparse:
            from scipy.sparse import csr_array

            jac = {o: {i: csr_array(J) for i, J in ji.items()} for o, ji in jac.items()}
        self.jac = jac


class FailingDisc(GenDisc):
    """A GenDisc whose body raises when the first component of ``x`` exceeds 50."""

    def _run(self, input_data):
        if float(np.real(np.asarray(input_data["x"]).ravel()[0])) > 50.0:
            self.log.append("fail")
            msg = "harness failure requested"
            raise ValueError(msg)
        return super()._run(input_data)


# plain functions (picklable by reference) ------------------------------------------------------
def py_func(a=1.0, b=2.0):
    y = 3.0 * a - 2.0 * b + a * b
    z = a * a + 1.0
    return y, z


def py_jac(a=1.0, b=2.0):
    return np.array([[3.0 + b, -2.0 + a], [2.0 * a, 0.0]])


def py_func_arrays(a=np.array([1.0, 0.5]), b=np.array([2.0])):  # noqa: B008
    y = np.array([a[0] * b[0] + a[1], a[1] ** 2 - b[0]])
    return y


def array_func(x):
    return np.array([x[0] * x[1] + x[2], np.sin(x[0]) + x[2] ** 2])


def array_jac(x):
    return np.array([[x[1], x[0], 1.0], [np.cos(x[0]), 0.0, 2.0 * x[2]]])


def f_quad(x):
    return float(np.sum(np.asarray(x) ** 2) + x[0])


def f_quad_jac(x):
    x = np.asarray(x, dtype=float)
    g = 2.0 * x
    g[0] += 1.0
    return g


def g_vec(x):
    x = np.asarray(x)
    return np.array([x[0] - x[1], x[0] * x[1] + 0.5])


def g_vec_jac(x):
    x = np.asarray(x, dtype=float)
    J = np.zeros((2, x.size))
    J[0, 0], J[0, 1] = 1.0, -1.0
    J[1, 0], J[1, 1] = x[1], x[0]
    return J


def h_sin(x):
    return float(np.sin(x[0]) + 2.0 * x[-1])


def h_sin_jac(x):
    x = np.asarray(x, dtype=float)
    g = np.zeros(x.size)
    g[0] = np.cos(x[0])
    g[-1] += 2.0
    return g


def ode_rhs(time=0.0, position=0.0, velocity=1.0):
    position_dot = velocity
    velocity_dot = -4.0 * position
    return position_dot, velocity_dot


# =========================================================================== small fixed systems
def spec_two():
    """A fixed 2-discipline strongly coupled nonlinear system (tanh couplings, quadratic f)."""
    return {
        "n": 2, "kind": "ring", "nonlinear": True, "L": 0.5, "x_size": 2,
        "disciplines": [
            {"name": "D0", "inputs": [["x", 2], ["z0", 1], ["y1", 2]], "y": ["y0", 2],
             "A": {"x": [[0.3, -0.2], [0.1, 0.4]], "z0": [[0.5], [-0.3]], "y1": [[0.2, -0.1], [0.15, 0.25]]},
             "c": [0.1, -0.2], "f": ["f0", 1],
             "B": {"x": [[0.7, -0.4]], "z0": [[0.2]], "y1": [[0.3, 0.6]]}, "d": [0.05], "q": 0.5},
            {"name": "D1", "inputs": [["x", 2], ["y0", 2]], "y": ["y1", 2],
             "A": {"x": [[-0.4, 0.2], [0.3, 0.1]], "y0": [[0.25, 0.2], [-0.1, 0.3]]},
             "c": [0.3, 0.1], "f": ["f1", 2],
             "B": {"x": [[0.1, 0.2], [0.3, -0.5]], "y0": [[0.4, -0.2], [0.6, 0.1]]}, "d": [0.0, 0.2], "q": 0.3},
        ],
    }


def spec_three():
    """A fixed 3-discipline system: feed-forward head D0 -> coupled pair (D1, D2); linear."""
    return {
        "n": 3, "kind": "tail_head", "nonlinear": False, "L": 0.5, "x_size": 1,
        "disciplines": [
            {"name": "D0", "inputs": [["x", 1]], "y": ["y0", 1], "A": {"x": [[0.8]]}, "c": [0.1]},
            {"name": "D1", "inputs": [["x", 1], ["y0", 1], ["y2", 2]], "y": ["y1", 1],
             "A": {"x": [[0.2]], "y0": [[0.3]], "y2": [[0.2, -0.25]]}, "c": [0.0],
             "f": ["f1", 1], "B": {"x": [[1.0]], "y0": [[0.5]], "y2": [[0.3, 0.3]]}, "d": [0.1], "q": 0.0},
            {"name": "D2", "inputs": [["x", 1], ["z2", 2], ["y1", 1]], "y": ["y2", 2],
             "A": {"x": [[0.1], [0.2]], "z2": [[0.3, 0.1], [0.0, 0.2]], "y1": [[0.4], [-0.45]]}, "c": [0.2, -0.1],
             "f": ["f2", 1], "B": {"x": [[0.3]], "z2": [[0.2, 0.1]], "y1": [[0.7]]}, "d": [0.0], "q": 0.0},
        ],
    }


def gen_disciplines(spec, sparse=False, failing=None, defaults=None):
    out = []
    for i, d in enumerate(spec["disciplines"]):
        c = FailingDisc if failing == i else GenDisc
        out.append(c(d, spec["nonlinear"], defaults=defaults, sparse=sparse))
    return out


def system_inputs(spec):
    """``f(rng, k)`` giving random values of the independent variables of a generated system."""
    sizes = {}
    for d in spec["disciplines"]:
        for nm, s in d["inputs"]:
            if not nm.startswith("y"):
                sizes[nm] = s

    def inputs(rng, k):
        return {nm: np.round(rng.uniform(-1, 1, s), 3) for nm, s in sorted(sizes.items())}

    return inputs


def perturbed_defaults(scale=0.05, only=None, integer_ok=False):
    """Generic input generator: multiplicative + additive perturbation of the float defaults."""

    def inputs(rng, k, obj=None):
        out = {}
        for nm, v in obj.io.input_grammar.defaults.items():
            if only is not None and nm not in only:
                continue
            if isinstance(v, np.ndarray) and v.dtype.kind in "fc":
                out[nm] = v * (1.0 + scale * rng.uniform(-1, 1, v.shape)) + 0.01 * scale * rng.uniform(-1, 1, v.shape)
            elif isinstance(v, float):
                out[nm] = v * (1.0 + scale * float(rng.uniform(-1, 1)))
        return out

    inputs.needs_obj = True
    return inputs


# =========================================================================== harness disciplines, grammar variants
class GenDiscSimple(GenDisc):
    default_grammar_type = Discipline.GrammarType.SIMPLE


class GenDiscSimpler(GenDisc):
    default_grammar_type = Discipline.GrammarType.SIMPLER


class GenDiscPydantic(GenDisc):
    default_grammar_type = Discipline.GrammarType.PYDANTIC


class PathDisc(Discipline):
    """A discipline with path-valued attribute, input and output (paths are converted at (de)serialization)."""

    default_grammar_type = Discipline.GrammarType.SIMPLE

    def __init__(self, root):
        from pathlib import Path

        super().__init__(name="PathDisc")
        self.local_path = Path(root) / "local"
        self.io.input_grammar.update_from_types({"path": Path, "x": np.ndarray})
        self.io.output_grammar.update_from_types({"out_path": Path, "y": np.ndarray})
        self.io.input_grammar.defaults = {"path": Path(root) / "in", "x": np.array([1.0, 2.0])}

    def _run(self, input_data):
        return {"out_path": input_data["path"] / f"n{int(round(float(input_data['x'][0]) * 1000))}",
                "y": 2.0 * input_data["x"] + 1.0}


class StatusRecorder:
    """An execution status observer owned by the harness (observers are documented as not restored)."""

    def __init__(self):
        self.seen = []

    def update_status(self, execution_status):
        self.seen.append(str(execution_status.value))


GRAMMAR_VARIANTS = {"JSON": GenDisc, "SIMPLE": GenDiscSimple, "SIMPLER": GenDiscSimpler, "PYDANTIC": GenDiscPydantic}

FAIL_INPUT = {"x": np.array([99.0, 0.0])}  # makes FailingDisc raise (x has size 2 in spec_two)


def _leaf_spec():
    return spec_two()["disciplines"][0]


# =========================================================================== builders: disciplines
def _factory():
    from gemseo.disciplines.factory import DisciplineFactory

    return DisciplineFactory()


def _disc(obj, tol=0.0, inputs=None, **kw):
    return dict(kind="discipline", obj=obj, tol=tol, inputs=inputs or perturbed_defaults(), **kw)


def _simple(name, **kwargs):
    def build(ctx):
        return _disc(_factory().create(name, **kwargs))

    build.__name__ = f"build_{name}"
    return build


def build_gen_leaf(ctx, grammar="JSON", cache="SimpleCache", sparse=False, shared=True, failing=True):
    d = _leaf_spec()
    cls = GRAMMAR_VARIANTS[grammar]
    if failing and grammar == "JSON":
        cls = FailingDisc
    obj = cls(d, True, sparse=sparse)
    file_cache = False
    if cache == "HDF5Cache":
        obj.set_cache(cache, hdf_file_path=os.path.join(ctx["scratch"], f"{ctx['tag']}.h5"), hdf_node_path="node_a")
        file_cache = True
    elif cache == "MemoryFullCache":
        obj.set_cache(cache, is_memory_shared=shared)
    elif cache == "None":
        obj.cache = None
    else:
        obj.set_cache(cache)
    return _disc(obj, fail=dict(FAIL_INPUT) if cls is FailingDisc else None, file_cache=file_cache)


def build_gen_config(which):
    def build(ctx):
        obj = GenDisc(_leaf_spec(), True)
        extra = {}
        if which == "fd-approx":
            obj.set_jacobian_approximation(Discipline.ApproximationMode.FINITE_DIFFERENCES, jax_approx_step=1e-6)
            obj.linearization_mode = Discipline.LinearizationMode.FINITE_DIFFERENCES
        elif which == "cs-approx":
            obj.set_jacobian_approximation(Discipline.ApproximationMode.COMPLEX_STEP, jax_approx_step=1e-20)
            obj.linearization_mode = Discipline.LinearizationMode.COMPLEX_STEP
        elif which == "namespaced":
            obj.add_namespace_to_input("x", "ns_in")
            obj.add_namespace_to_output("f0", "ns_out")
        elif which == "differentiated":
            obj.add_differentiated_inputs(["x"])
            obj.add_differentiated_outputs(["f0"])
            extra["lin_all"] = False
        elif which == "observer":
            obj.execution_status.add_observer(StatusRecorder())
        elif which == "data-processor":
            from gemseo.core.discipline.data_processor import ComplexDataProcessor

            obj.io.data_processor = ComplexDataProcessor()
        elif which == "linear-relationships":
            obj.io.set_linear_relationships(["z0"], ["y0"])
        elif which == "output-defaults":
            obj.io.output_grammar.defaults = {"y0": np.array([9.0, 8.0])}
        return _disc(obj, **extra)

    return build


def build_path_disc(ctx):
    def inputs(rng, k):
        return {"x": np.round(rng.uniform(-1, 1, 2), 3)}

    return _disc(PathDisc(os.path.join(ctx["scratch"], "paths")), inputs=inputs, linearize=False)


# entries whose behaviour can depend on the iteration order of sets / dicts of strings (hash seed of the interpreter)
HASH_SENSITIVE_ENTRIES = ("AnalyticDiscipline", "AnalyticDiscipline:multi", "AutoPyDiscipline", "AutoPyDiscipline:many",
                          "MDOChain:analytic", "MDAGaussSeidel:analytic", "MDAJacobi:analytic", "MDAChain:analytic",
                          "JSONGrammar:many", "PydanticGrammar:many", "SimpleGrammar:many", "SimplerGrammar:many",
                          "RemappingDiscipline", "MDOScenario:MDF", "DesignSpace:mixed", "OptimizationProblem:plain")

MULTI_EXPRESSIONS = {"y": "x1 - 2*x2 + 3*x3**2 + 5*x4**3", "z": "x1/x2", "w": "(x4 - x1)*x2 - x3/x4",
                     "v": "exp(x1 - x3) + x2*x4**2 - x5"}


def build_analytic_multi(ctx):
    """Several expressions that are not symmetric in their (>= 2) inputs: argument order matters."""
    obj = _factory().create("AnalyticDiscipline", expressions=dict(MULTI_EXPRESSIONS), name="multi")
    _with_defaults(obj, {"x1": np.array([1.0]), "x2": np.array([2.0]), "x3": np.array([3.0]), "x4": np.array([4.0]),
                         "x5": np.array([0.5])})
    return _disc(obj)


def py_func_many(alpha=1.0, beta=2.0, gamma=3.0, delta=4.0, epsilon=5.0, zeta=6.0):
    out1 = alpha - 2.0 * beta + 3.0 * gamma ** 2 + 5.0 * delta ** 3
    out2 = alpha / beta - epsilon * zeta ** 2
    out3 = (zeta - alpha) * gamma
    return out1, out2, out3


def build_auto_py_many(ctx):
    from gemseo.disciplines.auto_py import AutoPyDiscipline

    return _disc(AutoPyDiscipline(py_func_many), linearize=False)


def _analytic_system():
    f = _factory()
    d1 = f.create("AnalyticDiscipline", name="A1", expressions={"ya": "0.2*yb - 0.5*xs + 0.3*xa**2 - 0.1*yc", "fa": "xa - 2*ya + xs/4"})
    d2 = f.create("AnalyticDiscipline", name="A2", expressions={"yb": "0.3*ya + xs - 0.25*xb + 0.05*yc", "fb": "yb/2 - xb**2 + 3*xs"})
    d3 = f.create("AnalyticDiscipline", name="A3", expressions={"yc": "0.1*ya - 0.2*yb + xs*xc", "fc": "yc - ya/3 + 2*xc - xs**2"})
    for d in (d1, d2, d3):
        _with_defaults(d, {n: np.array([0.5]) for n in d.io.input_grammar.names})
    return [d1, d2, d3]


def analytic_system_inputs(rng, k):
    return {n: np.round(rng.uniform(-1, 1, 1), 3) for n in ("xa", "xb", "xc", "xs")}


def build_analytic_process(kind):
    def build(ctx):
        discs = _analytic_system()
        if kind == "MDOChain":
            from gemseo.core.chains.chain import MDOChain

            def inputs(rng, k):
                out = analytic_system_inputs(rng, k)
                out.update({n: np.round(rng.uniform(-1, 1, 1), 3) for n in ("yb", "yc")})
                return out

            return _disc(MDOChain(discs), inputs=inputs)
        from gemseo.mda.factory import MDAFactory

        obj = MDAFactory().create(kind, discs, tolerance=1e-12, max_mda_iter=80)
        return _disc(obj, tol=1e-13, inputs=analytic_system_inputs)

    return build


def build_grammar_many(cls_name):
    def build(ctx):
        from gemseo.core.grammars.factory import GrammarFactory

        g = GrammarFactory().create(cls_name, name="many")
        names = ["alpha", "beta", "gamma", "delta", "epsilon", "zeta", "eta", "theta", "iota", "kappa", "lambda_", "mu"]
        if cls_name == "SimplerGrammar":
            g.update_from_names(names)
        else:
            g.update_from_types({n: (float, np.ndarray, int, str)[k % 4] for k, n in enumerate(names)})
            for n in names[::3]:
                g.required_names.discard(n)
        g.defaults.update({"alpha": 1.5, "beta": np.array([1.0, 2.0])})
        return dict(kind="grammar", obj=g, tol=0.0)

    return build


# --------------------------------------------------------------------------- non-default constructor arguments
# Derived from the constructor signatures of the factory classes: every argument that changes the behaviour gets at
# least one entry with a non-default value (dtype, sizes, coefficients, layouts, physical constants, options).
NON_DEFAULT_ARGUMENTS = {
    "SobieskiAerodynamics:complex": ("SobieskiAerodynamics", {"dtype": "complex128"}),
    "SobieskiMission:complex": ("SobieskiMission", {"dtype": "complex128"}),
    "SobieskiPropulsion:complex": ("SobieskiPropulsion", {"dtype": "complex128"}),
    "SobieskiStructure:complex": ("SobieskiStructure", {"dtype": "complex128"}),
    "SobieskiAerodynamicsSG:complex": ("SobieskiAerodynamicsSG", {"dtype": "complex128"}),
    "SobieskiMissionSG:complex": ("SobieskiMissionSG", {"dtype": "complex128"}),
    "SobieskiPropulsionSG:complex": ("SobieskiPropulsionSG", {"dtype": "complex128"}),
    "SobieskiStructureSG:complex": ("SobieskiStructureSG", {"dtype": "complex128"}),
    "SobieskiChain:complex": ("SobieskiChain", {"dtype": "complex128"}),
    "Sellar1:n=3,k=2": ("Sellar1", {"n": 3, "k": 2.0}),
    "Sellar2:n=3,k=0.5": ("Sellar2", {"n": 3, "k": 0.5}),
    "SellarSystem:n=3": ("SellarSystem", {"n": 3}),
    "Mission:args": ("Mission", {"r_val": 0.7, "lift_val": 0.3}),
    "RosenMF:dimension=5": ("RosenMF", {"dimension": 5}),
    "LinearCombination:default-coefficients": ("LinearCombination", {"input_names": ["a", "b", "c"], "output_name": "s", "input_size": 3}),
    "LinearDiscipline:sizes": ("LinearDiscipline", {"name": "Lin2", "input_names": ["u"], "output_names": ["p", "q", "r"],
                                                   "inputs_size": 4, "outputs_size": 1}),
    "DensityFilter:args": ("DensityFilter", {"n_x": 5, "n_y": 2, "min_member_size": 2.5}),
    "FiniteElementAnalysis:args": ("FiniteElementAnalysis", {"nu": 0.2, "n_x": 3, "n_y": 3, "f_node": 8, "f_direction": 0, "f_amplitude": 2,
                                                             "fixed_nodes": [0, 1, 2], "fixed_dir": [0, 1, 1]}),
    "MaterialModelInterpolation:args": ("MaterialModelInterpolation", {"e0": 2.0, "penalty": 2.0, "n_x": 3, "n_y": 3, "empty_elements": [0],
                                                                       "full_elements": [8], "contrast": 1e6}),
    "VolumeFraction:args": ("VolumeFraction", {"n_x": 3, "n_y": 3, "empty_elements": [0], "full_elements": [8]}),
    "OscillatorDiscipline:trajectories": ("OscillatorDiscipline", {"omega": 3.0, "times": np.linspace(0.0, 0.5, 4), "return_trajectories": True}),
    "AnalyticDiscipline:named": ("AnalyticDiscipline", {"expressions": {"r": "p*q - q**2", "s": "p/3 + 2"}, "name": "named"}),
}


def build_non_default(entry_name):
    cls_name, kwargs = NON_DEFAULT_ARGUMENTS[entry_name]

    def build(ctx):
        obj = _factory().create(cls_name, **kwargs)
        extra = {}
        if cls_name.startswith("Oscillator"):
            extra = dict(tol=1e-13, linearize=False, inputs=perturbed_defaults(only=("position", "velocity")))
        elif cls_name == "SobieskiChain":
            extra = dict(tol=1e-13, inputs=perturbed_defaults(scale=0.01, only=("x_shared", "x_1", "x_2", "x_3")))
        elif cls_name in ("DensityFilter", "FiniteElementAnalysis", "MaterialModelInterpolation", "VolumeFraction"):
            extra = dict(inputs=perturbed_defaults(scale=0.02))
        elif cls_name == "AnalyticDiscipline":
            _with_defaults(obj, {"p": np.array([1.5]), "q": np.array([-0.5])})
        return _disc(obj, **extra)

    return build


def build_layout(which):
    def build(ctx):
        if which == "Splitter:alt":
            obj = _factory().create("Splitter", input_name="v", output_names_to_input_indices={"head": 0, "tail": [3, 2], "mid": [1]})
            return _disc(_with_defaults(obj, {"v": np.array([1.0, 2.0, 3.0, 4.0])}))
        if which == "Concatenater:alt":
            obj = _factory().create("Concatenater", input_variables=["p", "q", "r"], output_variable="pqr")
            return _disc(_with_defaults(obj, {"p": np.array([1.0]), "q": np.array([2.0, 3.0]), "r": np.array([4.0, 5.0, 6.0])}))
        if which == "MDOParallelChain:deepcopy":
            from gemseo.core.chains.parallel_chain import MDOParallelChain

            sp = spec_three()
            obj = MDOParallelChain(gen_disciplines(sp), use_threading=True, n_processes=2, use_deep_copy=True)
            base = system_inputs(sp)

            def inputs(rng, k):
                out = base(rng, k)
                for d in sp["disciplines"]:
                    out[d["y"][0]] = np.round(rng.uniform(-1, 1, d["y"][1]), 3)
                return out

            return _disc(obj, inputs=inputs)
        raise ValueError(which)

    return build


def build_auto_py(ctx):
    from gemseo.disciplines.auto_py import AutoPyDiscipline

    return _disc(AutoPyDiscipline(py_func, py_jac=py_jac))


def build_auto_py_arrays(ctx):
    from gemseo.disciplines.auto_py import AutoPyDiscipline

    return _disc(AutoPyDiscipline(py_func_arrays, use_arrays=True), linearize=False)


def build_array_based(ctx):
    return _disc(_factory().create(
        "ArrayBasedFunctionDiscipline", function=array_func, input_names_to_sizes={"u": 2, "v": 1},
        output_names_to_sizes={"p": 1, "q": 1}, jac_function=array_jac))


def _with_defaults(obj, defaults):
    obj.io.input_grammar.defaults.update(defaults)
    return obj


def build_concatenater(ctx):
    obj = _factory().create("Concatenater", input_variables=["a", "b"], output_variable="c",
                            input_coefficients={"a": 2.0, "b": -1.0})
    return _disc(_with_defaults(obj, {"a": np.array([1.0, 2.0]), "b": np.array([3.0])}))


def build_splitter(ctx):
    obj = _factory().create("Splitter", input_name="a", output_names_to_input_indices={"b": [0, 1], "c": 2})
    return _disc(_with_defaults(obj, {"a": np.array([1.0, 2.0, 3.0])}))


def _build_aggregation(function, **options):
    def build(ctx):
        obj = _factory().create("ConstraintAggregation", constraint_names=["g1", "g2"],
                                aggregation_function=function, **options)
        return _disc(_with_defaults(obj, {"g1": np.array([0.3, -0.2]), "g2": np.array([0.1])}))

    return build


def build_linear_combination(ctx):
    return _disc(_factory().create("LinearCombination", input_names=["a", "b"], output_name="c",
                                   input_coefficients={"a": 2.0, "b": -3.0}, offset=0.5, input_size=2))


def _build_linear_discipline(fmt):
    def build(ctx):
        kw = {} if fmt == "dense" else {"matrix_format": fmt, "matrix_density": 0.5}
        return _disc(_factory().create("LinearDiscipline", name="Lin", input_names=["a", "b"], output_names=["c", "d"],
                                       inputs_size=3, outputs_size=2, **kw))

    return build


def build_remapping(ctx):
    inner = GenDisc(_leaf_spec(), True)
    obj = _factory().create("RemappingDiscipline", discipline=inner,
                            input_mapping={"xx": "x", "zz": "z0", "c1": ("y1", 0), "c2": ("y1", 1)},
                            output_mapping={"out": "y0", "obj": "f0"})
    return _disc(obj)


def build_filtering(ctx):
    from gemseo.problems.mdo.sellar.sellar_system import SellarSystem

    obj = _factory().create("FilteringDiscipline", discipline=SellarSystem(),
                            input_names=["x_1", "y_1", "y_2", "x_shared"], output_names=["obj", "c_1"])
    return _disc(obj)


def build_taylor(ctx):
    from gemseo.problems.mdo.sellar.sellar_1 import Sellar1

    return _disc(_factory().create("TaylorDiscipline", discipline=Sellar1()))


def build_ode(ctx):
    from gemseo.disciplines.auto_py import AutoPyDiscipline

    obj = _factory().create("ODEDiscipline", discipline=AutoPyDiscipline(ode_rhs), times=np.linspace(0.0, 1.0, 5),
                            state_names={"position": "position_dot", "velocity": "velocity_dot"},
                            return_trajectories=True)
    return _disc(obj, tol=1e-13, linearize=False, inputs=perturbed_defaults(only=("position", "velocity")))


def build_oscillator(ctx):
    obj = _factory().create("OscillatorDiscipline", omega=2.0, times=np.linspace(0.0, 1.0, 5))
    return _disc(obj, tol=1e-13, linearize=False, inputs=perturbed_defaults(only=("position", "velocity")))


def _surrogate_dataset():
    from gemseo.datasets.io_dataset import IODataset

    rng = np.random.default_rng(5)
    x = rng.uniform(-1, 1, (12, 2))
    y = np.column_stack([x[:, 0] ** 2 + x[:, 1], np.sin(x[:, 0]) - 0.5 * x[:, 1]])
    ds = IODataset()
    ds.add_input_variable("x", x)
    ds.add_output_variable("y", y)
    return ds


def _build_surrogate(algo, **params):
    def build(ctx):
        from gemseo.disciplines.surrogate import SurrogateDiscipline

        obj = SurrogateDiscipline(algo, data=_surrogate_dataset(), **params)
        return _disc(obj)

    return build


def build_topopt(name):
    kw = {
        "DensityFilter": dict(n_x=4, n_y=3),
        "FiniteElementAnalysis": dict(n_x=4, n_y=3, f_node=10, fixed_nodes=[0, 1, 2, 3], fixed_dir=[0, 0, 1, 1]),
        "MaterialModelInterpolation": dict(e0=1.0, penalty=3.0, n_x=4, n_y=3, empty_elements=[], full_elements=[]),
        "VolumeFraction": dict(n_x=4, n_y=3),
    }[name]

    def build(ctx):
        return _disc(_factory().create(name, **kw), inputs=perturbed_defaults(scale=0.02))

    return build


def build_parametric_scalable(which):
    def build(ctx):
        from gemseo.problems.mdo.scalable.parametric.scalable_problem import ScalableProblem

        pb = ScalableProblem()
        obj = pb.disciplines[0] if which == "main" else pb.disciplines[1]
        return _disc(obj)

    return build


def build_disc_from_exe(ctx):
    """DiscFromExe driven by the Python interpreter itself as the 'executable'."""
    import sys
    from pathlib import Path

    from gemseo.disciplines.wrappers.disc_from_exe import DiscFromExe

    root = Path(ctx["scratch"]) / f"exe_{ctx['tag']}"
    root.mkdir(parents=True, exist_ok=True)
    (root / "in.tpl").write_text("a=GEMSEO_INPUT{a::1.5}\nb=GEMSEO_INPUT{b::2.5}\n")
    (root / "out.tpl").write_text("c=GEMSEO_OUTPUT{c::1.0}\n")
    (root / "run.py").write_text(
        "import sys\n"
        "v = dict(l.strip().split('=') for l in open(sys.argv[1]) if '=' in l)\n"
        "open(sys.argv[2], 'w').write('c=%r\\n' % (2.0 * float(v['a']) - float(v['b']) ** 2))\n")
    (root / "runs").mkdir(exist_ok=True)
    obj = DiscFromExe(
        input_template=root / "in.tpl", output_template=root / "out.tpl", root_directory=root / "runs",
        command_line=f"{sys.executable} {root / 'run.py'} input.txt output.txt",
        input_filename="input.txt", output_filename="output.txt")
    return _disc(obj, linearize=False)


# --------------------------------------------------------------------------- processes
def _sellar():
    from gemseo.problems.mdo.sellar.sellar_1 import Sellar1
    from gemseo.problems.mdo.sellar.sellar_2 import Sellar2
    from gemseo.problems.mdo.sellar.sellar_system import SellarSystem

    return [Sellar1(), Sellar2(), SellarSystem()]


def sellar_inputs(rng, k):
    return {"x_1": np.round(rng.uniform(0.5, 3.0, 1), 3), "x_2": np.round(rng.uniform(0.5, 3.0, 1), 3),
            "x_shared": np.round(np.array([rng.uniform(-2, 2), rng.uniform(1, 4)]), 3)}


def rand_spec(index, strongly=True):
    """The ``index``-th generated coupled system (JSON-able spec, see vlib.gen.systems)."""
    from vlib.gen import systems

    rng = np.random.default_rng([20, int(index)])
    kind = str(rng.choice(["ring", "dense"])) if strongly else str(rng.choice(["ring", "two_scc", "tail_head", "dense"]))
    return systems.random_system(rng, n=int(rng.integers(2, 5)), kind=kind, self_coupled=False, L=0.5)


def build_mda(name, system, spec=None, failing=None, **settings):
    def build(ctx):
        from gemseo.mda.factory import MDAFactory

        sp = None
        if system == "rand":
            sp = ctx.get("spec") or rand_spec(0, strongly=name in ("MDANewtonRaphson", "MDAQuasiNewton", "MDAGSNewton"))
            discs = gen_disciplines(sp)
            inputs = system_inputs(sp)
        elif system == "sellar":
            discs = _sellar()
            inputs = sellar_inputs
        else:
            sp = spec or (spec_two() if system == "gen2" else spec_three())
            discs = gen_disciplines(sp, failing=failing)
            inputs = system_inputs(sp)
        kw = dict(settings)
        if name == "MDASequential":
            from gemseo.mda.gauss_seidel import MDAGaussSeidel
            from gemseo.mda.jacobi import MDAJacobi

            kw["mda_sequence"] = [MDAJacobi(discs, max_mda_iter=2), MDAGaussSeidel(discs, tolerance=1e-12)]
        else:
            kw.setdefault("tolerance", 1e-12)
            kw.setdefault("max_mda_iter", 60)
        obj = MDAFactory().create(name, discs, **kw)
        fail = None
        if failing is not None:
            fail = {"x": np.full(sp["x_size"], 99.0)}
        return _disc(obj, tol=1e-13, inputs=inputs, fail=fail)

    return build


def build_chain(kind, failing=None, spec=None, rand=False):
    def build(ctx):
        sp = spec or (ctx.get("spec") or rand_spec(0, strongly=False) if rand else spec_three())
        discs = gen_disciplines(sp, failing=failing)
        kw = {}
        if kind == "MDOChain":
            from gemseo.core.chains.chain import MDOChain as C
        elif kind == "MDOParallelChain":
            from gemseo.core.chains.parallel_chain import MDOParallelChain as C

            kw = {"use_threading": True, "n_processes": 2}
        elif kind == "MDOAdditiveChain":
            from gemseo.core.chains.additive_chain import MDOAdditiveChain as C

            # two producers of the same output name so that the sum is non trivial
            d0 = dict(sp["disciplines"][1], name="P0")
            d1 = dict(sp["disciplines"][1], name="P1", c=[0.25])
            discs = [GenDisc(d0, sp["nonlinear"]), GenDisc(d1, sp["nonlinear"])]
            kw = {"outputs_to_sum": ["y1", "f1"], "use_threading": True, "n_processes": 2}
        elif kind == "MDOWarmStartedChain":
            from gemseo.core.chains.warm_started_chain import MDOWarmStartedChain as C

            kw = {"variable_names_to_warm_start": [sp["disciplines"][-1]["y"][0]]}
        elif kind == "MDOInitializationChain":
            from gemseo.core.chains.initialization_chain import MDOInitializationChain as C

            sp2 = spec_three()
            discs = gen_disciplines(sp2)
            for d in discs:  # an initialization chain orders disciplines by the data available
                d.io.input_grammar.defaults.clear()
            kw = {"available_data_names": ["x", "z2", "y2"]}
        obj = C(discs, **kw)
        lin = kind not in ("MDOWarmStartedChain",)
        fail = {"x": np.full(sp["x_size"], 99.0)} if failing is not None else None
        if kind == "MDOInitializationChain":
            def inputs(rng, k):
                return {"x": np.round(rng.uniform(-1, 1, 1), 3), "z2": np.round(rng.uniform(-1, 1, 2), 3),
                        "y2": np.round(rng.uniform(-1, 1, 2), 3)}
        elif kind == "MDOAdditiveChain":
            def inputs(rng, k):
                return {"x": np.round(rng.uniform(-1, 1, 1), 3), "y0": np.round(rng.uniform(-1, 1, 1), 3),
                        "y2": np.round(rng.uniform(-1, 1, 2), 3)}
        else:
            base = system_inputs(sp)

            def inputs(rng, k):
                out = base(rng, k)
                for d in sp["disciplines"]:
                    out[d["y"][0]] = np.round(rng.uniform(-1, 1, d["y"][1]), 3)
                return out
        return _disc(obj, inputs=inputs, linearize=lin, fail=fail)

    return build


def build_sobieski_process(name):
    def build(ctx):
        return _disc(_factory().create(name), tol=1e-13, inputs=perturbed_defaults(scale=0.01, only=("x_shared", "x_1", "x_2", "x_3")),
                     linearize=name == "SobieskiChain")

    return build


def _sellar_scenario(formulation, scenario_type, ctx=None, algo=None):
    from gemseo import create_scenario
    from gemseo.problems.mdo.sellar.sellar_design_space import SellarDesignSpace

    discs = _sellar()
    if formulation == "BiLevel":
        subs = []
        for i, local in ((0, "x_1"), (1, "x_2")):
            sub = create_scenario([discs[i], discs[2]], "obj", SellarDesignSpace().filter([local]),
                                  formulation_name="DisciplinaryOpt", name=f"Sub{i}")
            sub.set_algorithm(algo_name="SLSQP", max_iter=4)
            subs.append(sub)
        sc = create_scenario(subs, "obj", SellarDesignSpace().filter(["x_shared"]), scenario_type=scenario_type,
                             formulation_name="BiLevel")
    else:
        if formulation == "DisciplinaryOpt":
            from gemseo.mda.gauss_seidel import MDAGaussSeidel

            discs = [MDAGaussSeidel(discs, tolerance=1e-12)]
        ds = SellarDesignSpace() if formulation == "IDF" else SellarDesignSpace().filter(["x_1", "x_2", "x_shared"])
        sc = create_scenario(discs, "obj", ds, scenario_type=scenario_type, formulation_name=formulation)
    if formulation != "BiLevel":
        sc.add_constraint("c_1", constraint_type="ineq")
        sc.add_constraint("c_2", constraint_type="ineq")
    return sc


def build_scenario(formulation, scenario_type):
    def build(ctx):
        sc = _sellar_scenario(formulation, scenario_type)
        if scenario_type == "DOE":
            algo = {"algo_name": "LHS", "n_samples": 5}
        elif formulation == "BiLevel":
            algo = {"algo_name": "NLOPT_COBYLA", "max_iter": 4}
        else:
            algo = {"algo_name": "SLSQP", "max_iter": 5}
        return dict(kind="scenario", obj=sc, tol=1e-13, algo=algo)

    return build


def build_scenario_adapter(cls_name):
    def build(ctx):
        from gemseo import create_scenario
        from gemseo.problems.mdo.sellar.sellar_design_space import SellarDesignSpace

        discs = _sellar()
        from gemseo.mda.gauss_seidel import MDAGaussSeidel

        sc = create_scenario([MDAGaussSeidel(discs, tolerance=1e-12)], "obj", SellarDesignSpace().filter(["x_1", "x_2"]),
                             formulation_name="DisciplinaryOpt")
        sc.set_algorithm(algo_name="SLSQP", max_iter=4)
        obj = _factory().create(cls_name, scenario=sc, input_names=["x_shared"], output_names=["obj", "x_1"])

        def inputs(rng, k):
            return {"x_shared": np.round(np.array([rng.uniform(0, 2), rng.uniform(1, 3)]), 3)}

        return _disc(obj, tol=1e-13, inputs=inputs, linearize=False)

    return build


# --------------------------------------------------------------------------- functions
def _functions():
    from gemseo.core.mdo_functions.mdo_function import MDOFunction

    f = MDOFunction(f_quad, "f", jac=f_quad_jac, expr="sum(x**2)+x0", input_names=["x"], dim=1)
    g = MDOFunction(g_vec, "g", jac=g_vec_jac, input_names=["x"], dim=2, f_type="ineq")
    h = MDOFunction(h_sin, "h", jac=h_sin_jac, input_names=["x"], dim=1)
    return f, g, h


def build_function(which):
    def build(ctx):
        from gemseo.core.mdo_functions.function_restriction import FunctionRestriction
        from gemseo.core.mdo_functions.mdo_linear_function import MDOLinearFunction
        from gemseo.core.mdo_functions.mdo_quadratic_function import MDOQuadraticFunction

        f, g, h = _functions()
        n = 3
        lin = MDOLinearFunction(np.array([[1.0, 2.0, 3.0], [0.0, 1.0, -1.0]]), "lin", value_at_zero=np.array([0.5, -0.5]))
        quad = MDOQuadraticFunction(np.array([[1.0, 0.5, 0], [0.5, 2.0, 0], [0, 0, 3.0]]), "q",
                                    linear_coeffs=np.array([1.0, 0, -1.0]), value_at_zero=0.3)
        table = {
            "plain": lambda: f, "vector": lambda: g, "add": lambda: f + h, "sub": lambda: f - h, "mul": lambda: f * h,
            "div": lambda: f / (h + 5.0), "neg": lambda: -f, "add_const": lambda: f + 3.0, "mul_const": lambda: f * 2.5,
            "offset": lambda: g.offset(np.array([1.0, -1.0])), "linear": lambda: lin, "linear_sum": lambda: lin + lin,
            "linear_neg": lambda: -lin, "linear_restrict": lambda: lin.restrict(np.array([0]), np.array([1.0])),
            "quadratic": lambda: quad, "restriction": lambda: FunctionRestriction(np.array([0]), np.array([0.5]), 3, f),
            "nested": lambda: (f + h) * (f - h) + lin[0] if False else (f + h) * (f - h),
        }
        fn = table[which]()
        if which in ("linear_restrict", "restriction"):
            n = 2
        return dict(kind="function", obj=fn, tol=0.0, n=n)

    return build


def build_function_from_discipline(ctx):
    from gemseo.core.mdo_functions.discipline_adapter_generator import DisciplineAdapterGenerator

    disc = GenDisc(_leaf_spec(), True)
    gen = DisciplineAdapterGenerator(disc)
    fn = gen.get_function(["x", "z0"], ["f0"])
    return dict(kind="function", obj=fn, tol=0.0, n=3)


# --------------------------------------------------------------------------- spaces, problems
def _design_space():
    from gemseo.algos.design_space import DesignSpace

    ds = DesignSpace()
    ds.add_variable("x", 3, lower_bound=-2.0, upper_bound=2.0, value=np.array([0.5, 0.25, -0.5]))
    return ds


def build_design_space(which):
    def build(ctx):
        from gemseo.algos.design_space import DesignSpace

        ds = DesignSpace()
        ds.add_variable("x", 2, lower_bound=np.array([-1.0, 0.0]), upper_bound=np.array([2.0, 5.0]), value=np.array([0.5, 1.0]))
        if which in ("mixed", "parameter"):
            ds.add_variable("i", 1, type_="integer", lower_bound=0, upper_bound=5, value=2)
            ds.add_variable("u", 2, lower_bound=-np.inf, upper_bound=np.array([np.inf, 3.0]))
        if which == "parameter":
            from gemseo.algos.parameter_space import ParameterSpace

            ps = ParameterSpace()
            ps.add_variable("x", 2, lower_bound=np.array([-1.0, 0.0]), upper_bound=np.array([2.0, 5.0]), value=np.array([0.5, 1.0]))
            ps.add_random_variable("a", "OTNormalDistribution", mu=1.0, sigma=2.0)
            ps.add_random_variable("b", "OTUniformDistribution", size=2, minimum=0.0, maximum=2.0)
            ds = ps
        if which == "parameter_sp":
            from gemseo.algos.parameter_space import ParameterSpace

            ps = ParameterSpace()
            ps.add_random_variable("a", "SPNormalDistribution", mu=1.0, sigma=2.0)
            ps.add_random_vector("b", "SPUniformDistribution", minimum=[0.0, 1.0], maximum=[2.0, 4.0])
            ds = ps
        return dict(kind="space", obj=ds, tol=0.0)

    return build


def build_problem(which):
    def build(ctx):
        from gemseo.algos.optimization_problem import OptimizationProblem

        f, g, h = _functions()
        p = OptimizationProblem(_design_space())
        p.objective = f
        p.add_constraint(g, constraint_type="ineq")
        p.add_observable(h)
        if which == "fd":
            p.differentiation_method = "finite_differences"
        if which == "maximize":
            p.minimize_objective = False
        return dict(kind="problem", obj=p, tol=0.0)

    return build


# --------------------------------------------------------------------------- grammars, caches
def build_grammar(cls_name):
    def build(ctx):
        from gemseo.core.grammars.factory import GrammarFactory

        g = GrammarFactory().create(cls_name, name="g")
        if cls_name == "SimplerGrammar":
            g.update_from_names(["a", "b", "c"])
        else:
            g.update_from_types({"a": float, "b": np.ndarray, "c": str, "n": int})
        if cls_name != "SimplerGrammar":
            g.required_names.discard("c")
        g.defaults.update({"a": 1.5, "b": np.array([1.0, 2.0])})
        return dict(kind="grammar", obj=g, tol=0.0)

    return build


def build_grammar_namespaced(cls_name):
    def build(ctx):
        out = build_grammar(cls_name)(ctx)
        out["obj"].add_namespace("a", "ns")
        return out

    return build


def build_cache(cls_name, **kw):
    def build(ctx):
        from gemseo.caches.factory import CacheFactory

        opts = dict(kw)
        if cls_name == "HDF5Cache":
            opts.update(hdf_file_path=os.path.join(ctx["scratch"], f"{ctx['tag']}_cache.h5"), hdf_node_path="n1")
        c = CacheFactory().create(cls_name, tolerance=opts.pop("tolerance", 0.0), **opts)
        return dict(kind="cache", obj=c, tol=0.0, file_cache=cls_name == "HDF5Cache")

    return build


# =========================================================================== the table
SKIPPED = {
    "XLSDiscipline": "needs Microsoft Excel through xlwings",
    "JobSchedulerDisciplineWrapper": "needs a job scheduler (sbatch/bsub) to execute",
    "LSF": "needs the LSF job scheduler",
    "SLURM": "needs the SLURM job scheduler",
    "data_driven.ScalableDiscipline": "not reachable from the discipline factory (name shadowed by the parametric ScalableDiscipline)",
}


def entries():
    """Ordered ``{entry name: builder}``; names are stable (used by replay)."""
    t = {}
    # -- leaf disciplines of the factory
    for n in ("Aerodynamics", "Structure", "Mission", "IshigamiDiscipline", "PropaneComb1", "PropaneComb2", "PropaneComb3",
              "PropaneReaction", "Sellar1", "SellarSystem", "SobieskiAerodynamics", "SobieskiMission", "SobieskiPropulsion",
              "SobieskiStructure", "SobieskiAerodynamicsSG", "SobieskiMissionSG", "SobieskiPropulsionSG", "SobieskiStructureSG"):
        t[n] = _simple(n)
    t["Sellar2"] = _simple("Sellar2", n=2)
    t["RosenMF"] = _simple("RosenMF", dimension=3)
    t["AnalyticDiscipline"] = _simple("AnalyticDiscipline", expressions={"y": "2*a+sin(b)*a", "z": "a**2-b"})
    for n in NON_DEFAULT_ARGUMENTS:
        t[n] = build_non_default(n)
    for n in ("Splitter:alt", "Concatenater:alt", "MDOParallelChain:deepcopy"):
        t[n] = build_layout(n)
    t["AnalyticDiscipline:multi"] = build_analytic_multi
    t["AutoPyDiscipline"] = build_auto_py
    t["AutoPyDiscipline:many"] = build_auto_py_many
    t["AutoPyDiscipline:arrays"] = build_auto_py_arrays
    t["ArrayBasedFunctionDiscipline"] = build_array_based
    t["Concatenater"] = build_concatenater
    t["Splitter"] = build_splitter
    for fn, opts in (("upper_bound_KS", {"rho": 3.0}), ("lower_bound_KS", {"rho": 3.0}), ("IKS", {"rho": 3.0}),
                     ("POS_SUM", {}), ("SUM", {}), ("MAX", {})):
        t[f"ConstraintAggregation:{fn}"] = _build_aggregation(fn, **opts)
    t["LinearCombination"] = build_linear_combination
    for fmt in ("dense", "csr"):
        t[f"LinearDiscipline:{fmt}"] = _build_linear_discipline(fmt)
    for n in ("DensityFilter", "FiniteElementAnalysis", "MaterialModelInterpolation", "VolumeFraction"):
        t[n] = build_topopt(n)
    t["MainDiscipline"] = build_parametric_scalable("main")
    t["ScalableDiscipline"] = build_parametric_scalable("scalable")
    t["OscillatorDiscipline"] = build_oscillator
    t["ODEDiscipline"] = build_ode
    t["RemappingDiscipline"] = build_remapping
    t["FilteringDiscipline"] = build_filtering
    t["TaylorDiscipline"] = build_taylor
    t["DiscFromExe"] = build_disc_from_exe
    for algo, params in (("LinearRegressor", {}), ("RBFRegressor", {}), ("PolynomialRegressor", {"degree": 2}),
                         ("GaussianProcessRegressor", {}), ("PCERegressor", None), ("OTGaussianProcessRegressor", {})):
        if params is not None:
            t[f"SurrogateDiscipline:{algo}"] = _build_surrogate(algo, **params)
    # -- harness discipline x grammar type x cache type
    for gr in GRAMMAR_VARIANTS:
        t[f"GenDisc:grammar={gr}"] = (lambda ctx, gr=gr: build_gen_leaf(ctx, grammar=gr))
    for cache, shared in (("MemoryFullCache", True), ("MemoryFullCache", False), ("HDF5Cache", True), ("None", True)):
        t[f"GenDisc:cache={cache}{'' if shared else ':unshared'}"] = (
            lambda ctx, cache=cache, shared=shared: build_gen_leaf(ctx, cache=cache, shared=shared))
    t["GenDisc:sparse"] = lambda ctx: build_gen_leaf(ctx, sparse=True)
    for which in ("fd-approx", "cs-approx", "namespaced", "differentiated", "observer", "data-processor",
                  "linear-relationships", "output-defaults"):
        t[f"GenDisc:{which}"] = build_gen_config(which)
    t["PathDisc"] = build_path_disc
    # -- MDAs
    for name in ("MDAChain", "MDAGaussSeidel", "MDAJacobi", "MDAQuasiNewton", "MDASequential"):
        t[f"{name}:sellar"] = build_mda(name, "sellar")
    for name in ("MDAChain", "MDAGaussSeidel", "MDAJacobi", "MDANewtonRaphson", "MDAQuasiNewton", "MDAGSNewton", "MDASequential"):
        t[f"{name}:gen2"] = build_mda(name, "gen2", failing=0)
    for name in ("MDAChain", "MDAGaussSeidel", "MDAJacobi"):
        t[f"{name}:gen3"] = build_mda(name, "gen3")
    for name in ("MDAChain", "MDAGaussSeidel", "MDAJacobi", "MDANewtonRaphson", "MDAQuasiNewton", "MDAGSNewton", "MDASequential"):
        t[f"{name}:rand"] = build_mda(name, "rand")
    t["MDAChain:gen3:inner=MDANewtonRaphson"] = build_mda("MDAChain", "gen3", inner_mda_name="MDANewtonRaphson")
    t["MDAJacobi:gen2:acceleration"] = build_mda("MDAJacobi", "gen2", acceleration_method="Alternate2Delta", over_relaxation_factor=0.9)
    for name in ("SobieskiChain", "SobieskiMDAGaussSeidel", "SobieskiMDAJacobi"):
        t[name] = build_sobieski_process(name)
    # -- chains
    for kind in ("MDOChain", "MDOParallelChain", "MDOAdditiveChain", "MDOWarmStartedChain", "MDOInitializationChain"):
        t[kind] = build_chain(kind, failing=0 if kind in ("MDOChain", "MDOParallelChain", "MDOWarmStartedChain") else None)
    for kind in ("MDOChain", "MDAGaussSeidel", "MDAJacobi", "MDAChain"):
        t[f"{kind}:analytic"] = build_analytic_process(kind)
    t["MDOChain:rand"] = build_chain("MDOChain", rand=True)
    t["MDOParallelChain:rand"] = build_chain("MDOParallelChain", rand=True)
    # -- scenarios and adapters
    for form in ("MDF", "IDF", "DisciplinaryOpt", "BiLevel"):
        for st in ("MDO", "DOE"):
            t[f"{st}Scenario:{form}"] = build_scenario(form, st)
    t["MDOScenarioAdapter"] = build_scenario_adapter("MDOScenarioAdapter")
    t["MDOObjectiveScenarioAdapter"] = build_scenario_adapter("MDOObjectiveScenarioAdapter")
    # -- functions
    for which in ("plain", "vector", "add", "sub", "mul", "div", "neg", "add_const", "mul_const", "offset", "linear",
                  "linear_sum", "linear_neg", "linear_restrict", "quadratic", "restriction", "nested"):
        t[f"MDOFunction:{which}"] = build_function(which)
    t["MDOFunction:from_discipline"] = build_function_from_discipline
    # -- spaces / problems
    for which in ("float", "mixed", "parameter", "parameter_sp"):
        t[f"DesignSpace:{which}"] = build_design_space(which)
    for which in ("plain", "fd", "maximize"):
        t[f"OptimizationProblem:{which}"] = build_problem(which)
    # -- grammars / caches
    for g in ("JSONGrammar", "PydanticGrammar", "SimpleGrammar", "SimplerGrammar"):
        t[f"{g}"] = build_grammar(g)
        t[f"{g}:namespaced"] = build_grammar_namespaced(g)
        t[f"{g}:many"] = build_grammar_many(g)
    t["SimpleCache"] = build_cache("SimpleCache")
    t["SimpleCache:tolerance"] = build_cache("SimpleCache", tolerance=1e-6)
    t["MemoryFullCache:shared"] = build_cache("MemoryFullCache", is_memory_shared=True)
    t["MemoryFullCache:unshared"] = build_cache("MemoryFullCache", is_memory_shared=False)
    t["HDF5Cache"] = build_cache("HDF5Cache")
    return t


def factory_class_of(entry_name):
    return entry_name.split(":")[0]


def entry_kinds():
    """Kind of every entry, from its name (no object is built)."""
    out = {}
    for n in entries():
        head = n.split(":")[0]
        if head in ("MDOScenario", "DOEScenario"):
            k = "scenario"
        elif head == "MDOFunction":
            k = "function"
        elif head == "DesignSpace":
            k = "space"
        elif head == "OptimizationProblem":
            k = "problem"
        elif head.endswith("Grammar"):
            k = "grammar"
        elif head.endswith("Cache") and not head.startswith("GenDisc"):
            k = "cache"
        else:
            k = "discipline"
        out[n] = k
    return out


# =========================================================================== grammar life moments (operation sequences)
# Read-only queries fill internal caches (schema, validator, model); edits may or may not invalidate them.  A grammar
# must round trip after any interleaving of the two.
GRAMMAR_QUERIES = ("read_schema", "to_json", "validate", "to_simple", "read_names", "copy")
GRAMMAR_EDITS = ("req_remove", "req_discard", "req_add", "req_clear", "defaults_set", "defaults_del", "update_names",
                 "update_types", "rename", "restrict")
GRAMMAR_EDITS_SAFE_IN_DISCIPLINE = ("req_remove", "req_discard", "req_add", "req_clear", "defaults_set", "defaults_del",
                                    "update_names", "update_types")

# entries whose input / output grammars get operation sequences before the discipline is serialized
GRAMMAR_OPS_ENTRIES = ("GenDisc:grammar=JSON", "GenDisc:grammar=SIMPLE", "GenDisc:grammar=SIMPLER", "GenDisc:grammar=PYDANTIC",
                       "GenDisc:namespaced", "Sellar1", "AnalyticDiscipline", "AutoPyDiscipline", "MDOChain",
                       "MDAGaussSeidel:gen3")

DIRECTED_GRAMMAR_OPS = (
    [["in", "read_schema", 0], ["in", "req_remove", 1]],
    [["in", "to_json", 0], ["in", "req_clear", 0]],
    [["in", "read_schema", 0], ["in", "req_discard", 0], ["in", "defaults_del", 0]],
    [["in", "validate", 0], ["in", "req_remove", 0], ["in", "read_schema", 0], ["in", "req_add", 0]],
    [["out", "read_schema", 0], ["out", "req_discard", 0], ["in", "read_schema", 0], ["in", "update_names", 2], ["in", "req_discard", 5]],
    [["in", "read_schema", 0], ["in", "rename", 0], ["in", "req_remove", 0], ["in", "restrict", 1]],
)


def random_grammar_ops(rng, in_discipline):
    """A short random operation sequence ``[[which, op, k], ...]`` (JSON-able; ``k`` selects the name)."""
    edits = GRAMMAR_EDITS_SAFE_IN_DISCIPLINE if in_discipline else GRAMMAR_EDITS
    n = int(rng.integers(1, 7))
    ops = []
    for _ in range(n):
        which = "in" if (not in_discipline or rng.random() < 0.75) else "out"
        if rng.random() < 0.45:
            op = str(rng.choice(GRAMMAR_QUERIES))
        else:
            op = str(rng.choice(edits))
        ops.append([which, op, int(rng.integers(0, 6))])
    return ops


def grammar_probe_value(g, name):
    base = name.split(":")[-1]
    fixed = {"a": 2.5, "b": np.array([1.0, 2.0]), "c": "text", "n": 3, "flag": True}
    if base in fixed:
        return fixed[base]
    try:
        if name in g.defaults:
            v = g.defaults[name]
            return np.array(v, copy=True) if isinstance(v, np.ndarray) else v
    except Exception:
        pass
    return np.array([1.0])


def apply_grammar_op(g, op, k):
    """Apply one operation to grammar ``g``; return True when it went through (an illegal edit is simply skipped)."""
    names = sorted(g.names)
    name = names[k % len(names)] if names else None
    try:
        if op == "read_schema":
            g.schema  # noqa: B018
        elif op == "to_json":
            g.to_json()
        elif op == "validate":
            g.validate({n: grammar_probe_value(g, n) for n in names}, raise_exception=False)
        elif op == "to_simple":
            g.to_simple_grammar()
        elif op == "read_names":
            list(g.names), sorted(g.required_names), dict(g.defaults)
        elif op == "copy":
            g.copy()
        elif op == "req_remove":
            g.required_names.remove(name)
        elif op == "req_discard":
            g.required_names.discard(name)
        elif op == "req_add":
            g.required_names.add(name)
        elif op == "req_clear":
            g.required_names.clear()
        elif op == "defaults_set":
            g.defaults[name] = grammar_probe_value(g, name)
        elif op == "defaults_del":
            del g.defaults[name]
        elif op == "update_names":
            g.update_from_names([f"extra{k}"])
            g.required_names.discard(f"extra{k}")
        elif op == "update_types":
            g.update_from_types({f"typed{k}": float})
            if k % 2:
                g.required_names.discard(f"typed{k}")
        elif op == "rename":
            g.rename_element(name, f"{name}_r")
        elif op == "restrict":
            keep = [n for i, n in enumerate(names) if i != k % len(names)] or names
            g.restrict_to(keep)
        else:
            raise ValueError(op)
    except ValueError:
        if op not in GRAMMAR_QUERIES + GRAMMAR_EDITS:
            raise
        return False
    except Exception:
        return False
    return True


def apply_grammar_ops(grammars, ops):
    """``grammars = {"in": g_in, "out": g_out}`` (standalone grammar: both keys give the same object)."""
    done = 0
    for which, op, k in ops:
        g = grammars.get(which) or grammars["in"]
        done += bool(apply_grammar_op(g, op, k))
    return done


def has_cached_read_then_required_edit(ops):
    """Whether the sequence reads a cache filling query and later removes a required name (workload reach)."""
    seen = set()
    for which, op, _ in ops:
        if op in ("read_schema", "to_json", "validate", "to_simple", "copy"):
            seen.add(which)
        if op in ("req_remove", "req_discard", "req_clear") and which in seen:
            return True
    return False
