"""C10 workload generator: closed-form operands and expression trees (harness side, no gemseo).

Operands are dtype-agnostic closed forms (they accept float, complex and ``object`` arrays of
sympy symbols) so that the same tree can be fed numerically and symbolically:

* ``PolyX``  vector-valued polynomial ``f_i(x) = sum_k c[i][k] * prod_j x_j**e[k][j]``
  (float coefficients for the numeric workload, small integers for the symbolic one),
* ``ExpSinX`` wrapper of ``vlib.gen.functions.ExpSin`` (numeric only),
* ``Lin``    ``A x + b``  (realised by ``MDOLinearFunction`` on the gemseo side),
* ``Quad``   ``x'Qx + l'x + c`` (realised by ``MDOQuadraticFunction``).

Every operand exposes ``value(x) -> (m,)``, ``jac(x) -> (m, n)``, ``mag(x) -> (m,)`` and
``jmag(x) -> (m, n)`` (sums of absolute values of the terms: the scale of the rounding error).

A tree is a JSON-able nested dict::

    {"op": "leaf", "f": <operand description>, "fmt": "float"|"arr1"|"arr1g"|"vec"}
    {"op": "+"|"-"|"*"|"/", "a": tree, "b": tree | {"op": "num", "v": 2.5} | {"op": "arr", "v": [..]}}
    {"op": "neg", "a": tree}
    {"op": "offset", "a": tree, "v": number | list}

``fmt`` tells how the harness callable hands its result to gemseo (the broadcasting traps):
``float``: python float value and 1-D gradient (n,); ``arr1``: (1,) value and (1, n) Jacobian;
``arr1g``: (1,) value and 1-D gradient; ``vec``: (m,) value and (m, n) Jacobian.
"""

from __future__ import annotations

import numpy as np

from vlib.gen import functions as gf


def _is_obj(x):
    return np.asarray(x).dtype == object


class PolyX:
    kind = "poly"

    def __init__(self, coeffs, exps):
        self.c = [list(r) for r in coeffs]  # m x K, numbers kept as given (int or float)
        self.e = [[int(p) for p in r] for r in exps]  # K x n
        self.m, self.K, self.n = len(self.c), len(self.e), len(self.e[0])
        self._fast = gf.Poly(np.array(self.c, dtype=float), np.array(self.e, dtype=int))

    def describe(self):
        return {"kind": "poly", "coeffs": self.c, "exps": self.e}

    @staticmethod
    def _mono(x, e):
        out = 1
        for j, p in enumerate(e):
            if p:
                out = out * x[j] ** p
        return out

    def value(self, x):
        x = np.asarray(x)
        if not _is_obj(x):
            return self._fast.value(x)
        mon = [self._mono(x, e) for e in self.e]
        return np.array([sum((c * mk for c, mk in zip(row, mon)), 0) for row in self.c], dtype=object)

    def jac(self, x):
        x = np.asarray(x)
        if not _is_obj(x):
            return self._fast.jac(x)
        J = np.zeros((self.m, self.n), dtype=object)
        for k, e in enumerate(self.e):
            for j in range(self.n):
                if e[j] == 0:
                    continue
                e2 = list(e)
                e2[j] -= 1
                d = e[j] * self._mono(x, e2)
                for i in range(self.m):
                    J[i, j] = J[i, j] + self.c[i][k] * d
        return J

    def mag(self, x):
        return self._fast.abs_value(x)

    def jmag(self, x):
        ax = np.abs(np.asarray(x, dtype=float))
        absp = gf.Poly(np.abs(self._fast.c), self._fast.e)
        return absp.jac(ax)


class ExpSinX:
    kind = "expsin"

    def __init__(self, a, b, c, d):
        self._f = gf.ExpSin(a, b, c, d)
        self.m, self.n = self._f.m, self._f.n

    def describe(self):
        return self._f.describe()

    def value(self, x):
        return self._f.value(x)

    def jac(self, x):
        return self._f.jac(x)

    def mag(self, x):
        return self._f.abs_value(x)

    def jmag(self, x):
        f, x = self._f, np.asarray(x, dtype=float)
        return (np.abs(f.a) * np.exp(f.b @ x))[:, None] * np.abs(f.b) + np.abs(f.c)[:, None] * np.abs(f.d)


class Lin:
    kind = "linear"

    def __init__(self, A, b):
        self.A = [list(r) for r in A]
        self.b = list(b)
        self.m, self.n = len(self.A), len(self.A[0])

    def describe(self):
        return {"kind": "linear", "A": self.A, "b": self.b}

    def _arr(self, x):
        dt = object if _is_obj(x) else float
        return np.array(self.A, dtype=dt), np.array(self.b, dtype=dt)

    def value(self, x):
        x = np.asarray(x)
        A, b = self._arr(x)
        return np.array([sum((A[i, j] * x[j] for j in range(self.n)), b[i]) for i in range(self.m)],
                        dtype=object if _is_obj(x) else x.dtype)

    def jac(self, x):
        return self._arr(x)[0]

    def mag(self, x):
        ax = np.abs(np.asarray(x, dtype=float))
        return np.abs(np.array(self.A, dtype=float)) @ ax + np.abs(np.array(self.b, dtype=float))

    def jmag(self, x):
        return np.abs(np.array(self.A, dtype=float))


class Quad:
    kind = "quadratic"

    def __init__(self, Q, l, c):
        self.Q = [list(r) for r in Q]
        self.l = list(l)
        self.c = c
        self.m, self.n = 1, len(self.l)

    def describe(self):
        return {"kind": "quadratic", "Q": self.Q, "l": self.l, "c": self.c}

    def value(self, x):
        x = np.asarray(x)
        n = self.n
        v = self.c
        for i in range(n):
            v = v + self.l[i] * x[i]
            for j in range(n):
                v = v + self.Q[i][j] * x[i] * x[j]
        return np.array([v], dtype=object if _is_obj(x) else x.dtype)

    def jac(self, x):
        x = np.asarray(x)
        n = self.n
        g = []
        for k in range(n):
            d = self.l[k]
            for j in range(n):
                d = d + (self.Q[k][j] + self.Q[j][k]) * x[j]
            g.append(d)
        return np.array([g], dtype=object if _is_obj(x) else x.dtype)

    def mag(self, x):
        ax = np.abs(np.asarray(x, dtype=float))
        Q, l = np.abs(np.array(self.Q, dtype=float)), np.abs(np.array(self.l, dtype=float))
        return np.array([ax @ Q @ ax + l @ ax + abs(float(self.c))])

    def jmag(self, x):
        ax = np.abs(np.asarray(x, dtype=float))
        Q, l = np.abs(np.array(self.Q, dtype=float)), np.abs(np.array(self.l, dtype=float))
        return ((Q + Q.T) @ ax + l)[None, :]


SPARSE_FORMATS = ["csr_array", "csr_matrix", "csc_array", "csc_matrix", "coo_array", "coo_matrix", "lil_array", "dok_matrix"]
"""SciPy sparse containers accepted by the constructor of MDOLinearFunction (it converts them with ``tocsr()``)."""

P_SPARSE = 0.3
"""Probability that a linear leaf gets sparse coefficients (numeric workload only)."""


def operand_from_description(d):
    k = d["kind"]
    if k == "poly":
        return PolyX(d["coeffs"], d["exps"])
    if k == "expsin":
        return ExpSinX(d["a"], d["b"], d["c"], d["d"])
    if k == "linear":
        return Lin(d["A"], d["b"])
    if k == "quadratic":
        return Quad(d["Q"], d["l"], d["c"])
    raise KeyError(k)


# --------------------------------------------------------------------------- random operands
def _num(rng, integer):
    if integer:
        v = int(rng.integers(-3, 4))
        return v if v != 0 else 2
    v = float(np.round(rng.uniform(-2, 2), 3))
    return v if abs(v) > 0.05 else 0.7


def random_operand(rng, n, m, kinds, integer=False):
    kind = kinds[int(rng.integers(len(kinds)))]
    if kind == "quadratic" and m != 1:
        kind = "poly"
    if kind == "poly":
        terms = int(rng.integers(2, 5))
        exps = []
        for _ in range(terms):
            e = [0] * n
            for _ in range(int(rng.integers(0, 3 if integer else 4))):
                e[int(rng.integers(n))] += 1
            exps.append(e)
        coeffs = [[_num(rng, integer) for _ in range(terms)] for _ in range(m)]
        return PolyX(coeffs, exps)
    if kind == "expsin":
        f = gf.ExpSin.random(rng, n, m)
        return ExpSinX(f.a.tolist(), f.b.tolist(), f.c.tolist(), f.d.tolist())
    if kind == "linear":
        return Lin([[_num(rng, integer) for _ in range(n)] for _ in range(m)], [_num(rng, integer) for _ in range(m)])
    if kind == "quadratic":
        return Quad([[_num(rng, integer) for _ in range(n)] for _ in range(n)], [_num(rng, integer) for _ in range(n)],
                    _num(rng, integer))
    raise KeyError(kind)


def random_leaf(rng, n, m, integer=False, kinds=None, p_sparse=None):
    kinds = kinds or (["poly", "poly", "linear", "quadratic"] if integer else
                      ["poly", "poly", "expsin", "linear", "linear", "quadratic"])
    f = random_operand(rng, n, m, kinds, integer)
    if f.kind == "linear" and not integer and rng.random() < (P_SPARSE if p_sparse is None else p_sparse):
        # coefficients handed to MDOLinearFunction as a SciPy sparse container (some exact zeros for the pattern)
        A = [[0.0 if rng.random() < 0.35 else v for v in row] for row in f.A]
        f = Lin(A, f.b)
        fmt = "sparse:" + SPARSE_FORMATS[int(rng.integers(len(SPARSE_FORMATS)))]
    elif f.kind in ("linear", "quadratic"):
        fmt = "native"  # the gemseo class decides the format
    elif m == 1:
        fmt = ["float", "float", "arr1", "arr1g"][int(rng.integers(4))]
    else:
        fmt = "vec"
    return {"op": "leaf", "f": f.describe(), "fmt": fmt}


def out_dim(node):
    """Output dimension of a tree under numpy broadcasting of 1 against m."""
    op = node["op"]
    if op == "leaf":
        d = node["f"]
        return {"poly": lambda: len(d["coeffs"]), "expsin": lambda: len(d["a"]), "linear": lambda: len(d["A"]),
                "quadratic": lambda: 1}[d["kind"]]()
    if op == "num":
        return 1
    if op == "arr":
        return len(node["v"])
    if op in ("neg",):
        return out_dim(node["a"])
    if op == "offset":
        m = out_dim(node["a"])
        return max(m, len(node["v"])) if isinstance(node["v"], list) else m
    return max(out_dim(node["a"]), out_dim(node["b"]))


def random_tree(rng, n, m, depth, integer=False, p_scalar_leaf=0.25, top=True):
    """A random tree of the given depth whose output dimension is ``m`` (leaves are m- or 1-dimensional)."""
    if depth == 0:
        mm = 1 if (m > 1 and rng.random() < p_scalar_leaf) else m
        return random_leaf(rng, n, mm, integer)
    r = rng.random()
    a = random_tree(rng, n, m, depth - 1, integer, p_scalar_leaf, False)
    ma = out_dim(a)
    if r < 0.10:
        return {"op": "neg", "a": a}
    if r < 0.20:
        if rng.random() < 0.5:
            return {"op": "offset", "a": a, "v": _num(rng, integer)}
        return {"op": "offset", "a": a, "v": [_num(rng, integer) for _ in range(ma)]}
    op = ["+", "-", "*", "/", "*", "/"][int(rng.integers(6))]
    q = rng.random()
    if q < 0.22:
        b = {"op": "num", "v": _num(rng, integer)}
    elif q < 0.40:
        # an array operand has the size of the function's output; a scalar function may also be scaled by a
        # longer vector (gemseo handles this explicitly in the multiplication maker)
        size = ma
        if top and m == 1 and op in "*/" and rng.random() < 0.5:
            size = int(rng.integers(2, 4))
        b = {"op": "arr", "v": [_num(rng, integer) for _ in range(size)]}
    else:
        b = random_tree(rng, n, m, int(rng.integers(0, depth)), integer, p_scalar_leaf, False)
    return {"op": op, "a": a, "b": b}


def tree_shape(node):
    """Structural signature of a tree (no coefficients)."""
    op = node["op"]
    if op == "leaf":
        return ("leaf", node["f"]["kind"], out_dim(node), node["fmt"])
    if op == "num":
        return ("num",)
    if op == "arr":
        return ("arr", len(node["v"]))
    if op == "neg":
        return ("neg", tree_shape(node["a"]))
    if op == "offset":
        return ("offset", len(node["v"]) if isinstance(node["v"], list) else 0, tree_shape(node["a"]))
    return (op, tree_shape(node["a"]), tree_shape(node["b"]))


def tree_depth(node):
    op = node["op"]
    if op in ("leaf", "num", "arr"):
        return 0
    if op in ("neg", "offset"):
        return 1 + tree_depth(node["a"])
    return 1 + max(tree_depth(node["a"]), tree_depth(node["b"]))


def random_points(rng, n, k=5):
    """k points: the origin-ish point with zeros, a negative one, and random ones."""
    pts = []
    z = np.round(rng.uniform(-1.5, 1.5, n), 3)
    z[rng.integers(n)] = 0.0
    pts.append(z)
    pts.append(-np.abs(np.round(rng.uniform(0.2, 1.5, n), 3)))
    while len(pts) < k:
        pts.append(np.round(rng.uniform(-1.5, 1.5, n), 3))
    return pts
