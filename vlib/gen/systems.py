"""Generated coupled systems with exact solutions and exact total derivatives (harness side).

A system is a list of disciplines ``D_i``.  ``D_i`` reads the shared variable ``x``, optionally a
local variable ``z_i`` and the couplings ``y_j`` of its predecessors (possibly its own ``y_i``:
self-coupled), and produces

    y_i = phi(A_i . u_i + c_i)          coupling output   (phi = identity | tanh)
    f_i = B_i . u_i + d_i  [+ 0.5*q_i*sum(u_i**2) if nonlinear]   optional non-coupling output

with ``u_i`` the concatenation of its inputs.  The coupling part of the ``A_i`` is scaled so
that the row-sum norm of the global coupling matrix is ``<= L < 1``: Jacobi, Gauss-Seidel and
Newton iterations are all contractive/convergent on it and the solution is unique.

Nothing here imports the gemseo modules under judgement: the numerical reference uses numpy only;
``make_disciplines`` builds thin ``gemseo.core.discipline.Discipline`` subclasses whose bodies call
back into this module (and count their executions).

The spec is a JSON-serialisable dict so that a witness can be replayed without the generator.
"""

from __future__ import annotations

import numpy as np


# --------------------------------------------------------------------------- generation
def random_graph(rng, n, kind):
    """Return the set of coupling edges (j -> i means D_i reads y_j)."""
    edges = set()
    if kind == "ring":  # one SCC
        for i in range(n):
            edges.add((i, (i + 1) % n))
        for _ in range(int(rng.integers(0, n))):
            a, b = int(rng.integers(n)), int(rng.integers(n))
            if a != b:
                edges.add((a, b))
    elif kind == "two_scc":  # two SCCs linked by a weak coupling
        k = max(1, n // 2)
        first, second = list(range(k)), list(range(k, n))
        for grp in (first, second):
            if len(grp) > 1:
                for a, b in zip(grp, grp[1:] + grp[:1]):
                    edges.add((a, b))
        if second:
            edges.add((first[-1], second[0]))
    elif kind == "tail_head":  # feed-forward head -> SCC -> feed-forward tail
        core = list(range(1, n - 1)) if n >= 4 else list(range(n))
        if len(core) > 1:
            for a, b in zip(core, core[1:] + core[:1]):
                edges.add((a, b))
        if n >= 4:
            edges.add((0, core[0]))
            edges.add((core[-1], n - 1))
    elif kind == "dense":
        for a in range(n):
            for b in range(n):
                if a != b and rng.random() < 0.7:
                    edges.add((a, b))
        for i in range(n):  # make sure it is strongly connected
            edges.add((i, (i + 1) % n))
    else:
        raise ValueError(kind)
    return edges


def random_system(rng, n=None, kind=None, nonlinear=None, L=None, self_coupled=None, with_f=True,
                  max_size=3, with_local=True):
    n = int(n if n is not None else rng.integers(2, 6))
    kind = kind or str(rng.choice(["ring", "ring", "two_scc", "tail_head", "dense"]))
    nonlinear = bool(rng.random() < 0.5) if nonlinear is None else nonlinear
    L = float(L if L is not None else rng.choice([0.2, 0.5, 0.8]))
    edges = random_graph(rng, n, kind)
    if self_coupled is None:
        self_coupled = rng.random() < 0.25
    if self_coupled:
        edges.add((int(rng.integers(n)),) * 2)
    x_size = int(rng.integers(1, max_size + 1))
    sizes = [int(rng.integers(1, max_size + 1)) for _ in range(n)]
    discs = []
    for i in range(n):
        preds = sorted(j for (j, t) in edges if t == i)
        ins = [("x", x_size)]
        if with_local and rng.random() < 0.6:
            ins.append((f"z{i}", int(rng.integers(1, max_size + 1))))
        ins += [(f"y{j}", sizes[j]) for j in preds]
        A = {nm: np.round(rng.uniform(-1, 1, (sizes[i], s)), 3) for nm, s in ins}
        d = {"name": f"D{i}", "inputs": [[nm, s] for nm, s in ins], "y": [f"y{i}", sizes[i]],
             "A": {k: v.tolist() for k, v in A.items()}, "c": np.round(rng.uniform(-1, 1, sizes[i]), 3).tolist()}
        if with_f and rng.random() < 0.7:
            fs = int(rng.integers(1, max_size + 1))
            d["f"] = [f"f{i}", fs]
            d["B"] = {nm: np.round(rng.uniform(-1, 1, (fs, s)), 3).tolist() for nm, s in ins}
            d["d"] = np.round(rng.uniform(-1, 1, fs), 3).tolist()
            d["q"] = float(np.round(rng.uniform(0.2, 1.0), 3)) if nonlinear else 0.0
        discs.append(d)
    spec = {"n": n, "kind": kind, "nonlinear": nonlinear, "L": L, "x_size": x_size, "disciplines": discs}
    _scale_couplings(spec)
    return spec


def _scale_couplings(spec):
    """Scale the coupling blocks so that the row-sum norm of the coupling matrix is L."""
    worst = 0.0
    for d in spec["disciplines"]:
        rows = np.zeros(d["y"][1])
        for nm, _ in d["inputs"]:
            if nm.startswith("y"):
                rows += np.abs(np.array(d["A"][nm])).sum(axis=1)
        worst = max(worst, rows.max() if rows.size else 0.0)
    if worst > 0:
        k = spec["L"] / worst
        for d in spec["disciplines"]:
            for nm, _ in d["inputs"]:
                if nm.startswith("y"):
                    d["A"][nm] = (np.array(d["A"][nm]) * k).tolist()


# --------------------------------------------------------------------------- reference
class CoupledSystem:
    def __init__(self, spec):
        self.spec = spec
        self.nonlinear = spec["nonlinear"]
        self.discs = spec["disciplines"]
        self.sizes = {}
        for d in self.discs:
            for nm, s in d["inputs"]:
                self.sizes[nm] = s
            self.sizes[d["y"][0]] = d["y"][1]
            if "f" in d:
                self.sizes[d["f"][0]] = d["f"][1]
        self.couplings = [d["y"][0] for d in self.discs]
        self.independent = sorted(nm for nm in self.sizes if nm == "x" or nm.startswith("z"))
        self.f_names = [d["f"][0] for d in self.discs if "f" in d]
        self.producer = {d["y"][0]: d for d in self.discs}
        self.edges = {(int(nm[1:]), i) for i, d in enumerate(self.discs) for nm, _ in d["inputs"] if nm.startswith("y")}
        # variables read by somebody as a coupling (strong or weak)
        self.read_couplings = sorted({nm for d in self.discs for nm, _ in d["inputs"] if nm.startswith("y")})

    # -- graph ---------------------------------------------------------------
    def sccs(self):
        n = len(self.discs)
        reach = np.eye(n, dtype=bool)
        for a, b in self.edges:
            reach[a, b] = True
        for k in range(n):
            reach |= reach[:, [k]] & reach[[k], :]
        comps, seen = [], set()
        for i in range(n):
            if i in seen:
                continue
            comp = [j for j in range(n) if reach[i, j] and reach[j, i]]
            seen.update(comp)
            comps.append(comp)
        return comps

    def strongly_coupled(self):
        """True when all disciplines belong to one SCC (domain of Newton / quasi-Newton MDAs)."""
        return len(self.sccs()) == 1 and (len(self.discs) > 1 or (0, 0) in self.edges)

    def strong_coupling_names(self):
        out = set()
        for comp in self.sccs():
            cs = set(comp)
            for a, b in self.edges:
                if a in cs and b in cs and (len(comp) > 1 or a == b):
                    out.add(f"y{a}")
        return sorted(out)

    # -- evaluation ----------------------------------------------------------
    def default_inputs(self, rng=None):
        out = {}
        for nm in self.independent:
            out[nm] = (np.round(rng.uniform(-1, 1, self.sizes[nm]), 3) if rng is not None
                       else np.linspace(0.3, 0.7, self.sizes[nm]))
        return out

    @staticmethod
    def _u(d, data):
        return {nm: np.asarray(data[nm]) for nm, _ in d["inputs"]}

    def eval_disc(self, d, data):
        """Outputs of discipline ``d`` on ``data`` (dict name -> array)."""
        u = self._u(d, data)
        s = np.array(d["c"], dtype=float)
        for nm, v in u.items():
            s = s + np.array(d["A"][nm]) @ v
        out = {d["y"][0]: np.tanh(s) if self.nonlinear else s}
        if "f" in d:
            f = np.array(d["d"], dtype=float)
            for nm, v in u.items():
                f = f + np.array(d["B"][nm]) @ v
            if d.get("q"):
                f = f + 0.5 * d["q"] * sum(float(np.sum(v ** 2)) for v in u.values())
            out[d["f"][0]] = f
        return out

    def partials_disc(self, d, data):
        u = self._u(d, data)
        s = np.array(d["c"], dtype=float)
        for nm, v in u.items():
            s = s + np.array(d["A"][nm]) @ v
        g = (1 - np.tanh(s) ** 2) if self.nonlinear else np.ones_like(s)
        jac = {d["y"][0]: {nm: g[:, None] * np.array(d["A"][nm]) for nm in u}}
        if "f" in d:
            jac[d["f"][0]] = {}
            for nm, v in u.items():
                J = np.array(d["B"][nm], dtype=float)
                if d.get("q"):
                    J = J + d["q"] * np.tile(v, (J.shape[0], 1))
                jac[d["f"][0]][nm] = J
        return jac

    def solve(self, inputs, tol=1e-15, max_iter=5000):
        """Exact coupled solution: all couplings and non-coupling outputs at the fixed point."""
        data = {k: np.asarray(v, dtype=float) for k, v in inputs.items()}
        for nm in self.couplings:
            data.setdefault(nm, np.zeros(self.sizes[nm]))
        if not self.nonlinear:
            names = self.couplings
            off = np.cumsum([0] + [self.sizes[n] for n in names])
            N = off[-1]
            M, b = np.eye(N), np.zeros(N)
            for k, nm in enumerate(names):
                d = self.producer[nm]
                r = slice(off[k], off[k + 1])
                b[r] = np.array(d["c"], dtype=float)
                for inm, _ in d["inputs"]:
                    Ai = np.array(d["A"][inm])
                    if inm.startswith("y"):
                        kk = names.index(inm)
                        M[r, off[kk]:off[kk + 1]] -= Ai
                    else:
                        b[r] += Ai @ data[inm]
            y = np.linalg.solve(M, b)
            for k, nm in enumerate(names):
                data[nm] = y[off[k]:off[k + 1]]
        else:
            for _ in range(max_iter):
                delta = 0.0
                for d in self.discs:  # Gauss-Seidel sweeps, contraction <= L
                    new = self.eval_disc(d, data)[d["y"][0]]
                    delta = max(delta, float(np.max(np.abs(new - data[d["y"][0]]))))
                    data[d["y"][0]] = new
                if delta <= tol:
                    break
        for d in self.discs:
            out = self.eval_disc(d, data)
            if "f" in d:
                data[d["f"][0]] = out[d["f"][0]]
        return data

    def residual(self, data):
        """max_i ||D_i(data) - data_i||_inf over all outputs present in ``data``."""
        worst = 0.0
        for d in self.discs:
            out = self.eval_disc(d, data)
            for nm, v in out.items():
                if nm in data:
                    worst = max(worst, float(np.max(np.abs(v - np.asarray(data[nm])))))
        return worst

    def total_derivatives(self, inputs, of=None, wrt=None):
        """``d of / d wrt`` at the coupled solution (implicit function theorem, dense)."""
        sol = self.solve(inputs)
        wrt = list(wrt) if wrt is not None else self.independent
        of = list(of) if of is not None else self.couplings + self.f_names
        names = self.couplings
        off = np.cumsum([0] + [self.sizes[n] for n in names])
        N = off[-1]
        woff = np.cumsum([0] + [self.sizes[n] for n in wrt])
        dGdy, dGdx = np.zeros((N, N)), np.zeros((N, woff[-1]))
        parts = {}
        for d in self.discs:
            parts.update(self.partials_disc(d, sol))
        for k, nm in enumerate(names):
            r = slice(off[k], off[k + 1])
            for inm, J in parts[nm].items():
                if inm.startswith("y"):
                    kk = names.index(inm)
                    dGdy[r, off[kk]:off[kk + 1]] += J
                elif inm in wrt:
                    w = wrt.index(inm)
                    dGdx[r, woff[w]:woff[w + 1]] += J
        dYdx = np.linalg.solve(np.eye(N) - dGdy, dGdx)
        out = {}
        for o in of:
            if o in names:
                k = names.index(o)
                tot = dYdx[off[k]:off[k + 1], :]
            else:
                tot = np.zeros((self.sizes[o], woff[-1]))
                for inm, J in parts[o].items():
                    if inm.startswith("y"):
                        kk = names.index(inm)
                        tot = tot + J @ dYdx[off[kk]:off[kk + 1], :]
                    elif inm in wrt:
                        w = wrt.index(inm)
                        tot[:, woff[w]:woff[w + 1]] += J
            out[o] = {w_: tot[:, woff[i]:woff[i + 1]] for i, w_ in enumerate(wrt)}
        return out, sol

    def cond_residual_jacobian(self, inputs):
        sol = self.solve(inputs)
        names = self.couplings
        off = np.cumsum([0] + [self.sizes[n] for n in names])
        dGdy = np.zeros((off[-1], off[-1]))
        for k, nm in enumerate(names):
            J = self.partials_disc(self.producer[nm], sol)[nm]
            for inm, Ji in J.items():
                if inm.startswith("y"):
                    kk = names.index(inm)
                    dGdy[off[k]:off[k + 1], off[kk]:off[kk + 1]] += Ji
        return float(np.linalg.cond(np.eye(off[-1]) - dGdy))

    # -- gemseo side ---------------------------------------------------------
    def make_disciplines(self, order=None, sparse=False, defaults=None):
        """Fresh gemseo disciplines (uncached twins are simply another call of this)."""
        from gemseo.core.discipline import Discipline

        system = self
        defaults = defaults or {}

        class SysDisc(Discipline):
            def __init__(self, d):
                super().__init__(name=d["name"])
                self.d = d
                self.n_run = 0
                self.n_lin = 0
                ins = [nm for nm, _ in d["inputs"]]
                outs = [d["y"][0]] + ([d["f"][0]] if "f" in d else [])
                self.io.input_grammar.update_from_names(ins)
                self.io.output_grammar.update_from_names(outs)
                self.io.input_grammar.defaults = {
                    nm: np.array(defaults.get(nm, np.zeros(s)), dtype=float) for nm, s in d["inputs"]}

            def _run(self, input_data):
                self.n_run += 1
                return system.eval_disc(self.d, input_data)

            def _compute_jacobian(self, input_names=(), output_names=()):
                self.n_lin += 1
                jac = system.partials_disc(self.d, {k: np.real(v) for k, v in self.io.data.items()})
                if sparse:
                    from scipy.sparse import csr_array

                    jac = {o: {i: csr_array(J) for i, J in ji.items()} for o, ji in jac.items()}
                self.jac = jac

        order = list(order) if order is not None else list(range(len(self.discs)))
        return [SysDisc(self.discs[i]) for i in order]
