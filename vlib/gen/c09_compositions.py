"""C09 workload: acyclic compositions of harness disciplines, as JSON-able trees.

``spec = {"root": node, "sizes": {name: size}}`` with nodes

    {"t": "leaf", "name", "ins": [[name, size]..], "outs": [[name, size]..], "A": {out: {in: matrix}},
     "c": {out: vector}, "phi": "lin"|"tanh"|"sq", "fmt": {out: {in: "dense"|"csr"|"op"}}}
    {"t": "chain", "children": [...]}                              -> MDOChain
    {"t": "par", "children": [...], "n_processes": int|None}       -> MDOParallelChain (threads)
    {"t": "add", "children": [...], "sum": [names], ...}           -> MDOAdditiveChain (threads)
    {"t": "mdachain", "children": [...], "chain_linearize": bool, "parallelize": bool}  -> MDAChain

The meaning of a tree is given by ``vlib/ref/c09_forward_ad.py`` (which does not import gemseo).
``build`` turns a tree into the real gemseo process made of harness leaves with exact partials.
``ssa_twin`` renames re-used variable names (static single assignment) and is used to classify a
violation by mechanism.  Structural predicates (``features``) never look at numbers.
"""

from __future__ import annotations

import copy
import threading

import numpy as np

from vlib.ref.c09_forward_ad import leaf_apply
from vlib.ref.c09_forward_ad import process_io
from vlib.ref.c09_forward_ad import topo_order

RESIDUAL_NORM = "MDA residuals norm"


# =========================================================================== generation
class _Ctx:
    def __init__(self, rng, opts):
        self.rng = rng
        self.sizes = {}
        self.nv = 0
        self.nx = 0
        self.nl = 0
        self.left = opts["n_leaves"]
        self.opts = opts

    def size(self):
        if "sizes" in self.opts:
            return int(self.rng.choice(self.opts["sizes"]))
        return int(self.rng.choice([1, 2, 3, 4], p=[0.3, 0.35, 0.25, 0.1]))

    def fresh(self, prefix):
        if prefix == "x":
            name = f"x{self.nx}"
            self.nx += 1
        else:
            name = f"{prefix}{self.nv}"
            self.nv += 1
        self.sizes[name] = self.size()
        return name

    def p(self, key):
        return self.rng.random() < self.opts.get(key, 0.0)


DEFAULT_OPTS = {
    "n_leaves": 5, "max_depth": 3,
    "p_overwrite": 0.18,      # a chain child re-produces a live name (without reading it)
    "p_self_update": 0.04,    # a leaf reads and writes the same name
    "p_fresh_input": 0.25,    # a leaf reads a brand new process input
    "p_dup_par": 0.0,         # two children of a parallel chain produce the same name
    "p_partial_sum": 0.0,     # a child of an additive chain does not produce a summed name
    "p_overwrite_from_elsewhere": 0.4,  # an overwriting leaf reads only fresh process inputs
    "p_read_overwritten": 0.7,  # the leaf following an overwrite in a chain reads the new value
    "p_structural_zero": 0.2,  # an output of a leaf ignores one of the leaf inputs
    "fmt": "mixed",
}


def _block_fmt(ctx, leaf_mode):
    if leaf_mode == "mixed":
        return str(ctx.rng.choice(["dense", "csr", "op"], p=[0.5, 0.3, 0.2]))
    return leaf_mode


def gen_leaf(ctx, avail, overwritable=(), must_out=(), fresh_outs=True, allow_fresh_input=True, max_outs=2):
    rng = ctx.rng
    ctx.left -= 1
    name = f"L{ctx.nl}"
    ctx.nl += 1
    avail = list(dict.fromkeys(avail))
    ins = []
    if avail:
        k = int(min(len(avail), rng.integers(1, 4)))
        # prefer recent variables so that real chains (depth) appear, but keep pass-through of old ones
        w = np.linspace(1.0, 3.0, len(avail))
        ins = [avail[j] for j in sorted(rng.choice(len(avail), size=k, replace=False, p=w / w.sum()))]
    # a discipline of the same chain has just re-produced some names: read one of them (so that the overwritten
    # value matters downstream)
    prefer = [n for n in getattr(ctx, "prefer_in", ()) if n in avail]
    ctx.prefer_in = []
    if prefer and ctx.p("p_read_overwritten"):
        nm = prefer[int(rng.integers(len(prefer)))]
        if nm not in ins:
            ins.append(nm)
    if (not ins) or (allow_fresh_input and ctx.p("p_fresh_input")):
        ins.append(ctx.fresh("x"))
    outs = list(must_out)
    ins = [i for i in ins if i not in outs]
    n_out = max(int(rng.integers(1, max_outs + 1)), len(outs))
    over = [n for n in dict.fromkeys(overwritable) if n not in outs]
    while len(outs) < n_out:
        if over and ctx.p("p_overwrite"):
            # pure overwrite: re-produce a live name without reading it
            cand = over.pop(int(rng.integers(len(over))))
            outs.append(cand)
            if cand in ins:
                ins.remove(cand)
            if allow_fresh_input and ctx.p("p_overwrite_from_elsewhere"):
                # the new value comes from process inputs the replaced value does not depend on
                ins = [ctx.fresh("x")] + ([ctx.fresh("x")] if rng.random() < 0.3 else [])
        elif fresh_outs:
            outs.append(ctx.fresh("v"))
        else:
            break
    if over and ctx.p("p_self_update"):
        # the leaf reads and writes the same name
        cand = over[int(rng.integers(len(over)))]
        outs.append(cand)
        if cand not in ins:
            ins.append(cand)
    if not ins:
        ins.append(ctx.fresh("x"))
    mode = ctx.opts["fmt"]
    if mode == "mixed":
        mode = str(rng.choice(["dense", "csr", "op", "mixed"], p=[0.4, 0.2, 0.15, 0.25]))
    A, c, fmt = {}, {}, {}
    for o in outs:
        used = [i for i in ins if not ctx.p("p_structural_zero")] or [ins[int(rng.integers(len(ins)))]]
        A[o] = {i: np.round(rng.uniform(-1, 1, (ctx.sizes[o], ctx.sizes[i])), 3).tolist() for i in used}
        c[o] = np.round(rng.uniform(-0.5, 0.5, ctx.sizes[o]), 3).tolist()
        fmt[o] = {i: _block_fmt(ctx, mode) for i in ins}
    return {"t": "leaf", "name": name, "ins": [[i, ctx.sizes[i]] for i in ins],
            "outs": [[o, ctx.sizes[o]] for o in outs], "A": A, "c": c,
            "phi": str(rng.choice(["lin", "tanh", "sq"], p=[0.3, 0.4, 0.3])), "fmt": fmt}


def _pick_kind(ctx, depth, exclude=()):
    if depth >= ctx.opts["max_depth"] or ctx.left < 2:
        return "leaf"
    kinds = ["leaf", "chain", "par", "add", "mdachain"]
    p = np.array([0.55, 0.15, 0.12, 0.08, 0.10])
    keep = [k not in exclude for k in kinds]
    p = p * keep
    return str(ctx.rng.choice(kinds, p=p / p.sum()))


def gen_node(ctx, kind, avail, overwritable, depth):
    if kind == "leaf":
        return gen_leaf(ctx, avail, overwritable)
    if kind == "chain":
        return gen_chain(ctx, avail, overwritable, depth)
    if kind == "par":
        return gen_par(ctx, avail, overwritable, depth)
    if kind == "add":
        return gen_add(ctx, avail, depth)
    if kind == "mdachain":
        return gen_mdachain(ctx, avail, depth)
    raise ValueError(kind)


def gen_chain(ctx, avail, overwritable, depth, n=None):
    rng = ctx.rng
    n = int(n or rng.integers(2, 5))
    local, over, children = list(avail), list(overwritable), []
    for _ in range(n):
        if ctx.left <= 0:
            break
        kind = _pick_kind(ctx, depth + 1)
        ch = gen_node(ctx, kind, local, over, depth + 1)
        children.append(ch)
        ci, co = process_io(ch)
        ctx.prefer_in = [nm for nm in co if nm in local and nm not in ci]
        for nm in ci + co:
            if nm not in local:
                local.append(nm)
        for nm in ci + co:
            if nm not in over:
                over.append(nm)
    if len(children) == 1 and ctx.left > 0:
        children.append(gen_leaf(ctx, local, over))
    return {"t": "chain", "children": children}


def gen_par(ctx, avail, overwritable, depth):
    rng = ctx.rng
    n = int(rng.integers(2, 4))
    children, produced = [], []
    for _ in range(n):
        if ctx.left <= 0:
            break
        kind = _pick_kind(ctx, depth + 1, exclude=("mdachain",))
        if produced and ctx.p("p_dup_par"):
            ch = gen_leaf(ctx, avail, (), must_out=[produced[int(rng.integers(len(produced)))]])
        else:
            ch = gen_node(ctx, kind, avail, overwritable, depth + 1)
        children.append(ch)
        produced += [o for o in process_io(ch)[1] if o not in produced]
    if len(children) == 1 and ctx.left > 0:
        children.append(gen_leaf(ctx, avail, ()))
    npc = [None, None, 1, 2][int(rng.integers(4))]
    return {"t": "par", "children": children, "n_processes": npc}


def gen_add(ctx, avail, depth):
    rng = ctx.rng
    n = int(rng.integers(2, 4))
    summed = [ctx.fresh("s") for _ in range(int(rng.integers(1, 3)))]
    children = []
    for k in range(n):
        if ctx.left <= 0:
            break
        must = list(summed)
        if k > 0 and len(must) > 1 and ctx.p("p_partial_sum"):
            must.pop(int(rng.integers(len(must))))
        extra = ctx.rng.random() < 0.4
        children.append(gen_leaf(ctx, avail, (), must_out=must, fresh_outs=extra, max_outs=len(must) + int(extra)))
    if len(children) == 1 and ctx.left > 0:
        children.append(gen_leaf(ctx, avail, (), must_out=list(summed), fresh_outs=False))
    npc = [None, None, 1, 2][int(rng.integers(4))]
    return {"t": "add", "children": children, "sum": summed, "n_processes": npc}


def gen_mdachain(ctx, avail, depth):
    """Acyclic single-writer system, children listed in a random order."""
    rng = ctx.rng
    n = int(rng.integers(2, 5))
    local, children = list(avail), []
    saved = {k: ctx.opts.get(k, 0.0) for k in ("p_overwrite", "p_self_update")}
    for k in saved:
        ctx.opts[k] = 0.0
    try:
        for _ in range(n):
            if ctx.left <= 0:
                break
            if depth + 1 < ctx.opts["max_depth"] and ctx.left >= 2 and rng.random() < 0.2:
                ch = gen_chain(ctx, local, (), ctx.opts["max_depth"], n=2)  # leaves only, fresh outputs
            else:
                ch = gen_leaf(ctx, local, ())
            children.append(ch)
            local += [o for o in process_io(ch)[1] if o not in local]
        if len(children) == 1 and ctx.left > 0:
            children.append(gen_leaf(ctx, local, ()))
    finally:
        ctx.opts.update(saved)
    order = rng.permutation(len(children)).tolist()
    return {"t": "mdachain", "children": [children[k] for k in order],
            "chain_linearize": bool(rng.random() < 0.85), "parallelize": bool(rng.random() < 0.3)}


def random_composition(rng, root_kind=None, **opts):
    o = dict(DEFAULT_OPTS)
    o.update(opts)
    if "n_leaves" not in opts:
        o["n_leaves"] = int(rng.integers(2, 8))
    ctx = _Ctx(rng, o)
    kind = root_kind or str(rng.choice(["chain", "par", "add", "mdachain"], p=[0.5, 0.17, 0.13, 0.2]))
    avail = [ctx.fresh("x") for _ in range(int(rng.integers(1, 3)))]
    root = gen_node(ctx, kind, avail, list(avail) if kind in ("chain", "par") else (), 0)
    return {"root": root, "sizes": dict(ctx.sizes)}


def random_point(rng, spec, names=None):
    names = names if names is not None else process_io(spec["root"])[0]
    return {n: np.round(rng.uniform(-1, 1, spec["sizes"][n]), 3).tolist() for n in names}


def random_requests(rng, spec, p_targeted=0.6):
    """1-4 successive requests on one instance; each names the variables *added* (or 'all') and a point."""
    ins, outs = process_io(spec["root"])
    n_pts = 1 if rng.random() < 0.6 else 2
    pts = [random_point(rng, spec)]
    if n_pts == 2:
        p2 = dict(pts[0])
        changed = [n for n in ins if rng.random() < 0.5] or [ins[int(rng.integers(len(ins)))]]
        p2.update(random_point(rng, spec, changed))
        pts.append(p2)

    def sub(names, lo=1):
        k = int(rng.integers(lo, len(names) + 1))
        return sorted(rng.choice(names, size=k, replace=False).tolist())

    pattern = str(rng.choice(["growing", "shrinking", "disjoint", "random", "single", "all"],
                             p=[0.25, 0.15, 0.2, 0.15, 0.15, 0.1]))
    n = int(rng.integers(2, 5))
    reqs = []
    # compositions with an overwritten variable: part of the histories restrict the requested inputs to those the
    # new value does not depend on (the overwriting discipline is then pruned by the graph traversal), or to those only
    targets = []
    for ev in overwrite_events(spec):
        excl = [i for i in ins if i not in ev["after"]]
        only = [i for i in ins if i in ev["after"]]
        # the sharpest shape first: the replaced value depends on an excluded input, the producer does not read the
        # name and a later discipline reads the new value (a stale derivative would then reach an output)
        sharp = ev["pure"] and ev["read_after"] and any(i in ev["before"] for i in excl)
        if excl:
            targets.append(("exclude", ev, excl, sharp))
        if only and excl:
            targets.append(("only", ev, only, sharp))
    if targets and rng.random() < p_targeted:
        wanted = "exclude" if rng.random() < 0.65 else "only"
        pick = [t for t in targets if t[0] == wanted] or targets
        pick = [t for t in pick if t[3]] or pick
        mode, ev, pool, sharp = pick[int(rng.integers(len(pick)))]
        first = sub(pool)
        prefer = [i for i in pool if i in ev["before"]]
        if mode == "exclude" and prefer and not set(first) & set(prefer):
            first = sorted(set(first) | {prefer[int(rng.integers(len(prefer)))]})
        t_outs = list(outs) if rng.random() < 0.7 else sub(outs)
        shape = str(rng.choice(["first", "after-all", "later"], p=[0.55, 0.1, 0.35]))
        pattern = f"overwrite-{mode}-{shape}" + ("-sharp" if sharp else "")
        if shape == "first":
            reqs = [{"ins": first, "outs": t_outs}]
            for _ in range(int(rng.integers(0, 3))):
                reqs.append({"all": True} if rng.random() < 0.3 else {"ins": sub(ins, 0), "outs": sub(outs, 0)})
        elif shape == "after-all":
            reqs = [{"all": True}, {"ins": first, "outs": t_outs}]
            if rng.random() < 0.5:
                reqs.append({"ins": sub(pool), "outs": sub(outs, 0)})
        else:
            reqs = [{"ins": [first[0]], "outs": sub(outs)}, {"ins": first, "outs": t_outs}]
            if rng.random() < 0.5:
                reqs.append({"ins": sub(pool), "outs": list(outs)})
    elif pattern == "single":
        reqs = [{"ins": sub(ins), "outs": sub(outs)}]
    elif pattern == "all":
        reqs = [{"all": True}]
    elif pattern == "growing":
        oi, oo = list(rng.permutation(ins)), list(rng.permutation(outs))
        ki = ko = 0
        for _ in range(n):
            ai = oi[ki:ki + int(rng.integers(0, 2)) + (1 if ki == 0 else 0)]
            ao = oo[ko:ko + int(rng.integers(0, 2)) + (1 if ko == 0 else 0)]
            ki += len(ai)
            ko += len(ao)
            reqs.append({"ins": sorted(map(str, ai)), "outs": sorted(map(str, ao))})
        reqs.append({"all": True}) if rng.random() < 0.3 else None
    elif pattern == "shrinking":
        reqs = [{"all": True}] + [{"ins": sub(ins), "outs": sub(outs)} for _ in range(n - 1)]
    elif pattern == "disjoint":
        oi, oo = list(rng.permutation(ins)), list(rng.permutation(outs))
        for k in range(min(n, len(oi), len(oo))):
            reqs.append({"ins": [str(oi[k])], "outs": [str(oo[k])]})
    else:
        for _ in range(n):
            reqs.append({"all": True} if rng.random() < 0.2 else {"ins": sub(ins, 0), "outs": sub(outs, 0)})
    out = []
    for k, r in enumerate(reqs):
        r = dict(r)
        r.setdefault("all", False)
        r.setdefault("ins", [])
        r.setdefault("outs", [])
        r["point"] = 0 if n_pts == 1 else int(rng.integers(n_pts)) if k else 0
        out.append(r)
    return {"points": pts, "requests": out, "pattern": pattern}


def interleaved_requests(rng, spec):
    """History visiting 2-3 unrelated points in interleaved orders: executions without linearization, then
    linearizations at a point that was left in between, the same request repeated at an already linearized point, and
    a grown request at a revisited point.  Steps are requests with ``"op": "execute"`` or (default) linearize."""
    ins, outs = process_io(spec["root"])
    n_pts = int(rng.integers(2, 4))
    pts = [random_point(rng, spec) for _ in range(n_pts)]

    def sub(names):
        k = int(rng.integers(1, len(names) + 1))
        return sorted(rng.choice(names, size=k, replace=False).tolist())

    def step(point, op="linearize", ins_=(), outs_=(), all_=False):
        return {"op": op, "all": bool(all_), "ins": list(ins_), "outs": list(outs_), "point": int(point)}

    first_all = rng.random() < 0.25
    r_in, r_out = sub(ins), sub(outs)
    steps = []
    shape = str(rng.choice(["exec-exec-lin", "lin-lin-lin", "lin-exec-lin"], p=[0.45, 0.3, 0.25]))
    order = list(rng.permutation(n_pts))
    if shape == "exec-exec-lin":
        steps += [step(p, "execute") for p in order]
        steps.append(step(order[0], ins_=r_in, outs_=r_out, all_=first_all))
    elif shape == "lin-lin-lin":
        steps.append(step(order[0], ins_=r_in, outs_=r_out, all_=first_all))
        steps += [step(p) if not first_all else step(p, all_=True) for p in order[1:]]
    else:
        steps.append(step(order[0], ins_=r_in, outs_=r_out, all_=first_all))
        steps += [step(p, "execute") for p in order[1:]]
    # come back: same request at the first point, at another one, then a grown request at a revisited point
    steps.append(step(order[0], all_=first_all and rng.random() < 0.5, ins_=() if first_all else (), outs_=()))
    steps.append(step(order[-1]))
    if rng.random() < 0.6:
        steps.append(step(order[0], ins_=sub(ins), outs_=sub(outs)))
    if rng.random() < 0.3:
        steps.append(step(order[int(rng.integers(n_pts))], all_=True))
    if first_all:
        # the differentiated sets must not be empty once 'all' is no longer asked
        for st in steps:
            if st["op"] == "linearize" and not st["all"] and not st["ins"]:
                st["ins"], st["outs"] = r_in, r_out
                break
    return {"points": pts, "requests": steps, "pattern": "interleaved-" + shape}


# =========================================================================== structure
def overwrite_events(spec):
    """Re-productions of a live name inside the chains of a composition (numbers-free).

    Each event is ``{"var", "after", "before"}``: the process inputs which the new value / the replaced value of
    ``var`` depend on *through the grammar names* (what gemseo's graph traversal sees: a discipline none of whose
    inputs depends on the requested inputs is pruned and gets an empty Jacobian).
    """
    events = []
    ins, _ = process_io(spec["root"])

    def fwd(node, env):
        t = node["t"]
        if t == "leaf":
            dep = frozenset()
            for i, _ in node["ins"]:
                dep |= env.get(i, frozenset([i]))
            return {o: dep for o, _ in node["outs"]}
        children = node["children"]
        if t in ("chain", "mdachain"):
            if t == "mdachain":
                children = [children[k] for k in topo_order(children)]
            local, produced = dict(env), {}
            ios = [process_io(ch) for ch in children]
            for k, ch in enumerate(children):
                outs = fwd(ch, local)
                for v, dep in outs.items():
                    if v in local and t == "chain":
                        events.append({"var": v, "after": dep, "before": local[v],
                                       # the producer does not read the name it replaces
                                       "pure": v not in ios[k][0],
                                       # a later discipline of the same chain reads the new value
                                       "read_after": any(v in ios[j][0] for j in range(k + 1, len(children)))})
                local.update(outs)
                produced.update(outs)
            return produced
        merged, per_child = {}, []
        for ch in children:
            outs = fwd(ch, env)
            per_child.append(outs)
            merged.update(outs)
        for name in node.get("sum", ()):
            dep = frozenset()
            for o in per_child:
                dep |= o.get(name, frozenset())
            merged[name] = dep
        return merged

    fwd(spec["root"], {n: frozenset([n]) for n in ins})
    return events


def walk(node):
    yield node
    for ch in node.get("children", ()):
        yield from walk(ch)


def leaves(node):
    return [n for n in walk(node) if n["t"] == "leaf"]


def depth(node):
    return 1 + max((depth(ch) for ch in node.get("children", ())), default=0) if node["t"] != "leaf" else 0


def chain_overwrites(node):
    """Overwritten variables of the MDOChain nodes, by kind.

    ``pure``: a child of a chain produces, without reading it, a name that is already live in that chain
    (produced by an earlier child, or an input of the chain read by an earlier or the same child) and a
    later child reads that name.  ``self``: a child reads and writes the same name.
    """
    pure, selfu, pure_unread, inout_child = [], [], [], []
    for n in walk(node):
        if n["t"] == "leaf":
            ins = {i for i, _ in n["ins"]}
            for o, _ in n["outs"]:
                if o in ins:
                    selfu.append((n["name"], o))
        if n["t"] != "chain":
            continue
        ios = [process_io(ch) for ch in n["children"]]
        chain_ins = process_io(n)[0]
        for j, (ci, co) in enumerate(ios):
            for v in co:
                if v in ci:
                    # the child (leaf or sub-process) reads and writes the name
                    inout_child.append((v, len(co)))
                    continue
                live_before = any(v in ios[i][1] for i in range(j)) or v in chain_ins
                read_after = any(v in ios[k][0] for k in range(j + 1, len(ios)))
                if live_before and read_after:
                    pure.append(v)
                elif live_before:
                    pure_unread.append(v)
    return {"pure": pure, "self": selfu, "pure_unread": pure_unread, "inout_child": inout_child}


def par_duplicates(node):
    dup = []
    for n in walk(node):
        if n["t"] in ("par", "add"):
            seen = set()
            for ch in n["children"]:
                for o in process_io(ch)[1]:
                    if o in seen and o not in n.get("sum", ()):
                        dup.append(o)
                    seen.add(o)
    return dup


def partial_sums(node):
    out = []
    for n in walk(node):
        if n["t"] == "add":
            for s in n["sum"]:
                if not all(s in process_io(ch)[1] for ch in n["children"]):
                    out.append(s)
    return out


def features(spec):
    root = spec["root"]
    kinds = sorted({n["t"] for n in walk(root)})
    fm = sorted({f for lf in leaves(root) for d in lf["fmt"].values() for f in d.values()})
    ow = chain_overwrites(root)
    ins, outs = process_io(root)
    return {
        "root": root["t"], "kinds": kinds, "depth": depth(root), "n_leaves": len(leaves(root)), "fmt": fm,
        "overwritten": bool(ow["pure"]), "overwritten_unread": bool(ow["pure_unread"]),
        "self_update": bool(ow["self"]), "inout_child": bool(ow["inout_child"]), "par_dup": bool(par_duplicates(root)),
        "partial_sum": bool(partial_sums(root)), "in_out": bool(set(ins) & set(outs)),
        "n_in": len(ins), "n_out": len(outs),
    }


def shape_signature(spec):
    """Topology of the tree without numbers: nested tuple of node kinds with I/O arities."""
    def rec(n):
        if n["t"] == "leaf":
            return ("L", len(n["ins"]), len(n["outs"]), n["phi"] != "lin",
                    tuple(sorted({f for d in n["fmt"].values() for f in d.values()})))
        return (n["t"], tuple(rec(c) for c in n["children"]))
    f = features(spec)
    return (rec(spec["root"]), f["overwritten"], f["self_update"], f["in_out"])


# =========================================================================== SSA twin
class _NoTwin(Exception):
    pass


def ssa_twin(spec, rename_self=False, drop_par_dup=False, keep_overwrites=False):
    """Static-single-assignment twin: every *pure overwrite* (a discipline producing, without reading it, a
    name that is already live where it runs) produces a fresh name instead, and the later readers follow.

    The function computed is unchanged up to the names of the outputs; the twin is judged on its own terms.
    Leaves that read and write the same name keep doing so unless ``rename_self``.  With ``drop_par_dup``, when
    several children of a parallel chain produce the same (non-summed) name, the losing (earlier) productions get
    dead fresh names, so that only the child with priority produces the name; ``keep_overwrites`` then leaves
    every other re-used name as it is.  Returns ``None`` when the
    renaming would change the meaning (same name produced by two children of a parallel/additive chain under
    different versions) or when the self-check (same inputs) fails.
    """
    sizes = dict(spec["sizes"])
    counter = [0]

    def fresh(base):
        counter[0] += 1
        name = f"{base}__{counter[0]}"
        sizes[name] = sizes[base]
        return name

    def ren_leaf(leaf, rin, rout):
        lf = copy.deepcopy(leaf)
        lf["ins"] = [[rin[i], s] for i, s in leaf["ins"]]
        lf["outs"] = [[rout[o], s] for o, s in leaf["outs"]]
        lf["A"] = {rout[o]: {rin[i]: m for i, m in d.items()} for o, d in leaf["A"].items()}
        lf["c"] = {rout[o]: v for o, v in leaf["c"].items()}
        lf["fmt"] = {rout[o]: {rin[i]: f for i, f in d.items()} for o, d in leaf["fmt"].items()}
        return lf

    def rec(node, cur, live, forced):
        """``cur``: original name -> version to read; ``live``: versions in use; ``forced``: original output
        name -> version that the *last* production of that name inside ``node`` must take (decided by an
        enclosing parallel/additive chain so that siblings agree).  Returns (node, out map)."""
        t = node["t"]
        if t == "leaf":
            ins = {i for i, _ in node["ins"]}
            rin = {i: cur.get(i, i) for i in ins}
            rout = {}
            for o, _ in node["outs"]:
                tgt = cur.get(o, o)
                if o in forced:
                    rout[o] = forced[o]
                elif o in ins and not rename_self:
                    rout[o] = tgt
                elif (tgt in live or o in ins) and not keep_overwrites:
                    rout[o] = fresh(o)
                else:
                    rout[o] = tgt
            live.update(rin.values())
            live.update(rout.values())
            return ren_leaf(node, rin, rout), rout
        new = {k: v for k, v in node.items() if k != "children"}
        node_ins, node_outs = process_io(node)
        for nm in node_ins:
            live.add(cur.get(nm, nm))
        children = node["children"]
        ios = [process_io(ch) for ch in children]
        if t in ("chain", "mdachain"):
            local, produced, done = dict(cur), {}, {}
            order = list(topo_order(children)) if t == "mdachain" else list(range(len(children)))
            last = {o: max(order.index(k) for k in range(len(children)) if o in ios[k][1]) for o in forced}
            for pos, k in enumerate(order):
                fk = {o: v for o, v in forced.items() if last[o] == pos}
                c2, outm = rec(children[k], local, live, fk)
                done[k] = c2
                local.update(outm)
                produced.update(outm)
            new["children"] = [done[k] for k in range(len(done))]
            return new, produced
        # parallel / additive chain: one version per re-produced name, shared by the children producing it
        forced = dict(forced)
        for o in node_outs:
            if o not in forced and (cur.get(o, o) in live or o in node_ins) and not keep_overwrites:
                forced[o] = fresh(o)
        merged = {}
        new["children"] = []
        entry, after = set(live), set(live)
        summed = set(node.get("sum", ()))
        last_producer = {o: max(k for k in range(len(children)) if o in ios[k][1]) for o in node_outs}
        for k, ch in enumerate(children):
            live_ch = set(entry)  # siblings do not see each other
            fk = {o: v for o, v in forced.items() if o in ios[k][1]}
            losing = set()
            if drop_par_dup:
                for o in ios[k][1]:
                    if o not in summed and last_producer[o] != k:
                        fk[o] = fresh(o)  # dead name: the later child has priority
                        losing.add(o)
            c2, outm = rec(ch, dict(cur), live_ch, fk)
            after |= live_ch
            for o, v in outm.items():
                if o in losing:
                    continue
                if merged.setdefault(o, v) != v:
                    raise _NoTwin(o)
            new["children"].append(c2)
        live |= after
        live.update(forced.values())
        if t == "add":
            new["sum"] = [merged.get(s, s) for s in node["sum"]]
        return new, merged

    try:
        root, out_map = rec(spec["root"], {}, set(), {})
    except _NoTwin:
        return None
    twin = {"root": root, "sizes": sizes, "renamed_outputs": {o: v for o, v in out_map.items() if o != v}}
    if process_io(root)[0] != process_io(spec["root"])[0]:
        return None
    return twin


# =========================================================================== gemseo side
_LEAF_CLASS = None
_SYM_LEAF_CLASS = None
EXPECTED_LEAF_INPUTS = {}
"""Set by the check before each linearization: leaf name -> the input values of that leaf in the executed
dataflow at the current point (from the reference trace).  Leaves record a linearization at any other point."""


def leaf_class():
    global _LEAF_CLASS
    if _LEAF_CLASS is not None:
        return _LEAF_CLASS
    from gemseo.core.derivatives.jacobian_operator import JacobianOperator
    from gemseo.core.discipline import Discipline
    from scipy.sparse import csr_array

    class Leaf(Discipline):
        """Harness discipline: exact partials, computes only the requested blocks, logs the requests."""

        def __init__(self, spec):
            super().__init__(name=spec["name"])
            self.spec = spec
            self.in_names = [n for n, _ in spec["ins"]]
            self.out_names = [n for n, _ in spec["outs"]]
            self.io.input_grammar.update_from_names(self.in_names)
            self.io.output_grammar.update_from_names(self.out_names)
            self.n_run = 0
            self.n_lin = 0
            self.requests = []
            self.wrong_point = []
            self._lock = threading.Lock()

        def _run(self, input_data):
            with self._lock:
                self.n_run += 1
            vals = {n: np.asarray(input_data[n]) for n in self.in_names}
            out, _ = leaf_apply(self.spec, vals)
            return out

        def _compute_jacobian(self, input_names=(), output_names=()):
            input_names = list(input_names) or self.in_names
            output_names = list(output_names) or self.out_names
            vals = {n: np.asarray(self.io.data[n]) for n in self.in_names}
            with self._lock:
                self.n_lin += 1
                self.requests.append((tuple(sorted(input_names)), tuple(sorted(output_names))))
                expected = EXPECTED_LEAF_INPUTS.get(self.name)
                if expected is not None and any(
                        np.shape(vals[n]) != np.shape(expected[n])
                        or not np.allclose(vals[n], expected[n], rtol=1e-12, atol=1e-14)
                        for n in self.in_names):
                    # (M1 recorder) the process linearizes this discipline at a point which is not the one
                    # the discipline is evaluated at in the executed dataflow
                    self.wrong_point.append({n: np.array(vals[n]) for n in self.in_names})
            _, partials = leaf_apply(self.spec, vals)
            sizes = dict(self.spec["ins"]) | dict(self.spec["outs"])
            self.jac = {}
            for o in output_names:
                row = self.jac[o] = {}
                for i in input_names:
                    m = partials[o].get(i)
                    if m is None:
                        symbolic = any(v.dtype == object for v in vals.values())
                        m = np.zeros((sizes[o], sizes[i]), dtype=object if symbolic else float)
                    fmt = self.spec["fmt"][o].get(i, "dense")
                    if m.dtype == object or fmt == "dense":
                        row[i] = np.array(m)
                    elif fmt == "csr":
                        row[i] = csr_array(m)
                    else:
                        op = JacobianOperator(dtype=m.dtype, shape=m.shape)
                        op._matvec = lambda x, mat=m: mat @ x
                        op._rmatvec = lambda x, mat=m: mat.T @ x
                        row[i] = op

    _LEAF_CLASS = Leaf
    return Leaf


def symbolic_leaf_class():
    """Leaf whose grammars only check names, so that object arrays of sympy expressions are accepted."""
    global _SYM_LEAF_CLASS
    if _SYM_LEAF_CLASS is None:
        from gemseo.core.discipline import Discipline

        class SymbolicLeaf(leaf_class()):
            default_grammar_type = Discipline.GrammarType.SIMPLER

        _SYM_LEAF_CLASS = SymbolicLeaf
    return _SYM_LEAF_CLASS


def build(node, symbolic=False):
    """Build the real gemseo process of a tree (fresh instances)."""
    t = node["t"]
    if t == "leaf":
        return (symbolic_leaf_class() if symbolic else leaf_class())(node)
    children = [build(ch, symbolic) for ch in node["children"]]
    if t == "chain":
        from gemseo.core.chains.chain import MDOChain

        return MDOChain(children)
    if t == "par":
        from gemseo.core.chains.parallel_chain import MDOParallelChain

        return MDOParallelChain(children, use_threading=True, n_processes=node.get("n_processes"))
    if t == "add":
        from gemseo.core.chains.additive_chain import MDOAdditiveChain

        return MDOAdditiveChain(children, node["sum"], use_threading=True, n_processes=node.get("n_processes"))
    if t == "mdachain":
        from gemseo.mda.mda_chain import MDAChain

        return MDAChain(children, chain_linearize=bool(node.get("chain_linearize", True)),
                        mdachain_parallelize_tasks=bool(node.get("parallelize", False)))
    raise ValueError(t)


def all_disciplines(process):
    out = [process]
    for d in getattr(process, "disciplines", ()):
        out += all_disciplines(d)
    mc = getattr(process, "mdo_chain", None)
    if mc is not None:
        out += all_disciplines(mc)
    return out
