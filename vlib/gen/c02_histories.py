"""Generator of design-space histories for C02 (edits interleaved with cache-filling queries).

A history is a JSON-able list of steps.  It is generated against a :class:`RefSpace` (so that
every step is a *valid* use of the API in the state it is applied to) and never touches gemseo.
``apply_to_ref`` is the single definition of what a step means for the reference model; the
check module holds the matching ``apply_to_real``.
"""

from __future__ import annotations

import numpy as np

from vlib.ref.c02_refspace import FLOAT
from vlib.ref.c02_refspace import INTEGER
from vlib.ref.c02_refspace import RefError
from vlib.ref.c02_refspace import RefSpace

NAME_POOL = ["x", "xy", "x_1", "alpha", "y", "yx", "z", "ab", "b", "x2", "beta_long_name", "n"]
MAX_DIM = 12
MAX_VARS = 6

EDIT_WEIGHTS = {
    "add_variable": 14, "remove_variable": 6, "rename_variable": 9, "filter": 3, "filter_dimensions": 8,
    "extend": 3, "add_variables_from": 3, "set_lower_bound": 9, "set_upper_bound": 9,
    "set_current_value_array": 7, "set_current_value_dict": 4, "set_current_variable": 7,
    "initialize_missing_current_values": 4, "toggle_int_norm": 5, "to_scalar_variables": 2, "deepcopy": 3,
    "to_complex": 1,
    # documented errors: the edit must raise and leave every view unchanged
    "err_add_existing": 1, "err_add_value_outside": 1, "err_rename_unknown": 1, "err_filter_dimensions": 1,
    "err_set_value_wrong_dimension": 1,
}
QUERY_WEIGHTS = {
    "q_bounds": 3, "q_current": 5, "q_indexes": 2, "q_normalize": 6, "q_unnormalize": 5, "q_roundtrip": 3,
    "q_grad": 4, "q_round": 1, "q_convert": 2, "q_member": 6, "q_project": 3, "q_eq": 1,
}
EDITS = frozenset(EDIT_WEIGHTS)


# --------------------------------------------------------------------------- array encoding
def enc(a):
    a = np.asarray(a)
    if np.iscomplexobj(a):
        return {"re": a.real.tolist(), "im": a.imag.tolist()}
    if a.dtype.kind in "iu":
        return {"int": a.tolist()}
    return a.astype(float).tolist()


def _floats(v):
    if isinstance(v, (list, tuple)):
        return [_floats(e) for e in v]
    return float(v)


def dec(v):
    """Inverse of :func:`enc`; tolerant to the 'inf' strings produced by the evidence writer."""
    if v is None:
        return None
    if isinstance(v, dict):
        if "int" in v:
            return np.array(v["int"], dtype=np.int64)
        return np.array(_floats(v["re"])) + 1j * np.array(_floats(v["im"]))
    return np.array(_floats(v), dtype=float)


# --------------------------------------------------------------------------- random material
def _choice(rng, weights: dict):
    keys = list(weights)
    w = np.array([weights[k] for k in keys], dtype=float)
    return keys[int(rng.choice(len(keys), p=w / w.sum()))]


def gen_bounds(rng, type_, size):
    same = rng.random() < 0.4
    lbs, ubs = [], []
    for j in range(size):
        if same and j:
            lbs.append(lbs[0])
            ubs.append(ubs[0])
            continue
        kind = _choice(rng, {"both": 60, "lower": 10, "upper": 10, "none": 10, "eq": 10})
        if type_ == INTEGER:
            lo = float(rng.integers(-6, 7))
            span = float(rng.integers(1, 8))
        else:
            lo = float(np.round(rng.uniform(-10, 10), 2))
            span = float(rng.choice([0.001, 0.5, 1.0, 2.0, 3.0, 10.0, 1000.0]))
        if kind == "both":
            lbs.append(lo), ubs.append(lo + span)
        elif kind == "eq":
            lbs.append(lo), ubs.append(lo)
        elif kind == "lower":
            lbs.append(lo), ubs.append(np.inf)
        elif kind == "upper":
            lbs.append(-np.inf), ubs.append(lo)
        else:
            lbs.append(-np.inf), ubs.append(np.inf)
    return np.array(lbs), np.array(ubs)


def gen_inside(rng, lb, ub, is_int):
    """A point inside [lb, ub] component-wise; integer-valued where ``is_int``."""
    lb, ub = np.asarray(lb, float), np.asarray(ub, float)
    is_int = np.broadcast_to(is_int, lb.shape)
    out = np.empty(lb.size)
    for j in range(lb.size):
        l_, u_, integer = lb[j], ub[j], bool(is_int[j])
        if np.isfinite(l_) and np.isfinite(u_):
            r = rng.random()
            if integer:
                v = float(rng.integers(int(l_), int(u_) + 1))
            elif r < 0.15:
                v = l_
            elif r < 0.3:
                v = u_
            else:
                v = min(max(l_ + float(np.round(rng.random(), 3)) * (u_ - l_), l_), u_)
        elif np.isfinite(l_):
            v = l_ + (float(rng.integers(0, 6)) if integer else float(np.round(abs(rng.normal()) * 3, 3)))
        elif np.isfinite(u_):
            v = u_ - (float(rng.integers(0, 6)) if integer else float(np.round(abs(rng.normal()) * 3, 3)))
        else:
            v = float(rng.integers(-9, 10)) if integer else float(np.round(rng.normal() * 5, 3))
        out[j] = v
    return out


def gen_var(rng, name):
    type_ = INTEGER if rng.random() < 0.3 else FLOAT
    size = int(rng.choice([1, 1, 2, 2, 3, 4]))
    lb, ub = gen_bounds(rng, type_, size)
    value = gen_inside(rng, lb, ub, type_ == INTEGER) if rng.random() < 0.65 else None
    step = {"name": name, "size": size, "type": type_, "lb": enc(lb), "ub": enc(ub),
            "value": None if value is None else enc(value),
            "scalar_lb": bool(np.all(lb == lb[0]) and rng.random() < 0.5),
            "scalar_ub": bool(np.all(ub == ub[0]) and rng.random() < 0.5),
            "scalar_value": bool(value is not None and np.all(value == value[0]) and rng.random() < 0.3)}
    return step


def _pick_free(rng, ref, k=1):
    free = [n for n in NAME_POOL if not ref.has(n)]
    idx = rng.permutation(len(free))[:k]
    return [free[int(i)] for i in idx]


def _value_for(rng, var, complex_=False):
    v = gen_inside(rng, var.lb, var.ub, var.type == INTEGER)
    if var.type == INTEGER:
        return v.astype(np.int64)
    if complex_:
        return v + 1j * np.round(rng.normal(size=v.size) * 1e-3, 6)
    return v


def _full_point(rng, ref, complex_=False):
    parts = [np.asarray(_value_for(rng, v, complex_), dtype=complex if complex_ else float) for v in ref.vars]
    return np.concatenate(parts)


# --------------------------------------------------------------------------- edits
def gen_edit(rng, ref: RefSpace):
    """Return one edit step that is valid in the state ``ref`` (``ref`` is not modified)."""
    for _ in range(50):
        kind = _choice(rng, EDIT_WEIGHTS)
        step = _gen_edit(rng, ref, kind)
        if step is not None:
            return step
    name = _pick_free(rng, ref)[0]
    return dict(gen_var(rng, name), op="add_variable")


def _other_space(rng, ref, k):
    names = _pick_free(rng, ref, k)
    return [gen_var(rng, n) for n in names]


def _gen_edit(rng, ref, kind):
    nvars, dim = len(ref.vars), ref.dimension
    free = [n for n in NAME_POOL if not ref.has(n)]
    if nvars == 0 and kind not in ("add_variable", "extend"):
        return None
    anyvar = ref.vars[int(rng.integers(nvars))] if nvars else None
    if kind == "add_variable":
        if nvars >= MAX_VARS or dim >= MAX_DIM or not free:
            return None
        return dict(gen_var(rng, _pick_free(rng, ref)[0]), op=kind)
    if kind == "remove_variable":
        return {"op": kind, "name": anyvar.name}
    if kind == "rename_variable":
        if not free:
            return None
        return {"op": kind, "old": anyvar.name, "new": _pick_free(rng, ref)[0]}
    if kind == "filter":
        k = int(rng.integers(1, nvars + 1))
        keep = [ref.vars[int(i)].name for i in rng.permutation(nvars)[:k]]
        as_str = k == 1 and rng.random() < 0.5
        return {"op": kind, "keep": keep[0] if as_str else keep, "copy": bool(rng.random() < 0.4)}
    if kind == "filter_dimensions":
        cands = [v for v in ref.vars if v.size > 1]
        if not cands:
            return None
        var = cands[int(rng.integers(len(cands)))]
        k = int(rng.integers(1, var.size))
        dims = sorted(int(i) for i in rng.permutation(var.size)[:k])
        return {"op": kind, "name": var.name, "dims": dims}
    if kind in ("extend", "add_variables_from"):
        if nvars + 1 > MAX_VARS or dim + 3 > MAX_DIM or len(free) < 2:
            return None
        other = _other_space(rng, ref, int(rng.integers(1, 3)))
        other = [o for o in other if o["size"] <= 3][: MAX_VARS - nvars]
        if not other:
            return None
        step = {"op": kind, "other": other}
        if kind == "add_variables_from":
            k = int(rng.integers(1, len(other) + 1))
            step["names"] = [other[int(i)]["name"] for i in rng.permutation(len(other))[:k]]
        return step
    if kind in ("set_lower_bound", "set_upper_bound"):
        var = anyvar
        lower = kind == "set_lower_bound"
        new = np.empty(var.size)
        same_kind = rng.random()
        for j in range(var.size):
            other_b = var.ub[j] if lower else var.lb[j]
            val = None if var.value is None else float(np.real(var.value[j]))
            # the admissible side: new lb <= min(ub, value) ; new ub >= max(lb, value)
            limit = other_b if val is None else (min(other_b, val) if lower else max(other_b, val))
            r = rng.random() if same_kind > 0.3 else same_kind
            if r < 0.15:
                new[j] = -np.inf if lower else np.inf
            elif r < 0.27 and np.isfinite(limit):
                new[j] = limit
            else:
                base = limit if np.isfinite(limit) else float(rng.integers(-5, 6))
                delta = float(rng.integers(1, 6)) if var.type == INTEGER else float(rng.choice([0.001, 0.25, 1.0, 4.0, 500.0]))
                new[j] = base - delta if lower else base + delta
                if var.type == INTEGER:
                    new[j] = np.floor(new[j]) if lower else np.ceil(new[j])
        return {"op": kind, "name": var.name, "bound": enc(new),
                "scalar": bool(np.all(new == new[0]) and rng.random() < 0.5)}
    if kind == "set_current_value_array":
        cplx = rng.random() < 0.08
        x = _full_point(rng, ref, cplx)
        if not cplx and all(v.type == INTEGER for v in ref.vars) and rng.random() < 0.5:
            x = x.astype(np.int64)
        return {"op": kind, "x": enc(x)}
    if kind == "set_current_value_dict":
        cplx = rng.random() < 0.08
        order = [ref.vars[int(i)].name for i in rng.permutation(nvars)]
        values = {n: enc(_value_for(rng, ref.get(n), cplx)) for n in order}
        if rng.random() < 0.2:
            values["not_a_variable"] = [1.0]
        return {"op": kind, "values": values, "order": order + [k for k in values if k not in order]}
    if kind == "set_current_variable":
        return {"op": kind, "name": anyvar.name, "value": enc(_value_for(rng, anyvar, rng.random() < 0.06))}
    if kind == "initialize_missing_current_values":
        return {"op": kind}
    if kind == "toggle_int_norm":
        return {"op": kind, "flag": bool(not ref.int_norm if rng.random() < 0.85 else ref.int_norm)}
    if kind == "to_scalar_variables":
        if any(v.value is not None and np.iscomplexobj(v.value) for v in ref.vars):
            return None
        return {"op": kind}
    if kind == "deepcopy":
        return {"op": kind}
    if kind == "to_complex":
        if not any(v.value is not None for v in ref.vars):
            return None
        return {"op": kind}
    # ----- documented errors
    if kind == "err_add_existing":
        return dict(gen_var(rng, anyvar.name), op=kind)
    if kind == "err_add_value_outside":
        if not free or nvars >= MAX_VARS:
            return None
        step = gen_var(rng, _pick_free(rng, ref)[0])
        lb, ub = dec(step["lb"]), dec(step["ub"])
        fin = [j for j in range(step["size"]) if np.isfinite(ub[j]) or np.isfinite(lb[j])]
        if not fin:
            return None
        value = gen_inside(rng, lb, ub, step["type"] == INTEGER)
        j = fin[int(rng.integers(len(fin)))]
        value[j] = ub[j] + 1.0 if np.isfinite(ub[j]) else lb[j] - 1.0
        return dict(step, op=kind, value=enc(value), scalar_value=False)
    if kind == "err_rename_unknown":
        if len(free) < 2:
            return None
        a, b = _pick_free(rng, ref, 2)
        return {"op": kind, "old": a, "new": b}
    if kind == "err_filter_dimensions":
        var = anyvar
        return {"op": kind, "name": var.name, "dims": [0, var.size + int(rng.integers(0, 2))]}
    if kind == "err_set_value_wrong_dimension":
        return {"op": kind, "x": enc(np.zeros(dim + int(rng.choice([1, 2]))))}
    raise AssertionError(kind)


def _build_other(vars_):
    other = RefSpace()
    for o in vars_:
        other.add_variable(o["name"], o["size"], o["type"], dec(o["lb"]), dec(o["ub"]), dec(o["value"]))
    return other


def apply_to_ref(ref: RefSpace, step) -> RefSpace:
    """Apply an edit step to the reference model; returns the (possibly new) model; raises RefError."""
    op = step["op"]
    if op in ("add_variable", "err_add_existing", "err_add_value_outside"):
        ref.add_variable(step["name"], step["size"], step["type"], dec(step["lb"]), dec(step["ub"]), dec(step["value"]))
    elif op == "remove_variable":
        ref.remove_variable(step["name"])
    elif op in ("rename_variable", "err_rename_unknown"):
        ref.rename_variable(step["old"], step["new"])
    elif op == "filter":
        ref.filter(step["keep"])
    elif op in ("filter_dimensions", "err_filter_dimensions"):
        ref.filter_dimensions(step["name"], step["dims"])
    elif op == "extend":
        ref.extend(_build_other(step["other"]))
    elif op == "add_variables_from":
        ref.add_variables_from(_build_other(step["other"]), step["names"])
    elif op == "set_lower_bound":
        ref.set_lower_bound(step["name"], dec(step["bound"]))
    elif op == "set_upper_bound":
        ref.set_upper_bound(step["name"], dec(step["bound"]))
    elif op in ("set_current_value_array", "err_set_value_wrong_dimension"):
        ref.set_current_value_array(dec(step["x"]))
    elif op == "set_current_value_dict":
        ref.set_current_value_dict({k: dec(v) for k, v in step["values"].items()})
    elif op == "set_current_variable":
        ref.set_current_variable(step["name"], dec(step["value"]))
    elif op == "initialize_missing_current_values":
        ref.initialize_missing_current_values()
    elif op == "toggle_int_norm":
        ref.set_int_norm(step["flag"])
    elif op == "to_scalar_variables":
        return ref.to_scalar_variables()
    elif op == "deepcopy":
        return ref.copy()
    elif op == "to_complex":
        ref.to_complex()
    else:
        raise AssertionError(op)
    return ref


# --------------------------------------------------------------------------- queries
def gen_point(rng, ref, mode="inside"):
    """A full design vector: inside the bounds, on a bound, or outside for one bounded component."""
    lb, ub, im = ref.lb_array(), ref.ub_array(), ref.int_mask()
    x = gen_inside(rng, lb, ub, im)
    if mode == "outside":
        fin = [j for j in range(x.size) if np.isfinite(lb[j]) or np.isfinite(ub[j])]
        if not fin:
            return x, False
        j = fin[int(rng.integers(len(fin)))]
        up = np.isfinite(ub[j]) and (not np.isfinite(lb[j]) or rng.random() < 0.5)
        b = ub[j] if up else lb[j]
        delta = 1.0 if im[j] else float(rng.choice([1e-6, 1e-3, 0.5, 7.0])) * (1.0 + abs(b))
        x[j] = b + delta if up else b - delta
        return x, True
    return x, False


def gen_free_vector(rng, ref, shape_kind):
    """Arbitrary real vectors (no bound constraint) of shape (dim,) or (k, dim)."""
    dim = ref.dimension
    k = {"1d": None, "2d": int(rng.integers(1, 4))}[shape_kind]
    shape = (dim,) if k is None else (k, dim)
    scale = float(rng.choice([1.0, 10.0, 1000.0]))
    return np.round(rng.normal(size=shape) * scale, 4)


def gen_unit_vector(rng, ref, shape_kind):
    dim = ref.dimension
    k = {"1d": None, "2d": int(rng.integers(1, 4))}[shape_kind]
    shape = (dim,) if k is None else (k, dim)
    u = np.round(rng.random(size=shape), 4)
    r = rng.random(size=shape)
    u = np.where(r < 0.1, 0.0, np.where(r > 0.9, 1.0, u))
    return u


def gen_query(rng, ref: RefSpace):
    kind = _choice(rng, QUERY_WEIGHTS)
    names = ref.names()
    nvars = len(names)
    shape_kind = "2d" if rng.random() < 0.3 else "1d"
    if kind in ("q_bounds", "q_indexes"):
        k = int(rng.integers(1, nvars + 1))
        sub = [names[int(i)] for i in rng.permutation(nvars)[:k]]
        return {"q": kind, "names": sub, "order": bool(rng.random() < 0.5)}
    if kind == "q_current":
        k = int(rng.integers(1, nvars + 1))
        sub = [names[int(i)] for i in rng.permutation(nvars)[:k]]
        return {"q": kind, "names": sub}
    if kind == "q_normalize":
        x = gen_free_vector(rng, ref, shape_kind)
        r = rng.random()
        if r < 0.12:
            x = np.round(x).astype(np.int64)
        elif r < 0.24:
            x = x + 1j * np.round(rng.normal(size=x.shape), 3)
        return {"q": kind, "x": enc(x), "minus_lb": bool(rng.random() < 0.8),
                "api": "transform_vect" if rng.random() < 0.25 else "normalize_vect",
                "out": bool(rng.random() < 0.2 and not np.iscomplexobj(x))}
    if kind == "q_unnormalize":
        u = gen_unit_vector(rng, ref, shape_kind)
        if rng.random() < 0.1:
            u = u + 1j * np.round(rng.normal(size=u.shape) * 1e-2, 4)
        return {"q": kind, "u": enc(u), "minus_lb": bool(rng.random() < 0.8),
                "api": "untransform_vect" if rng.random() < 0.25 else "unnormalize_vect"}
    if kind == "q_roundtrip":
        pts = [gen_point(rng, ref)[0] for _ in range(1 if shape_kind == "1d" else 2)]
        return {"q": kind, "u": enc(gen_unit_vector(rng, ref, shape_kind)),
                "x": enc(pts[0] if shape_kind == "1d" else np.array(pts))}
    if kind == "q_grad":
        form = _choice(rng, {"1d": 4, "2d": 3, "csr": 2})
        if form == "1d":
            g = gen_free_vector(rng, ref, "1d")
        else:
            g = gen_free_vector(rng, ref, "2d")
            if form == "csr":
                g = np.where(rng.random(size=g.shape) < 0.5, 0.0, g)
        if rng.random() < 0.1 and form != "csr":
            g = g + 1j * np.round(rng.normal(size=g.shape), 3)
        return {"q": kind, "g": enc(g), "form": form}
    if kind == "q_round":
        return {"q": kind, "x": enc(gen_free_vector(rng, ref, shape_kind))}
    if kind == "q_convert":
        return {"q": kind, "x": enc(gen_free_vector(rng, ref, shape_kind))}
    if kind == "q_member":
        mode = "outside" if rng.random() < 0.45 else "inside"
        x, is_out = gen_point(rng, ref, mode)
        path = _choice(rng, {"array": 6, "dict": 2, "array+names": 2})
        step = {"q": kind, "x": enc(x), "path": path, "outside": bool(is_out)}
        if path == "array+names":
            step["names"] = [names[int(i)] for i in rng.permutation(nvars)]
        return step
    if kind == "q_project":
        x = gen_free_vector(rng, ref, "1d")
        return {"q": kind, "x": enc(x), "normalized": bool(rng.random() < 0.25)}
    if kind == "q_eq":
        return {"q": kind}
    raise AssertionError(kind)


# --------------------------------------------------------------------------- whole histories
def gen_history(rng, n_edits):
    """Generate a history with ``n_edits`` edits; returns the case dict."""
    ref = RefSpace()
    steps = []
    n_start = int(rng.integers(1, 4))
    edits = 0
    while edits < n_edits:
        if edits < n_start:
            free = _pick_free(rng, ref)
            step = dict(gen_var(rng, free[0]), op="add_variable")
        else:
            step = gen_edit(rng, ref)
        steps.append(step)
        edits += 1
        try:
            ref = apply_to_ref(ref, step)
        except RefError:  # the err_* steps: state unchanged
            pass
        if ref.dimension and rng.random() < 0.5:
            for _ in range(int(rng.integers(1, 4))):
                steps.append(gen_query(rng, ref))
    if ref.dimension:
        for _ in range(2):
            steps.append(gen_query(rng, ref))
    return {"kind": "history", "steps": steps}
