"""C20 — child interpreter: restore a pickled object in a fresh process, exercise it, send plain results back.

Usage: ``python -m vlib.gen.c20_child in.pkl out.pkl``.  ``in.pkl`` holds ``{"kind", "obj", "payload"}`` where
``obj`` is the object under test (pickled by the parent with the protocol under test) and ``payload`` the plain
inputs of ``checks.c20_serialization.exercise_plain``.  The same function is run by the parent on the original.
"""

from __future__ import annotations

import logging
import pickle
import sys
import warnings


def main(argv):
    warnings.filterwarnings("ignore")
    logging.disable(logging.CRITICAL)
    from vlib import bootstrap

    bootstrap.ensure()
    from vlib.gen import c20_objects  # noqa: F401  (classes of the harness must be importable)
    import checks.c20_serialization as chk

    try:
        with open(argv[0], "rb") as f:
            job = pickle.load(f)
        out = {"status": "restored", "result": chk.exercise_plain(job["kind"], job["obj"], job["payload"])}
    except BaseException as e:  # reported to the parent, which decides
        import traceback

        out = {"status": "raise", "error": f"{type(e).__name__}: {e}"[:400], "traceback": traceback.format_exc()[-1500:]}
    with open(argv[1], "wb") as f:
        pickle.dump(out, f)
    return 0


if __name__ == "__main__":
    sys.exit(main(sys.argv[1:]))
