"""Seeded generators of C19 cases (law descriptions, parameter-space descriptions).

A *law description* is ``{"family", "params", "via", "transform", "trunc"}`` where ``params`` uses
the gemseo argument names of the family.  Everything is JSON-serialisable; no gemseo import here.
"""

from __future__ import annotations

import numpy as np

from vlib.ref import c19_laws as laws

PLAIN_FAMILIES = ["uniform", "normal", "lognormal_log", "lognormal_mom", "triangular", "exponential",
                  "weibull_min", "weibull_max", "beta", "gamma", "gumbel", "logistic", "laplace", "rayleigh"]
GENERIC_ONLY = {"gamma", "gumbel", "logistic", "laplace", "rayleigh"}
GENERIC_TWINS = ["normal", "uniform", "exponential"]          # concrete families also reachable through SPDistribution/OTDistribution
OT_MODES = ["trunc2", "trunc_lo", "trunc_hi", "affine", "affine+trunc", "exp"]


def _lu(rng, lo, hi):
    return float(np.exp(rng.uniform(np.log(lo), np.log(hi))))


def base_family(kind):
    return {"lognormal_log": "lognormal", "lognormal_mom": "lognormal", "weibull_min": "weibull",
            "weibull_max": "weibull"}.get(kind, kind)


def gen_params(rng, kind, regular=False):
    """Random admissible parameters; ``regular`` keeps shapes >= 1.5 and |loc| moderate (well-conditioned)."""
    if regular:
        sc = _lu(rng, 0.2, 5.0)
        loc = float(np.round(rng.uniform(-3, 3), 3)) if rng.random() < 0.7 else 0.0
        shape = float(np.round(rng.uniform(1.5, 5.0), 3))
        shape2 = float(np.round(rng.uniform(1.5, 5.0), 3))
    else:
        sc = _lu(rng, 1e-3, 1e3)
        r = rng.random()
        loc = 0.0 if r < 0.25 else float(np.round(rng.uniform(-50, 50), 3)) if r < 0.9 else float(np.round(rng.uniform(-1e4, 1e4), 1))
        shape = _lu(rng, 0.3, 20.0)
        shape2 = _lu(rng, 0.3, 20.0)
    if kind == "uniform":
        return {"minimum": loc, "maximum": loc + sc}
    if kind == "normal":
        return {"mu": loc, "sigma": sc}
    if kind == "lognormal_log":
        return {"mu": float(np.round(rng.uniform(-2, 3), 3)), "sigma": _lu(rng, 0.05, 1.0 if regular else 1.5),
                "location": loc, "set_log": True}
    if kind == "lognormal_mom":
        m = _lu(rng, 0.1, 50.0)
        return {"mu": loc + m, "sigma": m * _lu(rng, 0.05, 1.0 if regular else 2.0), "location": loc, "set_log": False}
    if kind == "triangular":
        r = rng.random()
        frac = 0.0 if (r < 0.05 and not regular) else 1.0 if (r < 0.1 and not regular) else float(np.round(rng.uniform(0.02, 0.98), 3))
        return {"minimum": loc, "mode": loc + sc * frac if frac < 1.0 else loc + sc, "maximum": loc + sc}
    if kind == "exponential":
        return {"rate": _lu(rng, 0.2, 5.0) if regular else _lu(rng, 1e-3, 1e3), "loc": loc}
    if kind in ("weibull_min", "weibull_max"):
        return {"location": loc, "scale": sc, "shape": shape if regular else _lu(rng, 0.5, 10.0),
                "use_weibull_min": kind == "weibull_min"}
    if kind == "beta":
        return {"alpha": shape, "beta": shape2, "minimum": loc, "maximum": loc + sc}
    if kind == "gamma":
        return {"k": shape, "rate": _lu(rng, 0.2, 5.0) if regular else _lu(rng, 1e-3, 1e3), "loc": loc}
    if kind == "gumbel":
        return {"scale": sc, "loc": loc}
    if kind == "logistic":
        return {"mu": loc, "scale": sc}
    if kind == "laplace":
        return {"mu": loc, "scale": sc}
    if kind == "rayleigh":
        return {"scale": sc, "loc": loc}
    if kind == "dirac":
        return {"variable_value": loc}
    raise ValueError(kind)


# --------------------------------------------------------------------------- boundary-value stratum
# Special values that implementation shortcuts (truthiness tests, `x or default`, int/float dispatch, sign handling)
# tend to mishandle: exact zeros of both signs, exact one, integer-valued floats and Python ints.
SPECIAL_LOCATIONS = [0.0, -0.0, 0, 1.0, 1, -1.0, -1, 2, -3.0, 10.0]
SPECIAL_SCALES = [1.0, 1, 2.0, 2, 0.5]
SPECIAL_SHAPES = [1.0, 1, 2.0, 2, 3]
SPECIAL_BOUNDS = [0.0, -0.0, 0, 0.0, 1.0, 1, -1.0]
P_BOUNDARY = 0.35

LOC_KEYS = {"uniform": ["minimum", "maximum"], "normal": ["mu"], "lognormal": ["location"],
            "triangular": ["minimum", "mode", "maximum"], "exponential": ["loc"], "weibull": ["location"],
            "beta": ["minimum", "maximum"], "gamma": ["loc"], "gumbel": ["loc"], "logistic": ["mu"], "laplace": ["mu"],
            "rayleigh": ["loc"], "dirac": ["variable_value"]}
SCALE_KEYS = {"normal": "sigma", "exponential": "rate", "weibull": "scale", "gamma": "rate", "gumbel": "scale",
              "logistic": "scale", "laplace": "scale", "rayleigh": "scale"}
SHAPE_KEYS = {"beta": ["alpha", "beta"], "gamma": ["k"], "weibull": ["shape"]}


def _pick(rng, values):
    return values[int(rng.integers(len(values)))]


def loc_keys(fam, params):
    keys = list(LOC_KEYS[fam])
    if fam == "lognormal" and not params.get("set_log", False):
        keys.append("mu")  # the mean of the variable moves with its location
    return keys


def shift_location(fam, params, delta):
    """Translate the law by ``delta`` (every location-like argument moves together)."""
    for k in loc_keys(fam, params):
        params[k] = float(params[k]) + float(delta)


def boundarize(rng, fam, params, regular=False):
    """Move parameters onto special values (in place); returns the list of tags of what was done."""
    tags = []
    keys = loc_keys(fam, params)
    if rng.random() < 0.8:
        s = _pick(rng, SPECIAL_LOCATIONS)
        first = keys[0]
        old = {k: params[k] for k in keys}
        for k in keys[1:]:
            off = float(old[k]) - float(old[first])
            if isinstance(s, int) and rng.random() < 0.7:
                off = max(1, int(round(off))) if off > 0 else 0   # keep Python ints all the way (width >= 1)
            params[k] = s + off
        params[first] = s
        if fam == "triangular":
            # keep minimum <= mode <= maximum after the integer rounding of the offsets
            params["maximum"] = max(params["maximum"], params["mode"])
            if params["maximum"] == params["minimum"]:
                params["maximum"] = params["minimum"] + 1
        tags.append("location")
        if isinstance(s, int):
            tags.append("int")
        if s == 0:
            tags.append("zero")
    if fam in ("uniform", "beta", "triangular") and rng.random() < 0.5:
        lo, w = params["minimum"], _pick(rng, [1.0, 1, 2, 2.0])
        if fam == "triangular":
            frac = _pick(rng, [0.0, 0.5, 1.0])
            params["mode"] = lo + w * frac if frac not in (0.0, 1.0) else (lo if frac == 0.0 else lo + w)
        params["maximum"] = lo + w
        tags.append("width")
    if fam in SCALE_KEYS and rng.random() < 0.5:
        params[SCALE_KEYS[fam]] = _pick(rng, SPECIAL_SCALES)
        tags.append("scale")
    if fam in SHAPE_KEYS and rng.random() < 0.5:
        for k in SHAPE_KEYS[fam]:
            v = _pick(rng, SPECIAL_SHAPES)
            params[k] = max(v, 2) if regular else v
        tags.append("shape")
    if fam == "lognormal" and rng.random() < 0.5:
        if params.get("set_log", False):
            params["mu"], params["sigma"] = _pick(rng, [0.0, 0, 1.0, 1, -0.0]), _pick(rng, [1.0, 1, 0.5])
        else:
            params["mu"], params["sigma"] = params["location"] + _pick(rng, [1, 2, 1.0, 3.0]), _pick(rng, [1.0, 1, 0.5, 2])
        tags.append("lognormal-moments")
    for v in params.values():
        if isinstance(v, int) and not isinstance(v, bool) and "int" not in tags:
            tags.append("int")
    return tags



def _boundary_truncation(rng, desc, mode):
    """Put ONE truncation bound on a special value (exact 0.0 / -0.0 / 0 / 1.0 / 1 / -1.0, or the law's own mean /
    median / mode), translating the law so that the value is interior; the other bound (if any) stays ordinary."""
    fam = desc["family"]
    tr = desc.get("transform")
    desc["trunc"] = None
    law0 = laws.build(desc)
    r = rng.random()
    if r < 0.75 and not (tr and tr[0] == "exp"):
        v = _pick(rng, SPECIAL_BOUNDS)
        q = float(law0.ppf(float(rng.uniform(0.15, 0.85))))
        delta = float(v) - q
        shift_location(fam, desc["params"], delta / float(tr[1]) if tr else delta)
        desc["boundary"] = [t for t in desc["boundary"] if t not in ("location", "int", "zero", "width")]
        tag = "trunc-zero" if v == 0 else "trunc-special"
    elif r < 0.9 and fam == "triangular" and not (tr and tr[0] == "exp"):
        m = desc["params"]["mode"]
        v = float(tr[1]) * float(m) + float(tr[2]) if tr else m
        tag = "trunc-mode"
    else:
        v = law0.mean() if (law0.mean() is not None and rng.random() < 0.6) else float(law0.ppf(0.5))
        v = float(v)
        tag = "trunc-mean-or-median"
    law0 = laws.build(desc)
    pv = float(law0.cdf(float(v)))
    if not 0.05 < pv < 0.95:
        # not interior enough (e.g. triangular mode on an end point): fall back to ordinary bounds
        lo, hi = (float(x) for x in law0.ppf(np.array([0.2, 0.8])))
        desc["trunc"] = [lo if mode != "trunc_hi" else None, hi if mode != "trunc_lo" else None]
        return
    if mode == "trunc_lo":
        desc["trunc"] = [v, None]
    elif mode == "trunc_hi":
        desc["trunc"] = [None, v]
    elif rng.random() < 0.5:
        desc["trunc"] = [v, float(law0.ppf(pv + (1 - pv) * float(rng.uniform(0.4, 0.95))))]
    else:
        desc["trunc"] = [float(law0.ppf(pv * float(rng.uniform(0.05, 0.6)))), v]
    desc["boundary"].append(tag)
    if isinstance(v, int):
        desc["boundary"].append("int")


def gen_law_case(rng, kind, mode="plain", boundary=None):
    """mode: plain | generic | one of OT_MODES (OpenTURNS only)."""
    fam = base_family(kind)
    regular = mode in OT_MODES
    desc = {"kind": "law", "family": fam, "params": gen_params(rng, kind, regular), "via": "class",
            "transform": None, "trunc": None, "mode": mode, "libs": ["SP", "OT"], "boundary": []}
    boundary = bool(rng.random() < P_BOUNDARY) if boundary is None else boundary
    if boundary and mode != "exp":
        desc["boundary"] = boundarize(rng, fam, desc["params"], regular)
    if fam in GENERIC_ONLY or mode == "generic":
        desc["via"] = "generic"
    if fam == "dirac":
        desc["libs"] = ["OT"]
    if mode in OT_MODES:
        desc["libs"] = ["OT"]
        if mode == "exp":
            if fam == "normal":
                desc["params"] = {"mu": float(np.round(rng.uniform(-2, 2), 3)), "sigma": float(np.round(rng.uniform(0.1, 1.0), 3))}
            else:
                desc["family"] = "uniform"
                a = float(np.round(rng.uniform(-2, 0), 3))
                desc["params"] = {"minimum": a, "maximum": a + float(np.round(rng.uniform(0.1, 2.5), 3))}
            desc["transform"] = ["exp"]
        if mode.startswith("affine"):
            a = float(np.round(rng.choice([-1.0, 1.0]) * np.exp(rng.uniform(-1.5, 1.5)), 3))
            b = float(np.round(rng.uniform(-5, 5), 2))
            if boundary:
                if rng.random() < 0.6:
                    a = _pick(rng, [1.0, 1, -1.0, -1, 2.0, 2])
                    desc["boundary"].append("slope")
                if rng.random() < 0.6:
                    b = _pick(rng, [0.0, 0, -0.0, 1.0, 1, -1])
                    desc["boundary"].append("offset")
            desc["transform"] = ["affine", a, b]
        if mode in ("trunc2", "trunc_lo", "trunc_hi", "affine+trunc"):
            pl, ph = sorted(rng.uniform(0.02, 0.98, 2).tolist())
            if ph - pl < 0.1:
                pl, ph = (pl, pl + 0.3) if pl < 0.6 else (ph - 0.3, ph)
            law0 = laws.build(desc)  # transformed, not yet truncated
            lo, hi = (float(v) for v in law0.ppf(np.array([pl, ph])))
            desc["trunc"] = [lo if mode != "trunc_hi" else None, hi if mode != "trunc_lo" else None]
            if boundary:
                _boundary_truncation(rng, desc, mode)
    return desc


def gen_space_case(rng, n_points=4):
    """A mixed random/deterministic parameter space with 1..5 variables of size 1..3."""
    nv = int(rng.integers(1, 6))
    ot_only = bool(rng.random() < 0.2)
    variables = []
    n_random = 0
    for i in range(nv):
        size = int(rng.choice([1, 1, 2, 3]))
        is_random = rng.random() < 0.65 or (i == nv - 1 and n_random == 0)
        if not is_random:
            r = rng.random()
            if r < 0.7:
                if rng.random() < P_BOUNDARY:
                    lbs = [_pick(rng, [0.0, -0.0, 0, -1.0, -1, 1]) for _ in range(size)]
                    ubs = [l + _pick(rng, [1.0, 1, 2]) for l in lbs]
                    if rng.random() < 0.3:
                        lbs, ubs = [-_pick(rng, [1.0, 1, 2]) for _ in range(size)], [_pick(rng, [0.0, -0.0, 0]) for _ in range(size)]   # upper bound exactly zero
                    variables.append({"name": f"d{i}", "role": "det", "type": "float", "size": size, "lb": lbs, "ub": ubs,
                                      "scalar": size == 1, "boundary": True})
                    continue
                lb = np.round(rng.uniform(-10, 10, size), 2)
                ub = lb + np.round(np.exp(rng.uniform(-2, 3, size)), 2) + 0.01
                variables.append({"name": f"d{i}", "role": "det", "type": "float", "size": size,
                                  "lb": lb.tolist(), "ub": ub.tolist()})
            elif r < 0.85:
                lb = rng.integers(-5, 5, size)
                ub = lb + rng.integers(1, 10, size)
                variables.append({"name": f"k{i}", "role": "det", "type": "integer", "size": size,
                                  "lb": [int(v) for v in lb], "ub": [int(v) for v in ub]})
            else:
                lb = np.round(rng.uniform(-10, 10, size), 2)
                variables.append({"name": f"h{i}", "role": "det", "type": "float", "size": size,
                                  "lb": lb.tolist(), "ub": [None] * size})
            continue
        n_random += 1
        kind = str(rng.choice(PLAIN_FAMILIES))
        fam = base_family(kind)
        shared = bool(rng.random() < 0.5) or size == 1
        comps = []
        if ot_only and rng.random() < 0.6:
            mode = str(rng.choice(["trunc2", "trunc_lo", "trunc_hi", "affine"]))
            shared = True  # options (bounds, transformation) are given once for all the components
            comps.append(gen_law_case(rng, kind, mode))
        else:
            for _ in range(1 if shared else size):
                comps.append(gen_law_case(rng, kind, "generic" if (fam in GENERIC_TWINS and rng.random() < 0.25) else "plain"))
            # a vector must use one construction route for all its components
            for c in comps:
                c["via"] = comps[0]["via"]
        if not shared:
            # add_random_vector takes one list per argument: booleans must be common to all components
            for c in comps[1:]:
                for k in ("set_log", "use_weibull_min"):
                    if k in comps[0]["params"]:
                        c["params"][k] = comps[0]["params"][k]
        variables.append({"name": f"r{i}", "role": "rand", "size": size, "shared": shared, "laws": comps})
    libs = ["OT"] if any(c["libs"] == ["OT"] for v in variables if v["role"] == "rand" for c in v["laws"]) else ["SP", "OT"]
    return {"kind": "space", "variables": variables, "libs": libs, "n_points": n_points,
            "point_seed": int(rng.integers(1, 2**31 - 1))}


# --------------------------------------------------------------------------- edit histories of a parameter space
def apply_edits_model(variables, edits):
    """The harness's own model: ordered variable list -> law, after a history of legal edits.

    rename keeps the position; remove deletes; add_* appends; filter / extract keep the original order;
    add_variables_from builds a new space in the order of the given names; rebuild changes nothing.
    """
    model = [dict(v) for v in variables]
    for e in edits:
        op = e["op"]
        if op == "rename":
            for v in model:
                if v["name"] == e["name"]:
                    v["name"] = e["new"]
        elif op == "remove":
            model = [v for v in model if v["name"] != e["name"]]
        elif op in ("add_random", "add_det"):
            model.append(dict(e["var"]))
        elif op == "filter":
            model = [v for v in model if v["name"] in e["keep"]]
        elif op == "extract_uncertain":
            model = [v for v in model if v["role"] == "rand"]
        elif op == "add_variables_from":
            by = {v["name"]: v for v in model}
            model = [by[n] for n in e["names"]]
        elif op == "rebuild":
            pass
        else:
            raise ValueError(op)
    return model


def _gen_random_variable(rng, name, plain_only):
    size = int(rng.choice([1, 1, 2, 3]))
    kind = str(rng.choice(PLAIN_FAMILIES))
    fam = base_family(kind)
    shared = bool(rng.random() < 0.5) or size == 1
    if not plain_only and rng.random() < 0.4:
        return {"name": name, "role": "rand", "size": size, "shared": True,
                "laws": [gen_law_case(rng, kind, str(rng.choice(["trunc2", "trunc_lo", "trunc_hi", "affine"])))]}
    comps = [gen_law_case(rng, kind, "generic" if (fam in GENERIC_TWINS and rng.random() < 0.25) else "plain")
             for _ in range(1 if shared else size)]
    for c in comps:
        c["via"] = comps[0]["via"]
        for k in ("set_log", "use_weibull_min"):
            if k in comps[0]["params"]:
                c["params"][k] = comps[0]["params"][k]
    return {"name": name, "role": "rand", "size": size, "shared": shared, "laws": comps}


def gen_edits(rng, variables, libs, n_edits=None):
    """A short random history of legal edits; at least one random variable always remains."""
    n_edits = int(rng.integers(1, 6)) if n_edits is None else n_edits
    edits = []
    fresh = [0]

    def new_name(prefix):
        fresh[0] += 1
        return f"{prefix}{fresh[0]}"

    plain_only = list(libs) == ["SP", "OT"]
    for _ in range(n_edits):
        model = apply_edits_model(variables, edits)
        names = [v["name"] for v in model]
        rnd = [v["name"] for v in model if v["role"] == "rand"]
        det = [v["name"] for v in model if v["role"] == "det"]
        r = rng.random()
        if r < 0.35:
            # rename: bias towards random variables that are not the last random one
            if len(rnd) > 1 and rng.random() < 0.6:
                name = str(rng.choice(rnd[:-1]))
            else:
                name = str(rng.choice(names))
            edits.append({"op": "rename", "name": name, "new": new_name("q")})
        elif r < 0.47 and len(names) > 1:
            cand = [n for n in names if not (n in rnd and len(rnd) == 1)]
            edits.append({"op": "remove", "name": str(rng.choice(cand))})
        elif r < 0.62 and len(names) < 7:
            edits.append({"op": "add_random", "var": _gen_random_variable(rng, new_name("a"), plain_only)})
        elif r < 0.70 and len(names) < 7:
            size = int(rng.choice([1, 2]))
            lb = np.round(rng.uniform(-10, 10, size), 2)
            ub = lb + np.round(np.exp(rng.uniform(-2, 3, size)), 2) + 0.01
            edits.append({"op": "add_det", "var": {"name": new_name("c"), "role": "det", "type": "float", "size": size,
                                                   "lb": lb.tolist(), "ub": ub.tolist()}})
        elif r < 0.80 and len(names) > 1:
            k = int(rng.integers(1, len(names) + 1))
            keep = [str(n) for n in rng.permutation(names)[:k]]
            if not any(n in rnd for n in keep):
                keep.append(str(rng.choice(rnd)))
            edits.append({"op": "filter", "keep": keep, "copy": bool(rng.random() < 0.5)})
        elif r < 0.86 and det:
            edits.append({"op": "extract_uncertain"})
        elif r < 0.93:
            edits.append({"op": "rebuild"})
        else:
            k = int(rng.integers(1, len(names) + 1))
            sel = [str(n) for n in rng.permutation(names)[:k]]
            if not any(n in rnd for n in sel):
                sel.append(str(rng.choice(rnd)))
            edits.append({"op": "add_variables_from", "names": sel})
    return edits


def gen_edited_space_case(rng, n_points=3):
    case = gen_space_case(rng, n_points)
    # make sure most histories have something to permute: at least two random variables with prob. 0.7
    if sum(v["role"] == "rand" for v in case["variables"]) < 2 and rng.random() < 0.7:
        plain_only = case["libs"] == ["SP", "OT"]
        case["variables"].append(_gen_random_variable(rng, "rx", plain_only))
    case["edits"] = gen_edits(rng, case["variables"], case["libs"])
    case["warm"] = bool(rng.random() < 0.5)
    return case
