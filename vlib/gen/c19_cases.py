"""Seeded generators of C19 cases (law descriptions, parameter-space descriptions).

A *law description* is ``{"family", "params", "via", "transform", "trunc"}`` where ``params`` uses
the gemseo argument names of the family.  Everything is JSON-serialisable; no gemseo import here.
"""

from __future__ import annotations

import numpy as np

from vlib.ref import c19_laws as laws

PLAIN_FAMILIES = ["uniform", "normal", "lognormal_log", "lognormal_mom", "triangular", "exponential",
                  "weibull_min", "weibull_max", "beta", "gamma", "gumbel", "logistic", "laplace", "rayleigh"]
GENERIC_ONLY = {"gamma", "gumbel", "logistic", "laplace", "rayleigh"}
GENERIC_TWINS = ["normal", "uniform", "exponential"]          # concrete families also reachable through SPDistribution/OTDistribution
OT_MODES = ["trunc2", "trunc_lo", "trunc_hi", "affine", "affine+trunc", "exp"]


def _lu(rng, lo, hi):
    return float(np.exp(rng.uniform(np.log(lo), np.log(hi))))


def base_family(kind):
    return {"lognormal_log": "lognormal", "lognormal_mom": "lognormal", "weibull_min": "weibull",
            "weibull_max": "weibull"}.get(kind, kind)


def gen_params(rng, kind, regular=False):
    """Random admissible parameters; ``regular`` keeps shapes >= 1.5 and |loc| moderate (well-conditioned)."""
    if regular:
        sc = _lu(rng, 0.2, 5.0)
        loc = float(np.round(rng.uniform(-3, 3), 3)) if rng.random() < 0.7 else 0.0
        shape = float(np.round(rng.uniform(1.5, 5.0), 3))
        shape2 = float(np.round(rng.uniform(1.5, 5.0), 3))
    else:
        sc = _lu(rng, 1e-3, 1e3)
        r = rng.random()
        loc = 0.0 if r < 0.25 else float(np.round(rng.uniform(-50, 50), 3)) if r < 0.9 else float(np.round(rng.uniform(-1e4, 1e4), 1))
        shape = _lu(rng, 0.3, 20.0)
        shape2 = _lu(rng, 0.3, 20.0)
    if kind == "uniform":
        return {"minimum": loc, "maximum": loc + sc}
    if kind == "normal":
        return {"mu": loc, "sigma": sc}
    if kind == "lognormal_log":
        return {"mu": float(np.round(rng.uniform(-2, 3), 3)), "sigma": _lu(rng, 0.05, 1.0 if regular else 1.5),
                "location": loc, "set_log": True}
    if kind == "lognormal_mom":
        m = _lu(rng, 0.1, 50.0)
        return {"mu": loc + m, "sigma": m * _lu(rng, 0.05, 1.0 if regular else 2.0), "location": loc, "set_log": False}
    if kind == "triangular":
        r = rng.random()
        frac = 0.0 if (r < 0.05 and not regular) else 1.0 if (r < 0.1 and not regular) else float(np.round(rng.uniform(0.02, 0.98), 3))
        return {"minimum": loc, "mode": loc + sc * frac if frac < 1.0 else loc + sc, "maximum": loc + sc}
    if kind == "exponential":
        return {"rate": _lu(rng, 0.2, 5.0) if regular else _lu(rng, 1e-3, 1e3), "loc": loc}
    if kind in ("weibull_min", "weibull_max"):
        return {"location": loc, "scale": sc, "shape": shape if regular else _lu(rng, 0.5, 10.0),
                "use_weibull_min": kind == "weibull_min"}
    if kind == "beta":
        return {"alpha": shape, "beta": shape2, "minimum": loc, "maximum": loc + sc}
    if kind == "gamma":
        return {"k": shape, "rate": _lu(rng, 0.2, 5.0) if regular else _lu(rng, 1e-3, 1e3), "loc": loc}
    if kind == "gumbel":
        return {"scale": sc, "loc": loc}
    if kind == "logistic":
        return {"mu": loc, "scale": sc}
    if kind == "laplace":
        return {"mu": loc, "scale": sc}
    if kind == "rayleigh":
        return {"scale": sc, "loc": loc}
    if kind == "dirac":
        return {"variable_value": loc}
    raise ValueError(kind)


def gen_law_case(rng, kind, mode="plain"):
    """mode: plain | generic | one of OT_MODES (OpenTURNS only)."""
    fam = base_family(kind)
    regular = mode in OT_MODES
    desc = {"kind": "law", "family": fam, "params": gen_params(rng, kind, regular), "via": "class",
            "transform": None, "trunc": None, "mode": mode, "libs": ["SP", "OT"]}
    if fam in GENERIC_ONLY or mode == "generic":
        desc["via"] = "generic"
    if fam == "dirac":
        desc["libs"] = ["OT"]
    if mode in OT_MODES:
        desc["libs"] = ["OT"]
        if mode == "exp":
            if fam == "normal":
                desc["params"] = {"mu": float(np.round(rng.uniform(-2, 2), 3)), "sigma": float(np.round(rng.uniform(0.1, 1.0), 3))}
            else:
                desc["family"] = "uniform"
                a = float(np.round(rng.uniform(-2, 0), 3))
                desc["params"] = {"minimum": a, "maximum": a + float(np.round(rng.uniform(0.1, 2.5), 3))}
            desc["transform"] = ["exp"]
        if mode.startswith("affine"):
            a = float(np.round(rng.choice([-1.0, 1.0]) * np.exp(rng.uniform(-1.5, 1.5)), 3))
            b = float(np.round(rng.uniform(-5, 5), 2))
            desc["transform"] = ["affine", a, b]
        if mode in ("trunc2", "trunc_lo", "trunc_hi", "affine+trunc"):
            pl, ph = sorted(rng.uniform(0.02, 0.98, 2).tolist())
            if ph - pl < 0.1:
                pl, ph = (pl, pl + 0.3) if pl < 0.6 else (ph - 0.3, ph)
            law0 = laws.build(desc)  # transformed, not yet truncated
            lo, hi = (float(v) for v in law0.ppf(np.array([pl, ph])))
            desc["trunc"] = [lo if mode != "trunc_hi" else None, hi if mode != "trunc_lo" else None]
    return desc


def gen_space_case(rng, n_points=4):
    """A mixed random/deterministic parameter space with 1..5 variables of size 1..3."""
    nv = int(rng.integers(1, 6))
    ot_only = bool(rng.random() < 0.2)
    variables = []
    n_random = 0
    for i in range(nv):
        size = int(rng.choice([1, 1, 2, 3]))
        is_random = rng.random() < 0.65 or (i == nv - 1 and n_random == 0)
        if not is_random:
            r = rng.random()
            if r < 0.7:
                lb = np.round(rng.uniform(-10, 10, size), 2)
                ub = lb + np.round(np.exp(rng.uniform(-2, 3, size)), 2) + 0.01
                variables.append({"name": f"d{i}", "role": "det", "type": "float", "size": size,
                                  "lb": lb.tolist(), "ub": ub.tolist()})
            elif r < 0.85:
                lb = rng.integers(-5, 5, size)
                ub = lb + rng.integers(1, 10, size)
                variables.append({"name": f"k{i}", "role": "det", "type": "integer", "size": size,
                                  "lb": [int(v) for v in lb], "ub": [int(v) for v in ub]})
            else:
                lb = np.round(rng.uniform(-10, 10, size), 2)
                variables.append({"name": f"h{i}", "role": "det", "type": "float", "size": size,
                                  "lb": lb.tolist(), "ub": [None] * size})
            continue
        n_random += 1
        kind = str(rng.choice(PLAIN_FAMILIES))
        fam = base_family(kind)
        shared = bool(rng.random() < 0.5) or size == 1
        comps = []
        if ot_only and rng.random() < 0.6:
            mode = str(rng.choice(["trunc2", "trunc_lo", "trunc_hi", "affine"]))
            shared = True  # options (bounds, transformation) are given once for all the components
            comps.append(gen_law_case(rng, kind, mode))
        else:
            for _ in range(1 if shared else size):
                comps.append(gen_law_case(rng, kind, "generic" if (fam in GENERIC_TWINS and rng.random() < 0.25) else "plain"))
            # a vector must use one construction route for all its components
            for c in comps:
                c["via"] = comps[0]["via"]
        if not shared:
            # add_random_vector takes one list per argument: booleans must be common to all components
            for c in comps[1:]:
                for k in ("set_log", "use_weibull_min"):
                    if k in comps[0]["params"]:
                        c["params"][k] = comps[0]["params"][k]
        variables.append({"name": f"r{i}", "role": "rand", "size": size, "shared": shared, "laws": comps})
    libs = ["OT"] if any(c["libs"] == ["OT"] for v in variables if v["role"] == "rand" for c in v["laws"]) else ["SP", "OT"]
    return {"kind": "space", "variables": variables, "libs": libs, "n_points": n_points,
            "point_seed": int(rng.integers(1, 2**31 - 1))}


# --------------------------------------------------------------------------- edit histories of a parameter space
def apply_edits_model(variables, edits):
    """The harness's own model: ordered variable list -> law, after a history of legal edits.

    rename keeps the position; remove deletes; add_* appends; filter / extract keep the original order;
    add_variables_from builds a new space in the order of the given names; rebuild changes nothing.
    """
    model = [dict(v) for v in variables]
    for e in edits:
        op = e["op"]
        if op == "rename":
            for v in model:
                if v["name"] == e["name"]:
                    v["name"] = e["new"]
        elif op == "remove":
            model = [v for v in model if v["name"] != e["name"]]
        elif op in ("add_random", "add_det"):
            model.append(dict(e["var"]))
        elif op == "filter":
            model = [v for v in model if v["name"] in e["keep"]]
        elif op == "extract_uncertain":
            model = [v for v in model if v["role"] == "rand"]
        elif op == "add_variables_from":
            by = {v["name"]: v for v in model}
            model = [by[n] for n in e["names"]]
        elif op == "rebuild":
            pass
        else:
            raise ValueError(op)
    return model


def _gen_random_variable(rng, name, plain_only):
    size = int(rng.choice([1, 1, 2, 3]))
    kind = str(rng.choice(PLAIN_FAMILIES))
    fam = base_family(kind)
    shared = bool(rng.random() < 0.5) or size == 1
    if not plain_only and rng.random() < 0.4:
        return {"name": name, "role": "rand", "size": size, "shared": True,
                "laws": [gen_law_case(rng, kind, str(rng.choice(["trunc2", "trunc_lo", "trunc_hi", "affine"])))]}
    comps = [gen_law_case(rng, kind, "generic" if (fam in GENERIC_TWINS and rng.random() < 0.25) else "plain")
             for _ in range(1 if shared else size)]
    for c in comps:
        c["via"] = comps[0]["via"]
        for k in ("set_log", "use_weibull_min"):
            if k in comps[0]["params"]:
                c["params"][k] = comps[0]["params"][k]
    return {"name": name, "role": "rand", "size": size, "shared": shared, "laws": comps}


def gen_edits(rng, variables, libs, n_edits=None):
    """A short random history of legal edits; at least one random variable always remains."""
    n_edits = int(rng.integers(1, 6)) if n_edits is None else n_edits
    edits = []
    fresh = [0]

    def new_name(prefix):
        fresh[0] += 1
        return f"{prefix}{fresh[0]}"

    plain_only = list(libs) == ["SP", "OT"]
    for _ in range(n_edits):
        model = apply_edits_model(variables, edits)
        names = [v["name"] for v in model]
        rnd = [v["name"] for v in model if v["role"] == "rand"]
        det = [v["name"] for v in model if v["role"] == "det"]
        r = rng.random()
        if r < 0.35:
            # rename: bias towards random variables that are not the last random one
            if len(rnd) > 1 and rng.random() < 0.6:
                name = str(rng.choice(rnd[:-1]))
            else:
                name = str(rng.choice(names))
            edits.append({"op": "rename", "name": name, "new": new_name("q")})
        elif r < 0.47 and len(names) > 1:
            cand = [n for n in names if not (n in rnd and len(rnd) == 1)]
            edits.append({"op": "remove", "name": str(rng.choice(cand))})
        elif r < 0.62 and len(names) < 7:
            edits.append({"op": "add_random", "var": _gen_random_variable(rng, new_name("a"), plain_only)})
        elif r < 0.70 and len(names) < 7:
            size = int(rng.choice([1, 2]))
            lb = np.round(rng.uniform(-10, 10, size), 2)
            ub = lb + np.round(np.exp(rng.uniform(-2, 3, size)), 2) + 0.01
            edits.append({"op": "add_det", "var": {"name": new_name("c"), "role": "det", "type": "float", "size": size,
                                                   "lb": lb.tolist(), "ub": ub.tolist()}})
        elif r < 0.80 and len(names) > 1:
            k = int(rng.integers(1, len(names) + 1))
            keep = [str(n) for n in rng.permutation(names)[:k]]
            if not any(n in rnd for n in keep):
                keep.append(str(rng.choice(rnd)))
            edits.append({"op": "filter", "keep": keep, "copy": bool(rng.random() < 0.5)})
        elif r < 0.86 and det:
            edits.append({"op": "extract_uncertain"})
        elif r < 0.93:
            edits.append({"op": "rebuild"})
        else:
            k = int(rng.integers(1, len(names) + 1))
            sel = [str(n) for n in rng.permutation(names)[:k]]
            if not any(n in rnd for n in sel):
                sel.append(str(rng.choice(rnd)))
            edits.append({"op": "add_variables_from", "names": sel})
    return edits


def gen_edited_space_case(rng, n_points=3):
    case = gen_space_case(rng, n_points)
    # make sure most histories have something to permute: at least two random variables with prob. 0.7
    if sum(v["role"] == "rand" for v in case["variables"]) < 2 and rng.random() < 0.7:
        plain_only = case["libs"] == ["SP", "OT"]
        case["variables"].append(_gen_random_variable(rng, "rx", plain_only))
    case["edits"] = gen_edits(rng, case["variables"], case["libs"])
    case["warm"] = bool(rng.random() < 0.5)
    return case
