"""C07 variants of the generated coupled systems (harness side, numpy only for the reference).

``systems.py`` stays the shared generator.  This module adds, for the coupled-derivative check:

* **state/residual disciplines**: a discipline ``D_i`` may own a state ``w_i`` defined by the residual

      r_i(w_i, u_i) = M_i w_i - psi(P_i u_i + p_i) = 0          psi = identity | tanh

  which it solves itself (``io.state_equations_are_solved = True``) and declares through
  ``io.residual_to_state_variable = {"r_i": "w_i"}``.  Its other outputs then read the state:

      y_i = phi(A_i u_i + W_i w_i + c_i)
      f_i = B_i u_i + V_i w_i + d_i [+ 0.5 q_i (|u_i|^2 + |w_i|^2)]

  The partial Jacobians it hands to gemseo are the *explicit* ones (``w_i`` held fixed for ``y_i``,
  ``f_i`` and ``r_i``), exactly as in ``tests/mda/test_mda_residuals.py``; the coupled-adjoint machinery
  must eliminate the state through ``dr/dw``.
* ``StateSystem``: reference (exact solution and implicit-function total derivatives over the unknowns
  ``(y, w)``), graph facts used to classify requests, and fresh gemseo disciplines whose partials are
  dense arrays, ``scipy.sparse`` arrays or ``JacobianOperator`` instances.

A spec without any ``"state"`` entry is a plain ``systems.py`` spec; ``StateSystem`` then gives the same
numbers as ``CoupledSystem`` (this is asserted by the check as a self-test of the reference).
"""

from __future__ import annotations

import numpy as np

from vlib.gen.systems import CoupledSystem


# --------------------------------------------------------------------------- generation
def add_states(spec, rng, prob=0.6, max_size=3):
    """Give some disciplines of ``spec`` a state variable (in place) and re-scale the couplings."""
    chosen = [i for i in range(spec["n"]) if rng.random() < prob]
    if not chosen:
        chosen = [int(rng.integers(spec["n"]))]
    for i in chosen:
        d = spec["disciplines"][i]
        s = int(rng.integers(1, max_size + 1))
        ysz = d["y"][1]
        M = np.diag(np.round(rng.uniform(1.0, 2.0, s), 3)) + np.round(rng.uniform(-0.2, 0.2, (s, s)), 3)
        st = {"name": f"w{i}", "res": f"r{i}", "size": s, "M": M.tolist(),
              "P": {nm: np.round(rng.uniform(-1, 1, (s, sz)), 3).tolist() for nm, sz in d["inputs"]},
              "p": np.round(rng.uniform(-1, 1, s), 3).tolist(),
              "W": np.round(rng.uniform(-1, 1, (ysz, s)), 3).tolist()}
        if "f" in d:
            st["V"] = np.round(rng.uniform(-1, 1, (d["f"][1], s)), 3).tolist()
        d["state"] = st
    _rescale(spec)
    return spec


def integerize_functions(spec, rng, prob=0.8):
    """Give the non-coupling outputs ``f_i`` small integer coefficients and no quadratic term (in place).

    Their partial Jacobians are then constant integer matrices, which a hand-written discipline may well return
    as integer arrays (see ``represent``).  The coupling outputs keep their real, contractive coefficients.
    """
    for d in spec["disciplines"]:
        if "f" in d and rng.random() < prob:
            fs = d["f"][1]
            d["B"] = {nm: rng.integers(-4, 5, (fs, s)).astype(float).tolist() for nm, s in d["inputs"]}
            d["q"] = 0.0
            d["int_f"] = True
            if d.get("state") and "V" in d["state"]:
                d["state"]["V"] = rng.integers(-4, 5, (fs, d["state"]["size"])).astype(float).tolist()
    return spec


# --------------------------------------------------------------------------- representations of a Jacobian block
REPRESENTATIONS = ["float64", "int64", "int32", "float32", "complex", "fortran", "strided", "readonly", "mixed"]
_MIXED = ["float64", "int64", "int32", "complex", "fortran", "strided", "readonly"]


def represent(J, kind, key=""):
    """The exact block ``J`` (float64, C order) in another dtype / memory layout a discipline may return.

    int64/int32 apply only to blocks whose entries are integers (others stay float64: mixed dtypes inside one
    discipline); ``mixed`` picks a representation per block from a hash of ``key``.
    """
    import zlib

    J = np.array(J, dtype=float)
    if kind == "mixed":
        kind = _MIXED[zlib.crc32(key.encode()) % len(_MIXED)]
    if kind in ("int64", "int32"):
        return np.rint(J).astype(kind) if J.size and np.all(J == np.rint(J)) else J
    if kind == "float32":
        return J.astype(np.float32)
    if kind == "complex":
        return J.astype(complex)
    if kind == "fortran":
        return np.asfortranarray(J)
    if kind == "strided":
        big = np.full((2 * J.shape[0] + 1, 3 * J.shape[1] + 1), 7.5)
        big[1::2, 1::3] = J
        return big[1::2, 1::3]
    if kind == "readonly":
        J = J.copy()
        J.setflags(write=False)
        return J
    return J


def represent_output(v, kind):
    """A discipline output as a strided view or a read-only array."""
    v = np.array(v, dtype=float)
    if kind == "strided":
        big = np.full(2 * v.size + 1, -3.25)
        big[1::2] = v
        return big[1::2]
    if kind == "readonly":
        v = v.copy()
        v.setflags(write=False)
        return v
    return v


def _rescale(spec):
    """Row-sum norm of the effective coupling map (state eliminated) <= L."""
    worst = 0.0
    for d in spec["disciplines"]:
        rows = np.zeros(d["y"][1])
        st = d.get("state")
        if st:
            WMi = np.abs(np.array(st["W"])) @ np.abs(np.linalg.inv(np.array(st["M"])))
        for nm, _ in d["inputs"]:
            if nm.startswith("y"):
                rows += np.abs(np.array(d["A"][nm])).sum(axis=1)
                if st:
                    rows += (WMi @ np.abs(np.array(st["P"][nm]))).sum(axis=1)
        worst = max(worst, rows.max() if rows.size else 0.0)
    if worst > spec["L"]:
        k = spec["L"] / worst
        for d in spec["disciplines"]:
            for nm, _ in d["inputs"]:
                if nm.startswith("y"):
                    d["A"][nm] = (np.array(d["A"][nm]) * k).tolist()
                    if d.get("state"):
                        d["state"]["P"][nm] = (np.array(d["state"]["P"][nm]) * k).tolist()


# --------------------------------------------------------------------------- reference
class StateSystem(CoupledSystem):
    def __init__(self, spec):
        super().__init__(spec)
        self.states, self.residuals = [], []
        for d in self.discs:
            st = d.get("state")
            if st:
                self.sizes[st["name"]] = st["size"]
                self.sizes[st["res"]] = st["size"]
                self.states.append(st["name"])
                self.residuals.append(st["res"])
        self.has_states = bool(self.states)
        self.owner = {}
        for i, d in enumerate(self.discs):
            self.owner[d["y"][0]] = i
            if "f" in d:
                self.owner[d["f"][0]] = i
            if d.get("state"):
                self.owner[d["state"]["name"]] = i
                self.owner[d["state"]["res"]] = i
        n = len(self.discs)
        R = np.eye(n, dtype=bool)
        for a, b in self.edges:
            R[a, b] = True
        for k in range(n):
            R |= R[:, [k]] & R[[k], :]
        self.reach = R
        self.comp = {}
        for ci, comp in enumerate(self.sccs()):
            for i in comp:
                self.comp[i] = ci

    # -- graph facts used to classify a request -----------------------------
    def readers(self, name):
        return [i for i, d in enumerate(self.discs) if name in [nm for nm, _ in d["inputs"]]]

    def ineffective_inputs(self, wrt, of):
        """Requested inputs from which no requested output can be reached in the data-flow graph."""
        return [w for w in wrt if not any(self.reach[k, self.owner[o]] for k in self.readers(w) for o in of)]

    def unaffected_outputs(self, wrt, of):
        """Requested outputs that cannot be reached from any requested input."""
        return [o for o in of if not any(self.reach[k, self.owner[o]] for w in wrt for k in self.readers(w))]

    def involved_disciplines(self, wrt, of):
        """Disciplines lying on a data-flow path from a requested input to a requested output."""
        return [i for i in range(len(self.discs))
                if any(self.reach[k, i] for w in wrt for k in self.readers(w))
                and any(self.reach[i, self.owner[o]] for o in of)]

    def couplings_on_path(self, wrt, of):
        """Coupling variables lying on a data-flow path from a requested input to a requested output."""
        out = set()
        for a, b in self.edges:  # y_a is read by D_b
            if any(self.reach[k, a] for w in wrt for k in self.readers(w)) and any(self.reach[b, self.owner[o]] for o in of):
                out.add(f"y{a}")
        return sorted(out)

    def is_strong_group(self, ci):
        comp = self.sccs()[ci]
        return len(comp) > 1 or (comp[0], comp[0]) in self.edges

    def cross_group_strong_links(self):
        """Edges a->b between two different strong groups where y_a is also read inside its own group."""
        out = []
        for a, b in self.edges:
            ca, cb = self.comp[a], self.comp[b]
            if ca != cb and self.is_strong_group(ca) and self.is_strong_group(cb):
                if any(self.comp[t] == ca for (s, t) in self.edges if s == a):
                    out.append((a, b))
        return out

    def request_crosses_strong_link(self, wrt, of):
        for a, b in self.cross_group_strong_links():
            if any(self.reach[k, a] for w in wrt for k in self.readers(w)) and any(self.reach[b, self.owner[o]] for o in of):
                return True
        return False

    def all_couplings_strong(self):
        """Every coupling variable is read only inside the strong group that produces it."""
        for a, b in self.edges:
            if self.comp[a] != self.comp[b] or not self.is_strong_group(self.comp[a]):
                return False
        return True

    # -- evaluation ----------------------------------------------------------
    def _state(self, d, u):
        st = d["state"]
        t = np.array(st["p"], dtype=float)
        for nm, v in u.items():
            t = t + np.array(st["P"][nm]) @ v
        rhs = np.tanh(t) if self.nonlinear else t
        gt = (1 - np.tanh(t) ** 2) if self.nonlinear else np.ones_like(t)
        M = np.array(st["M"])
        return np.linalg.solve(M, rhs), rhs, gt, M

    def eval_disc(self, d, data):
        st = d.get("state")
        if not st:
            return super().eval_disc(d, data)
        u = self._u(d, data)
        w, rhs, _, M = self._state(d, u)
        s = np.array(d["c"], dtype=float) + np.array(st["W"]) @ w
        for nm, v in u.items():
            s = s + np.array(d["A"][nm]) @ v
        out = {d["y"][0]: np.tanh(s) if self.nonlinear else s, st["name"]: w, st["res"]: M @ w - rhs}
        if "f" in d:
            f = np.array(d["d"], dtype=float) + np.array(st["V"]) @ w
            for nm, v in u.items():
                f = f + np.array(d["B"][nm]) @ v
            if d.get("q"):
                f = f + 0.5 * d["q"] * (sum(float(np.sum(v ** 2)) for v in u.values()) + float(np.sum(w ** 2)))
            out[d["f"][0]] = f
        return out

    def partials_disc(self, d, data):
        """Explicit partials; for a state discipline the state is an independent argument of y, f, r."""
        st = d.get("state")
        if not st:
            return super().partials_disc(d, data)
        u = self._u(d, data)
        w, _, gt, M = self._state(d, u)
        wn = st["name"]
        s = np.array(d["c"], dtype=float) + np.array(st["W"]) @ w
        for nm, v in u.items():
            s = s + np.array(d["A"][nm]) @ v
        g = (1 - np.tanh(s) ** 2) if self.nonlinear else np.ones_like(s)
        jac = {d["y"][0]: {nm: g[:, None] * np.array(d["A"][nm]) for nm in u}}
        jac[d["y"][0]][wn] = g[:, None] * np.array(st["W"])
        jac[st["res"]] = {nm: -gt[:, None] * np.array(st["P"][nm]) for nm in u}
        jac[st["res"]][wn] = M.copy()
        Minv = np.linalg.inv(M)
        jac[wn] = {nm: Minv @ (gt[:, None] * np.array(st["P"][nm])) for nm in u}
        jac[wn][wn] = np.zeros((st["size"], st["size"]))
        if "f" in d:
            fj = {}
            for nm, v in u.items():
                J = np.array(d["B"][nm], dtype=float)
                if d.get("q"):
                    J = J + d["q"] * np.tile(v, (J.shape[0], 1))
                fj[nm] = J
            J = np.array(st["V"], dtype=float)
            if d.get("q"):
                J = J + d["q"] * np.tile(w, (J.shape[0], 1))
            fj[wn] = J
            jac[d["f"][0]] = fj
        return jac

    def solve(self, inputs, tol=1e-15, max_iter=5000):
        if not self.has_states:
            return super().solve(inputs, tol, max_iter)
        data = {k: np.asarray(v, dtype=float) for k, v in inputs.items()}
        for nm in self.couplings:
            data.setdefault(nm, np.zeros(self.sizes[nm]))
        for _ in range(max_iter):
            delta = 0.0
            for d in self.discs:
                new = self.eval_disc(d, data)[d["y"][0]]
                delta = max(delta, float(np.max(np.abs(new - data[d["y"][0]]))))
                data[d["y"][0]] = new
            if delta <= tol:
                break
        for d in self.discs:
            out = self.eval_disc(d, data)
            for k, v in out.items():
                if k != d["y"][0]:
                    data[k] = v
        return data

    def total_derivatives(self, inputs, of=None, wrt=None, drop_state_partials_of_functions=False):
        """Implicit-function derivatives over the unknowns (couplings, states); dense numpy.

        ``drop_state_partials_of_functions=True`` gives the *wrong* model in which the term
        ``dF/dw . dw/dx`` of the requested functions is lost (used only to recognise that mechanism).
        """
        if not self.has_states:
            return super().total_derivatives(inputs, of=of, wrt=wrt)
        sol = self.solve(inputs)
        wrt = list(wrt) if wrt is not None else self.independent
        of = list(of) if of is not None else self.couplings + self.f_names
        unknowns = self.couplings + self.states
        # equation k belongs to unknown k: y_i - Y_i = 0 ;  r_i = 0 for w_i
        eq_of = {nm: nm for nm in self.couplings}
        for d in self.discs:
            if d.get("state"):
                eq_of[d["state"]["name"]] = d["state"]["res"]
        off = np.cumsum([0] + [self.sizes[n] for n in unknowns])
        woff = np.cumsum([0] + [self.sizes[n] for n in wrt])
        N = off[-1]
        K, Kx = np.zeros((N, N)), np.zeros((N, woff[-1]))
        parts = {}
        for d in self.discs:
            parts.update(self.partials_disc(d, sol))
        for k, nm in enumerate(unknowns):
            r = slice(off[k], off[k + 1])
            for inm, J in parts[eq_of[nm]].items():
                if inm in unknowns:
                    kk = unknowns.index(inm)
                    K[r, off[kk]:off[kk + 1]] += J
                elif inm in wrt:
                    w = wrt.index(inm)
                    Kx[r, woff[w]:woff[w + 1]] += J
            if nm in self.couplings:
                K[r, r] -= np.eye(self.sizes[nm])
        dU = np.linalg.solve(K, -Kx)
        out = {}
        drop = drop_state_partials_of_functions
        for o in of:
            if o in unknowns and not drop:
                k = unknowns.index(o)
                tot = dU[off[k]:off[k + 1], :]
            elif o in self.residuals and not drop:
                tot = np.zeros((self.sizes[o], woff[-1]))
            else:
                tot = np.zeros((self.sizes[o], woff[-1]))
                for inm, J in parts[o].items():
                    if drop and inm in self.states:
                        continue
                    if inm in unknowns:
                        kk = unknowns.index(inm)
                        tot = tot + J @ dU[off[kk]:off[kk + 1], :]
                    elif inm in wrt:
                        w = wrt.index(inm)
                        tot[:, woff[w]:woff[w + 1]] += J
            out[o] = {w_: tot[:, woff[i]:woff[i + 1]] for i, w_ in enumerate(wrt)}
        return out, sol

    def cond_residual_jacobian(self, inputs):
        if not self.has_states:
            return super().cond_residual_jacobian(inputs)
        sol = self.solve(inputs)
        unknowns = self.couplings + self.states
        eq_of = {nm: nm for nm in self.couplings}
        for d in self.discs:
            if d.get("state"):
                eq_of[d["state"]["name"]] = d["state"]["res"]
        off = np.cumsum([0] + [self.sizes[n] for n in unknowns])
        K = np.zeros((off[-1], off[-1]))
        parts = {}
        for d in self.discs:
            parts.update(self.partials_disc(d, sol))
        for k, nm in enumerate(unknowns):
            r = slice(off[k], off[k + 1])
            for inm, J in parts[eq_of[nm]].items():
                if inm in unknowns:
                    kk = unknowns.index(inm)
                    K[r, off[kk]:off[kk + 1]] += J
            if nm in self.couplings:
                K[r, r] -= np.eye(self.sizes[nm])
        return float(np.linalg.cond(K))

    # -- gemseo side ---------------------------------------------------------
    def make_disciplines(self, order=None, sparse=False, defaults=None, jac_kind=None, jac_repr=None,
                         out_repr=None):
        """Fresh gemseo disciplines; ``jac_kind`` in {"dense", "sparse", "operator"}.

        ``jac_repr`` (see ``REPRESENTATIONS``) is the dtype / layout of the dense blocks (dtype only for sparse
        blocks, ignored for operators); ``out_repr`` in {None, "strided", "readonly"} that of the outputs.
        """
        from gemseo.core.derivatives.jacobian_operator import JacobianOperator
        from gemseo.core.discipline import Discipline

        system = self
        defaults = defaults or {}
        jac_kind = jac_kind or ("sparse" if sparse else "dense")

        class ArrayOperator(JacobianOperator):
            """A discipline Jacobian given as a linear operator (wraps the exact dense partial)."""

            def __init__(self, mat):
                super().__init__(np.dtype(float), mat.shape)
                self.mat = mat

            def _matvec(self, x):
                return self.mat @ x

            def _rmatvec(self, x):
                return self.mat.T @ x

            def _matmat(self, x):
                return self.mat @ x

        class SysDisc(Discipline):
            def __init__(self, d):
                super().__init__(name=d["name"])
                self.d = d
                self.n_run = 0
                self.n_lin = 0
                st = d.get("state")
                ins = [nm for nm, _ in d["inputs"]]
                outs = [d["y"][0]] + ([d["f"][0]] if "f" in d else [])
                dflt = {nm: np.array(defaults.get(nm, np.zeros(s)), dtype=float) for nm, s in d["inputs"]}
                if st:
                    ins.append(st["name"])
                    outs += [st["name"], st["res"]]
                    dflt[st["name"]] = np.zeros(st["size"])
                self.io.input_grammar.update_from_names(ins)
                self.io.output_grammar.update_from_names(outs)
                self.io.input_grammar.defaults = dflt
                if st:
                    self.io.residual_to_state_variable = {st["res"]: st["name"]}
                    self.io.state_equations_are_solved = True

            def _run(self, input_data):
                self.n_run += 1
                out = system.eval_disc(self.d, input_data)
                if out_repr:
                    out = {k: represent_output(v, out_repr) for k, v in out.items()}
                return out

            def _compute_jacobian(self, input_names=(), output_names=()):
                self.n_lin += 1
                jac = system.partials_disc(self.d, {k: np.real(v) for k, v in self.io.data.items()})
                if jac_repr and jac_kind == "dense":
                    jac = {o: {i: represent(J, jac_repr, f"{o}|{i}") for i, J in ji.items()} for o, ji in jac.items()}
                if jac_kind == "sparse":
                    from scipy.sparse import csr_array

                    kind = jac_repr if jac_repr in ("int64", "int32", "float32", "complex") else None
                    jac = {o: {i: csr_array(represent(J, kind, "") if kind else J) for i, J in ji.items()}
                           for o, ji in jac.items()}
                elif jac_kind == "operator":
                    jac = {o: {i: ArrayOperator(np.array(J, dtype=float)) for i, J in ji.items()} for o, ji in jac.items()}
                self.jac = jac

        order = list(order) if order is not None else list(range(len(self.discs)))
        return [SysDisc(self.discs[i]) for i in order]
