"""Closed-form test functions with exact Jacobians and derivative bounds (harness side).

None of this imports gemseo.  ``Poly`` is a vector-valued polynomial
``f_i(x) = sum_k c[i,k] * prod_j x_j**e[k,j]``; ``ExpSin`` is
``f_i(x) = a_i*exp(b_i.x) + c_i*sin(d_i.x)``.  Both work on complex inputs
(complex step) and expose

* ``value(x)``, ``jac(x)``                      exact value and Jacobian,
* ``d2_bound(x, j, h)``, ``d3_bound(x, j, h)``  per-output upper bounds of
  ``|d^2 f_i/dx_j^2|`` / ``|d^3 f_i/dx_j^3|`` on the segment ``x + t e_j, |t| <= h``,
* ``abs_value(x)``                               per-output sum of absolute values of the
  terms (an upper bound of ``|f_i|`` that also bounds the rounding error scale).
"""

from __future__ import annotations

import numpy as np


class Poly:
    kind = "poly"

    def __init__(self, coeffs, exps):
        self.c = np.asarray(coeffs, dtype=float)  # (m, K)
        self.e = np.asarray(exps, dtype=int)  # (K, n)
        self.m, self.K = self.c.shape
        self.n = self.e.shape[1]

    @classmethod
    def random(cls, rng, n, m, degree=3, terms=4):
        exps = []
        for _ in range(terms):
            e = np.zeros(n, dtype=int)
            for _ in range(int(rng.integers(0, degree + 1))):
                e[int(rng.integers(0, n))] += 1
            exps.append(e)
        coeffs = np.round(rng.uniform(-2, 2, size=(m, terms)), 3)
        return cls(coeffs, np.array(exps))

    def describe(self):
        return {"kind": "poly", "coeffs": self.c.tolist(), "exps": self.e.tolist()}

    @classmethod
    def from_description(cls, d):
        return cls(d["coeffs"], d["exps"])

    def _mono(self, x, e):
        out = 1.0
        for j, p in enumerate(e):
            if p:
                out = out * x[j] ** int(p)
        return out

    def value(self, x):
        x = np.asarray(x)
        mon = np.array([self._mono(x, e) for e in self.e], dtype=x.dtype if x.dtype.kind == "c" else float)
        return self.c @ mon

    def jac(self, x):
        x = np.asarray(x, dtype=float)
        J = np.zeros((self.m, self.n))
        for k, e in enumerate(self.e):
            for j in range(self.n):
                if e[j] == 0:
                    continue
                e2 = e.copy()
                e2[j] -= 1
                J[:, j] += self.c[:, k] * e[j] * self._mono(x, e2)
        return J

    def abs_value(self, x):
        ax = np.abs(np.asarray(x, dtype=float))
        mon = np.array([self._mono(ax, e) for e in self.e])
        return np.abs(self.c) @ mon

    def _dk_bound(self, x, j, h, order):
        ax = np.abs(np.asarray(x, dtype=float)).copy()
        ax[j] += abs(h)
        out = np.zeros(self.m)
        for k, e in enumerate(self.e):
            if e[j] < order:
                continue
            fac = 1.0
            for r in range(order):
                fac *= e[j] - r
            e2 = e.copy()
            e2[j] -= order
            out += np.abs(self.c[:, k]) * fac * self._mono(ax, e2)
        return out

    def d2_bound(self, x, j, h):
        return self._dk_bound(x, j, h, 2)

    def d3_bound(self, x, j, h):
        return self._dk_bound(x, j, h, 3)


class ExpSin:
    kind = "expsin"

    def __init__(self, a, b, c, d):
        self.a, self.b = np.asarray(a, float), np.asarray(b, float)  # (m,), (m,n)
        self.c, self.d = np.asarray(c, float), np.asarray(d, float)
        self.m, self.n = self.b.shape

    @classmethod
    def random(cls, rng, n, m):
        return cls(
            np.round(rng.uniform(-1.5, 1.5, m), 3),
            np.round(rng.uniform(-0.6, 0.6, (m, n)), 3),
            np.round(rng.uniform(-1.5, 1.5, m), 3),
            np.round(rng.uniform(-1.5, 1.5, (m, n)), 3),
        )

    def describe(self):
        return {"kind": "expsin", "a": self.a.tolist(), "b": self.b.tolist(),
                "c": self.c.tolist(), "d": self.d.tolist()}

    @classmethod
    def from_description(cls, d):
        return cls(d["a"], d["b"], d["c"], d["d"])

    def value(self, x):
        x = np.asarray(x)
        return self.a * np.exp(self.b @ x) + self.c * np.sin(self.d @ x)

    def jac(self, x):
        x = np.asarray(x, dtype=float)
        return (self.a * np.exp(self.b @ x))[:, None] * self.b + (self.c * np.cos(self.d @ x))[:, None] * self.d

    def abs_value(self, x):
        # Upper bound of the sum of the absolute values of the terms over the box {x': |x'| <= |x|}: callers pass
        # either the point itself or |x| + h (as for Poly); exp(b.x') <= exp(|b|.|x|) on that box.
        x = np.abs(np.asarray(x, dtype=float))
        return np.abs(self.a) * np.exp(np.abs(self.b) @ x) + np.abs(self.c)

    def _dk_bound(self, x, j, h, order):
        x = np.asarray(x, dtype=float)
        return (np.abs(self.a) * np.abs(self.b[:, j]) ** order * np.exp(self.b @ x + np.abs(self.b[:, j]) * abs(h))
                + np.abs(self.c) * np.abs(self.d[:, j]) ** order)

    def d2_bound(self, x, j, h):
        return self._dk_bound(x, j, h, 2)

    def d3_bound(self, x, j, h):
        return self._dk_bound(x, j, h, 3)


def from_description(d):
    return {"poly": Poly, "expsin": ExpSin}[d["kind"]].from_description(d)


def random_function(rng, n, m):
    if rng.random() < 0.7:
        return Poly.random(rng, n, m, degree=3, terms=int(rng.integers(2, 6)))
    return ExpSin.random(rng, n, m)
