"""C17 variants of the coupled-system generator (``vlib/gen/systems.py`` is used unchanged).

* ``build_system``      same spec format as ``systems.random_system`` but with a given edge set (needed for
                        feed-forward systems, single disciplines, and linear couplings with a quadratic output);
* ``add_convex_objective``  appends a discipline reading every variable and producing a scalar, strictly convex
                        (linear + 0.5*q*|u|^2) output: with linear couplings the MDF problem is a strictly convex QP;
* ``Grouping``          discipline-level view when several spec disciplines are executed by ONE gemseo discipline
                        (a discipline with several output couplings of different sizes); graph, SCCs, strong
                        couplings and a topological order at that level;
* ``make_grouped_disciplines``  the gemseo disciplines of a grouping (bodies call back into ``CoupledSystem``).

Nothing here imports a gemseo module under judgement (only ``gemseo.core.discipline.Discipline`` as base class of
the harness disciplines, exactly like ``systems.make_disciplines``).
"""

from __future__ import annotations

import numpy as np

from vlib.gen.systems import _scale_couplings


# --------------------------------------------------------------------------- generation
def dag_edges(rng, n):
    """Feed-forward coupling edges (a < b): no strong coupling."""
    edges = set()
    for b in range(1, n):
        preds = [a for a in range(b) if rng.random() < 0.6]
        if not preds and rng.random() < 0.8:
            preds = [int(rng.integers(b))]
        for a in preds:
            edges.add((a, b))
    return edges


def build_system(rng, n, edges, nonlinear, L, max_size=3, p_local=0.6, p_f=0.7, quadratic=None, kind="custom"):
    """A spec in the format of ``systems.random_system`` for the given coupling edges (j, i): D_i reads y_j."""
    quadratic = nonlinear if quadratic is None else quadratic
    x_size = int(rng.integers(1, max_size + 1))
    sizes = [int(rng.integers(1, max_size + 1)) for _ in range(n)]
    discs = []
    for i in range(n):
        preds = sorted(j for (j, t) in edges if t == i)
        ins = [("x", x_size)]
        if rng.random() < p_local:
            ins.append((f"z{i}", int(rng.integers(1, max_size + 1))))
        ins += [(f"y{j}", sizes[j]) for j in preds]
        d = {"name": f"D{i}", "inputs": [[nm, s] for nm, s in ins], "y": [f"y{i}", sizes[i]],
             "A": {nm: np.round(rng.uniform(-1, 1, (sizes[i], s)), 3).tolist() for nm, s in ins},
             "c": np.round(rng.uniform(-1, 1, sizes[i]), 3).tolist()}
        if rng.random() < p_f:
            _add_f(rng, d, int(rng.integers(1, max_size + 1)), quadratic)
        discs.append(d)
    spec = {"n": n, "kind": kind, "nonlinear": bool(nonlinear), "L": float(L), "x_size": x_size, "disciplines": discs}
    _scale_couplings(spec)
    return spec


def _add_f(rng, d, fs, quadratic):
    ins = d["inputs"]
    d["f"] = [f"f{d['name'][1:]}", fs]
    d["B"] = {nm: np.round(rng.uniform(-1, 1, (fs, s)), 3).tolist() for nm, s in ins}
    d["d"] = np.round(rng.uniform(-1, 1, fs), 3).tolist()
    d["q"] = float(np.round(rng.uniform(0.2, 1.0), 3)) if quadratic else 0.0


def ensure_f(rng, spec, max_size=3):
    """Make sure at least one discipline has a non-coupling output."""
    if not any("f" in d for d in spec["disciplines"]):
        d = spec["disciplines"][int(rng.integers(len(spec["disciplines"])))]
        _add_f(rng, d, int(rng.integers(1, max_size + 1)), spec["nonlinear"])
    return spec


def add_convex_objective(rng, spec, q=1.0):
    """Append D_n reading x, every z_i and every y_i; ``f_n`` is scalar and strictly convex in its inputs."""
    n = spec["n"]
    sizes = {}
    for d in spec["disciplines"]:
        for nm, s in d["inputs"]:
            sizes[nm] = s
        sizes[d["y"][0]] = d["y"][1]
    names = ["x"] + sorted(k for k in sizes if k.startswith("z")) + [d["y"][0] for d in spec["disciplines"]]
    ins = [[nm, sizes[nm]] for nm in names]
    d = {"name": f"D{n}", "inputs": ins, "y": [f"y{n}", 1],
         "A": {nm: np.round(rng.uniform(-0.5, 0.5, (1, s)), 3).tolist() for nm, s in ins}, "c": [0.0],
         "f": [f"f{n}", 1], "B": {nm: np.round(rng.uniform(-1, 1, (1, s)), 3).tolist() for nm, s in ins},
         "d": [float(np.round(rng.uniform(-1, 1), 3))], "q": float(q)}
    # the coupling blocks of the new discipline do not enter the coupling matrix of the others (y_n is read by nobody)
    spec["disciplines"].append(d)
    spec["n"] = n + 1
    return spec


# --------------------------------------------------------------------------- discipline-level view
class Grouping:
    """Spec disciplines executed together: ``groups[g]`` is the list of spec indices run by gemseo discipline g."""

    def __init__(self, system, groups):
        self.system = system
        self.groups = [list(g) for g in groups]
        self.gid = {i: g for g, members in enumerate(self.groups) for i in members}
        self.edges = {(self.gid[a], self.gid[b]) for (a, b) in system.edges}
        n = len(self.groups)
        reach = np.eye(n, dtype=bool)
        for a, b in self.edges:
            reach[a, b] = True
        for k in range(n):
            reach |= reach[:, [k]] & reach[[k], :]
        self.reach = reach

    def inputs_of(self, g):
        out = []
        for i in self.groups[g]:
            for nm, _ in self.system.discs[i]["inputs"]:
                if nm not in out:
                    out.append(nm)
        return out

    def outputs_of(self, g):
        out = []
        for i in self.groups[g]:
            d = self.system.discs[i]
            out.append(d["y"][0])
            if "f" in d:
                out.append(d["f"][0])
        return out

    def sccs(self):
        n = len(self.groups)
        comps, seen = [], set()
        for i in range(n):
            if i in seen:
                continue
            comp = [j for j in range(n) if self.reach[i, j] and self.reach[j, i]]
            seen.update(comp)
            comps.append(comp)
        return comps

    def all_couplings(self):
        """Outputs of a discipline that are inputs of a discipline (possibly the same one)."""
        return sorted(self.system.read_couplings)

    def strong_couplings(self):
        out = set()
        for comp in self.sccs():
            cs = set(comp)
            for a, b in self.system.edges:
                ga, gb = self.gid[a], self.gid[b]
                if ga in cs and gb in cs and (len(comp) > 1 or ga == gb):
                    out.add(f"y{a}")
        return sorted(out)

    def strong_coupling_read_by_another_strong_group(self):
        """True when a coupling computed inside one strongly coupled group is read by a discipline of another one."""
        comps = [set(c) for c in self.sccs() if len(c) > 1 or (c[0], c[0]) in self.edges]
        where = {g: k for k, c in enumerate(comps) for g in c}
        for a, b in self.system.edges:
            ga, gb = self.gid[a], self.gid[b]
            if ga in where and gb in where and where[ga] != where[gb]:
                return True
        return False

    def has_strong_coupling(self):
        return bool(self.strong_couplings())

    def one_scc(self):
        comps = self.sccs()
        return len(comps) == 1 and (len(self.groups) > 1 or (0, 0) in self.edges)

    def topological_order(self):
        """Group indices in an execution order (only meaningful without strong couplings)."""
        n = len(self.groups)
        order, placed = [], set()
        while len(order) < n:
            for g in range(n):
                if g in placed:
                    continue
                if all(a in placed or a == g for (a, b) in self.edges if b == g):
                    order.append(g)
                    placed.add(g)
                    break
            else:  # cycle: fall back to the natural order
                order += [g for g in range(n) if g not in placed]
                break
        return order

    def functions_depend_on_a_coupling(self, function_names):
        """True when at least one of the outputs depends (structurally) on a coupling read by some discipline."""
        sysm = self.system
        reach = _reach(sysm)
        producers = [i for i, d in enumerate(sysm.discs)
                     if d["y"][0] in function_names or ("f" in d and d["f"][0] in function_names)]
        return any(reach[b, j] for (_a, b) in sysm.edges for j in producers)

    def data_flow_order(self):
        """Group indices such that every group comes after the groups it depends on (members of one strongly coupled
        component are adjacent): in the condensation, a group has strictly more ancestors than its predecessors."""
        n = len(self.groups)
        return sorted(range(n), key=lambda g: (int(self.reach[:, g].sum()), g))

    def influences(self, var_names, function_names):
        """Subset of ``var_names`` (independent inputs) on which at least one of the outputs depends structurally."""
        sysm = self.system
        n = len(sysm.discs)
        reach = np.eye(n, dtype=bool)
        for a, b in sysm.edges:
            reach[a, b] = True
        for k in range(n):
            reach |= reach[:, [k]] & reach[[k], :]
        producers = set()
        for i, d in enumerate(sysm.discs):
            if d["y"][0] in function_names or ("f" in d and d["f"][0] in function_names):
                producers.add(i)
        out = []
        for v in var_names:
            readers = [i for i, d in enumerate(sysm.discs) if v in [nm for nm, _ in d["inputs"]]]
            if any(reach[i, j] for i in readers for j in producers):
                out.append(v)
        return out


def _reach(system):
    n = len(system.discs)
    reach = np.eye(n, dtype=bool)
    for a, b in system.edges:
        reach[a, b] = True
    for k in range(n):
        reach |= reach[:, [k]] & reach[[k], :]
    return reach


def mergeable_pairs(system):
    """Pairs of spec disciplines (a < b) without any dependency path between them (merging keeps the graph class)."""
    n = len(system.discs)
    reach = np.eye(n, dtype=bool)
    for a, b in system.edges:
        reach[a, b] = True
    for k in range(n):
        reach |= reach[:, [k]] & reach[[k], :]
    return [(a, b) for a in range(n) for b in range(a + 1, n) if not reach[a, b] and not reach[b, a]]


def nonadjacent_pairs(system):
    """Pairs (a < b) with no direct edge between them (merging does not create a self-coupled discipline)."""
    n = len(system.discs)
    return [(a, b) for a in range(n) for b in range(a + 1, n)
            if (a, b) not in system.edges and (b, a) not in system.edges]


def make_grouped_disciplines(system, groups, order=None, sparse=False, defaults=None):
    """One gemseo discipline per group; a group of several spec disciplines has several output couplings."""
    from gemseo.core.discipline import Discipline

    defaults = defaults or {}
    grouping = Grouping(system, groups)

    class GroupDisc(Discipline):
        def __init__(self, g):
            super().__init__(name="G" + "_".join(str(i) for i in grouping.groups[g]))
            self.members = [system.discs[i] for i in grouping.groups[g]]
            self.n_run = 0
            self.n_lin = 0
            self.in_names = grouping.inputs_of(g)
            self.io.input_grammar.update_from_names(self.in_names)
            self.io.output_grammar.update_from_names(grouping.outputs_of(g))
            self.io.input_grammar.defaults = {
                nm: np.array(defaults.get(nm, np.zeros(system.sizes[nm])), dtype=float) for nm in self.in_names}

        def _run(self, input_data):
            self.n_run += 1
            out = {}
            for d in self.members:
                out.update(system.eval_disc(d, input_data))
            return out

        def _compute_jacobian(self, input_names=(), output_names=()):
            self.n_lin += 1
            data = {k: np.real(v) for k, v in self.io.data.items()}
            # an input that is also an output of the group (self-coupled group) must be read at its input value;
            # groups are built without internal edges, so io.data holds the input value for every input
            jac = {}
            for d in self.members:
                part = system.partials_disc(d, data)
                for o, ji in part.items():
                    jac[o] = {}
                    for nm in self.in_names:
                        jac[o][nm] = ji[nm] if nm in ji else np.zeros((system.sizes[o], system.sizes[nm]))
            if sparse:
                from scipy.sparse import csr_array

                jac = {o: {i: csr_array(J) for i, J in ji.items()} for o, ji in jac.items()}
            self.jac = jac

    order = list(order) if order is not None else list(range(len(grouping.groups)))
    return [GroupDisc(g) for g in order]
