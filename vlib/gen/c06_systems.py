"""Extra coupling graphs for C06, in the spec format of ``vlib.gen.systems`` (which is not edited).

``vlib.gen.systems.random_system`` draws its graph from a fixed list of kinds whose weakly coupled
parts are at most one discipline long.  C06 also needs purely feed-forward chains, heads/tails of
length 2-3 and self-coupled single disciplines with a tail (the corners where the listing order of
weakly coupled disciplines matters), so this module builds the same kind of spec from an explicit
edge set.  The numerical content (``A``, ``c``, ``B``, ``d``, ``q``, scaling of the coupling blocks
to the row-sum norm ``L``) is produced exactly as in ``random_system``.

Nothing here imports gemseo.
"""

from __future__ import annotations

import numpy as np

from vlib.gen import systems as gs

EXTRA_KINDS = ("chain", "long_tail", "long_head", "self_tail", "head_scc_tail", "diamond")


def extra_graph(rng, n, kind):
    """Return ``(n, edges)``; ``(j, i)`` in ``edges`` means that D_i reads y_j."""
    edges = set()
    if kind == "chain":  # purely feed-forward: no cycle at all
        for i in range(n - 1):
            edges.add((i, i + 1))
        if n >= 3 and rng.random() < 0.5:
            edges.add((0, n - 1))
    elif kind == "long_tail":  # 2-cycle followed by a feed-forward tail of length n-2
        n = max(n, 3)
        edges |= {(0, 1), (1, 0)}
        for i in range(1, n - 1):
            edges.add((i, i + 1))
    elif kind == "long_head":  # feed-forward head of length n-2 feeding a 2-cycle
        n = max(n, 3)
        for i in range(n - 2):
            edges.add((i, i + 1))
        edges |= {(n - 2, n - 1), (n - 1, n - 2)}
    elif kind == "self_tail":  # one self-coupled discipline, then a tail
        edges.add((0, 0))
        for i in range(n - 1):
            edges.add((i, i + 1))
    elif kind == "head_scc_tail":  # head -> 2-cycle -> tail -> tail
        n = max(n, 5)
        edges |= {(0, 1), (1, 2), (2, 1), (2, 3)}
        for i in range(3, n - 1):
            edges.add((i, i + 1))
    elif kind == "diamond":  # head feeds two branches that meet in a 2-cycle
        n = max(n, 5)
        edges |= {(0, 1), (0, 2), (1, 3), (2, 3), (3, 4), (4, 3)}
        for i in range(4, n - 1):
            edges.add((i, i + 1))
    else:
        raise ValueError(kind)
    return n, edges


def system_from_edges(rng, n, edges, kind, nonlinear, L, with_f=True, max_size=3, with_local=True):
    """Same construction as ``vlib.gen.systems.random_system`` for a given edge set."""
    x_size = int(rng.integers(1, max_size + 1))
    sizes = [int(rng.integers(1, max_size + 1)) for _ in range(n)]
    discs = []
    for i in range(n):
        preds = sorted(j for (j, t) in edges if t == i)
        ins = [("x", x_size)]
        if with_local and rng.random() < 0.6:
            ins.append((f"z{i}", int(rng.integers(1, max_size + 1))))
        ins += [(f"y{j}", sizes[j]) for j in preds]
        A = {nm: np.round(rng.uniform(-1, 1, (sizes[i], s)), 3) for nm, s in ins}
        d = {"name": f"D{i}", "inputs": [[nm, s] for nm, s in ins], "y": [f"y{i}", sizes[i]],
             "A": {k: v.tolist() for k, v in A.items()},
             "c": np.round(rng.uniform(-1, 1, sizes[i]), 3).tolist()}
        if with_f and rng.random() < 0.7:
            fs = int(rng.integers(1, max_size + 1))
            d["f"] = [f"f{i}", fs]
            d["B"] = {nm: np.round(rng.uniform(-1, 1, (fs, s)), 3).tolist() for nm, s in ins}
            d["d"] = np.round(rng.uniform(-1, 1, fs), 3).tolist()
            d["q"] = float(np.round(rng.uniform(0.2, 1.0), 3)) if nonlinear else 0.0
        discs.append(d)
    spec = {"n": n, "kind": kind, "nonlinear": bool(nonlinear), "L": float(L), "x_size": x_size,
            "disciplines": discs}
    gs._scale_couplings(spec)
    return spec


def extra_system(rng, kind=None, n=None, nonlinear=None, L=None):
    kind = kind or str(rng.choice(EXTRA_KINDS))
    n = int(n if n is not None else rng.integers(2, 6))
    nonlinear = bool(rng.random() < 0.5) if nonlinear is None else bool(nonlinear)
    L = float(L if L is not None else rng.choice([0.2, 0.5, 0.8]))
    n, edges = extra_graph(rng, n, kind)
    return system_from_edges(rng, n, edges, kind, nonlinear, L)


# --------------------------------------------------------------------------- graph facts used by the oracle
def weak_disciplines(system):
    """Indices of the disciplines that lie on no cycle (SCC of size one without a self loop)."""
    out = []
    for comp in system.sccs():
        if len(comp) == 1 and (comp[0], comp[0]) not in system.edges:
            out.append(comp[0])
    return sorted(out)


def all_in_cycles(system):
    """Domain of MDANewtonRaphson / MDAGSNewton: every discipline lies on a cycle and there is a coupling."""
    return not weak_disciplines(system) and bool(system.edges)


def edges_against_order(system, order):
    """Coupling edges ``j -> i`` between *different SCCs* whose consumer is listed before its producer."""
    pos = {d: k for k, d in enumerate(order)}
    comp_of = {}
    for c, comp in enumerate(system.sccs()):
        for d in comp:
            comp_of[d] = c
    return sorted((j, i) for (j, i) in system.edges if comp_of[j] != comp_of[i] and pos[i] < pos[j])


def flow_order(system, order):
    """Reorder ``order`` so that no inter-SCC coupling goes against the list, keeping the relative
    order of the disciplines inside each SCC and, as far as possible, between SCCs."""
    sccs = system.sccs()
    comp_of = {}
    for c, comp in enumerate(sccs):
        for d in comp:
            comp_of[d] = c
    preds = {c: set() for c in range(len(sccs))}
    for (j, i) in system.edges:
        if comp_of[j] != comp_of[i]:
            preds[comp_of[i]].add(comp_of[j])
    first_pos = {c: min(order.index(d) for d in comp) for c, comp in enumerate(sccs)}
    done, out = set(), []
    while len(done) < len(sccs):
        ready = [c for c in range(len(sccs)) if c not in done and preds[c] <= done]
        c = min(ready, key=lambda k: first_pos[k])
        done.add(c)
        out += [d for d in order if comp_of[d] == c]
    return out
