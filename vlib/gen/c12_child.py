"""Child process of the C12 check: run one scenario with a history backup and (optionally) die.

Usage: ``/venv/bin/python c12_child.py <config.json>`` with the environment of the shard
(``PYTHONPATH`` already points at the gemseo tree under test).  The configuration is the JSON
object built by ``checks/c12_crash_backup.py`` (see ``child_config`` there).

What the child does

* builds harness disciplines whose every ``_run`` appends one line to the side log
  (``open(..., "a")`` + ``flush`` + ``fsync``) *before* doing anything else;
* inside the ``crash_at``-th execution (counted over all harness disciplines of the scenario)
  it writes the census of open HDF5 file handles and of ``/proc/self/fd`` entries that point
  at the backup, the anchor functions entered so far, and calls ``os._exit(17)``;
* registers a store listener on the database *after* ``set_optimization_history_backup`` so that
  every store completed by the run is logged (point, names present at that point, new values);
* when the run completes, dumps the final database, the optimum and the counters to ``final``;
* ``runs`` (restarts only, never a crashing run): several independent restarts served by one interpreter, each
  with its own scenario, backup copy, side log and final dump (saves the ~4 s gemseo import per extra restart mode).

Nothing here decides anything: the oracle lives in the check module (parent side).
"""

from __future__ import annotations

import json
import os
import sys
import threading

EXIT_CRASH = 17


def _quiet():
    import logging
    import warnings

    logging.disable(logging.CRITICAL)
    warnings.filterwarnings("ignore")


class SideLog:
    def __init__(self, path):
        self.path = path

    def write(self, obj):
        with open(self.path, "a") as fh:
            fh.write(json.dumps(obj) + "\n")
            fh.flush()
            os.fsync(fh.fileno())


def census(backup_path):
    """Open HDF5 file objects of this process and descriptors that point at the backup."""
    import h5py

    ids = h5py.h5f.get_obj_ids(types=h5py.h5f.OBJ_FILE)
    names = []
    for i in ids:
        try:
            names.append(h5py.h5f.get_name(i).decode())
        except Exception:
            names.append("?")
    try:  # groups / datasets still referenced anywhere in the process (they keep the file open, too)
        n_all = len(h5py.h5f.get_obj_ids(h5py.h5f.OBJ_ALL, h5py.h5f.OBJ_DATASET | h5py.h5f.OBJ_GROUP))
    except Exception:
        n_all = -1
    fds = []
    real = os.path.realpath(backup_path)
    try:
        for fd in os.listdir("/proc/self/fd"):
            try:
                target = os.readlink(f"/proc/self/fd/{fd}")
            except OSError:
                continue
            if os.path.realpath(target.replace(" (deleted)", "")) == real:
                fds.append(int(fd))
    except OSError:
        fds = None
    return {"h5_files_open": len(ids), "h5_file_names": names, "h5_objects_open": int(n_all), "fds_on_backup": fds}


def build(cfg, log, state):
    """Return (scenario, harness disciplines)."""
    import numpy as np
    from numpy import array

    from gemseo.algos.design_space import DesignSpace
    from gemseo.core.discipline import Discipline
    from gemseo.scenarios.doe_scenario import DOEScenario
    from gemseo.scenarios.mdo_scenario import MDOScenario

    p = cfg["problem"]
    n = p["n"]
    c = array(p["c"], dtype=float)
    w = array(p["w"], dtype=float)
    A = array(p["A"], dtype=float)  # (m, n) constraint matrix
    b = array(p["b"], dtype=float)
    m = len(b)

    qt = float(p.get("quartic", 0.0))

    def fobj(x):
        return float(w @ (x - c) ** 2 + p["cross"] * x[0] * x[1] + qt * (x[0] ** 2 - x[1]) ** 2)

    def dfobj(x):
        df = 2 * w * (x - c)
        df[0] += p["cross"] * x[1] + 4 * qt * (x[0] ** 2 - x[1]) * x[0]
        df[1] += p["cross"] * x[0] - 2 * qt * (x[0] ** 2 - x[1])
        return df

    lock = threading.Lock()  # MDAJacobi executes the disciplines in threads

    def on_exec(name, inputs):
        with lock:
            _on_exec(name, inputs)

    def _on_exec(name, inputs):
        state["n_exec"] += 1
        k = state["n_exec"]
        log.write({"ev": "exec", "k": k, "disc": name, "in": {kk: np.asarray(v).tolist() for kk, v in inputs.items()}})
        if k == cfg.get("crash_at", 0):
            rec = {"ev": "census", "k": k}
            rec.update(census(cfg["backup"]))
            rec["anchors"] = sorted(state["reach"].reached) if state.get("reach") else []
            log.write(rec)
            os._exit(EXIT_CRASH)

    if p["kind"] == "single":

        class D(Discipline):
            def __init__(self):
                super().__init__("D")
                self.io.input_grammar.update_from_names(["x"])
                self.io.output_grammar.update_from_names(["f", "g", "o"])
                self.io.input_grammar.defaults = {"x": np.zeros(n)}

            def _run(self, input_data):
                x = np.array(input_data["x"], dtype=float)
                on_exec("D", {"x": x})
                return {"f": array([fobj(x)]), "g": A @ x - b, "o": array([float(x.sum())])}

            def _compute_jacobian(self, input_names=(), output_names=()):
                x = np.array(self.io.data["x"], dtype=float)
                self.jac = {"f": {"x": dfobj(x).reshape(1, n)}, "g": {"x": A.copy()}, "o": {"x": np.ones((1, n))}}

        discs = [D()]
        formulation = "DisciplinaryOpt"
    else:
        # two linearly coupled disciplines, both reading the whole design vector
        p1 = array(p["p1"], dtype=float)
        p2 = array(p["p2"], dtype=float)
        al, be = p["alpha"], p["beta"]

        class D1(Discipline):
            def __init__(self):
                super().__init__("D1")
                self.io.input_grammar.update_from_names(["x", "y2"])
                self.io.output_grammar.update_from_names(["y1", "g", "o"])
                self.io.input_grammar.defaults = {"x": np.zeros(n), "y2": np.zeros(1)}

            def _run(self, input_data):
                x = np.array(input_data["x"], dtype=float)
                y2 = np.array(input_data["y2"], dtype=float)
                on_exec("D1", {"x": x, "y2": y2})
                return {"y1": array([float(p1 @ x)]) + al * y2, "g": A @ x - b + p["gamma"] * y2[0],
                        "o": array([float(x.sum())]) + y2}

            def _compute_jacobian(self, input_names=(), output_names=()):
                self.jac = {"y1": {"x": p1.reshape(1, n), "y2": array([[al]])},
                            "g": {"x": A.copy(), "y2": np.full((m, 1), p["gamma"])},
                            "o": {"x": np.ones((1, n)), "y2": array([[1.0]])}}

        class D2(Discipline):
            def __init__(self):
                super().__init__("D2")
                self.io.input_grammar.update_from_names(["x", "y1"])
                self.io.output_grammar.update_from_names(["y2", "f"])
                self.io.input_grammar.defaults = {"x": np.zeros(n), "y1": np.zeros(1)}

            def _run(self, input_data):
                x = np.array(input_data["x"], dtype=float)
                y1 = np.array(input_data["y1"], dtype=float)
                on_exec("D2", {"x": x, "y1": y1})
                return {"y2": array([float(p2 @ x)]) + be * y1,
                        "f": array([fobj(x) + 0.5 * y1[0] ** 2])}

            def _compute_jacobian(self, input_names=(), output_names=()):
                x = np.array(self.io.data["x"], dtype=float)
                y1 = np.array(self.io.data["y1"], dtype=float)
                self.jac = {"y2": {"x": p2.reshape(1, n), "y1": array([[be]])},
                            "f": {"x": dfobj(x).reshape(1, n), "y1": array([[y1[0]]])}}

        discs = [D1(), D2()]
        formulation = "MDF"

    ds = DesignSpace()
    ds.add_variable("x", n, lower_bound=array(p["lb"], dtype=float), upper_bound=array(p["ub"], dtype=float),
                    value=array(p["x0"], dtype=float))
    cls = DOEScenario if cfg["scenario"] == "doe" else MDOScenario
    sc = cls(discs, "f", ds, formulation_name=formulation, **cfg.get("formulation_settings", {}))
    if p["constraints"]:
        sc.add_constraint("g", constraint_type="ineq")
    if cfg.get("observable"):
        sc.add_observable("o")
    if cfg.get("mda_scaling") and p["kind"] != "single":
        from gemseo.mda.base_mda import BaseMDA

        sc.formulation.mda.scaling = getattr(BaseMDA.ResidualScaling, cfg["mda_scaling"])
    return sc, discs


def dump_database(db):
    import numpy as np

    out = []
    for x, vals in db.items():
        out.append({"x": np.asarray(x.wrapped_array).tolist(),
                    "v": {k: {"shape": list(np.shape(v)), "data": np.asarray(v, dtype=float).ravel().tolist()}
                          for k, v in vals.items()}})
    return out


def main(argv):
    _quiet()
    cfg = json.loads(open(argv[0]).read())
    here = os.path.dirname(os.path.abspath(__file__))
    root = os.path.dirname(os.path.dirname(here))
    if root not in sys.path:
        sys.path.append(root)
    reach_monitor = None
    anchors = cfg.get("anchors") or []
    if anchors:
        from vlib import reach

        reach_monitor = reach.Reach(anchors)
        reach_monitor.start()
    # one interpreter can serve several independent restarts (each on its own copy of the backup, with its own
    # scenario, disciplines, side log and final dump): "runs" overrides backup/log/final/keep_counter per run
    for run in cfg.get("runs") or [{}]:
        run_once(dict(cfg, **run), reach_monitor)
    return 0


def run_once(cfg, reach_monitor):
    import numpy as np

    log = SideLog(cfg["log"])
    state = {"n_exec": 0, "reach": reach_monitor}
    log.write({"ev": "start", "pid": os.getpid(), "load": cfg["load"], "crash_at": cfg.get("crash_at", 0),
               "backup_exists": os.path.exists(cfg["backup"]), "keep_counter": cfg.get("keep_counter", True)})
    sc, discs = build(cfg, log, state)
    problem = sc.formulation.optimization_problem
    db = problem.database
    gran = cfg["granularity"]
    try:
        sc.set_optimization_history_backup(cfg["backup"], at_each_iteration=gran in ("iter", "both"),
                                           at_each_function_call=gran in ("call", "both"), load=cfg["load"])
    except BaseException as e:  # the backup could not be loaded by the scenario: reported, judged by the parent
        with open(cfg["final"], "w") as fh:
            fh.write(json.dumps({"n_exec": 0, "error": f"backup-setup: {type(e).__name__}: {e}", "database": [],
                                 "result": None, "anchors": sorted(state["reach"].reached) if state["reach"] else []}))
        log.write({"ev": "done", "n_exec": 0, "error": "backup-setup"})
        return
    log.write({"ev": "loaded", "n": len(db), "counter": problem.evaluation_counter.current})

    def on_store(x_vect):
        x = np.asarray(x_vect)
        vals = db.get(x) or {}
        log.write({"ev": "store", "x": x.tolist(), "names": sorted(vals),
                   "v": {k: np.asarray(v, dtype=float).ravel().tolist() for k, v in vals.items()}})

    db.add_store_listener(on_store)
    settings = dict(cfg["algo_settings"])
    if cfg["load"] and cfg.get("keep_counter", True):
        settings["reset_iteration_counters"] = False  # else: the driver's default (reset)
    err = None
    try:
        sc.execute(algo_name=cfg["algo"], **settings)
    except BaseException as e:  # reported to the parent, judged there
        err = f"{type(e).__name__}: {e}"
    res = sc.optimization_result if err is None else None
    final = {
        "n_exec": state["n_exec"],
        "error": err,
        "database": dump_database(db),
        "census_end": census(cfg["backup"]),
        "anchors": sorted(state["reach"].reached) if state["reach"] else [],
        "anchors_unresolved": sorted(state["reach"].unresolved) if state["reach"] else [],
        "counter_end": problem.evaluation_counter.current,
        "counter_max": problem.evaluation_counter.maximum,
        "result": None if res is None else {
            "f_opt": None if res.f_opt is None else float(res.f_opt),
            "x_opt": None if res.x_opt is None else np.asarray(res.x_opt).tolist(),
            "is_feasible": bool(res.is_feasible),
            "status": res.status, "message": str(res.message)[:200],
            "n_obj_call": res.n_obj_call,
        },
        "ineq_tolerance": float(problem.tolerances.inequality),
    }
    with open(cfg["final"], "w") as fh:
        fh.write(json.dumps(final))
        fh.flush()
        os.fsync(fh.fileno())
    log.write({"ev": "done", "n_exec": state["n_exec"]})


if __name__ == "__main__":
    sys.exit(main(sys.argv[1:]))
