"""Dispatcher-side and shard-side machinery common to all checks.

A check module (``checks/cNN_*.py``) defines::

    PID, LEVEL, RULE, ASSUMPTIONS
    ANCHORS            # "module:Qual.name" strings; deciding functions that must be entered
    MIN_COUNTERS       # {"quick": {counter: minimum}, "thorough": {...}}; below => inconclusive
    def shards(tier, seed) -> list[dict]      # JSON-serialisable shard specs
    def run_shard(spec, rep) -> None          # drives the real code, reports to ``rep``
    def replay(case, rep) -> None             # re-runs one stored witness case

The dispatcher runs every shard in its own interpreter (``subprocess.run(timeout=)``),
merges the reports, matches violation signatures against ``known_findings.json``,
writes ``evidence/<PID>.json`` and prints the verdict lines.
"""

from __future__ import annotations

import argparse
import concurrent.futures as cf
import hashlib
import importlib
import json
import os
import re
import shutil
import subprocess
import sys
import tempfile
import time
import traceback
from pathlib import Path

from vlib import bootstrap

ROOT = bootstrap.ROOT
EXIT_HELD, EXIT_VIOLATED, EXIT_INCONCLUSIVE = 0, 1, 3

CHECK_MODULES = {
    "C01": "checks.c01_problem_eval",
    "C02": "checks.c02_design_space",
    "C03": "checks.c03_budget",
    "C04": "checks.c04_optimum",
    "C05": "checks.c05_cache",
    "C06": "checks.c06_mda_fixed_point",
    "C07": "checks.c07_coupled_derivatives",
    "C08": "checks.c08_sequence",
    "C09": "checks.c09_chain_rule",
    "C10": "checks.c10_function_algebra",
    "C11": "checks.c11_persistence",
    "C12": "checks.c12_crash_backup",
    "C13": "checks.c13_parallel",
    "C14": "checks.c14_doe_samples",
    "C15": "checks.c15_grammars",
    "C16": "checks.c16_derivative_approx",
    "C17": "checks.c17_formulations",
    "C18": "checks.c18_surrogates",
    "C19": "checks.c19_distributions",
    "C20": "checks.c20_serialization",
}


# --------------------------------------------------------------------------- helpers
def jsonable(obj, depth=0):
    """Best-effort conversion of numpy / gemseo values to JSON-serialisable ones."""
    try:
        import numpy as np
    except Exception:  # pragma: no cover
        np = None
    if depth > 8:
        return repr(obj)[:200]
    if obj is None or isinstance(obj, (bool, int, str)):
        return obj
    if isinstance(obj, float):
        if obj != obj or obj in (float("inf"), float("-inf")):
            return repr(obj)
        return obj
    if isinstance(obj, complex):
        return {"re": obj.real, "im": obj.imag}
    if np is not None:
        if isinstance(obj, np.ndarray):
            if obj.size > 400:
                return {"ndarray_shape": list(obj.shape), "head": jsonable(obj.ravel()[:20].tolist(), depth + 1)}
            return jsonable(obj.tolist(), depth + 1)
        if isinstance(obj, np.generic):
            return jsonable(obj.item(), depth + 1)
    if isinstance(obj, dict):
        return {str(k): jsonable(v, depth + 1) for k, v in obj.items()}
    if isinstance(obj, (list, tuple, set, frozenset)):
        return [jsonable(v, depth + 1) for v in obj]
    if hasattr(obj, "toarray"):
        try:
            return jsonable(obj.toarray(), depth + 1)
        except Exception:
            pass
    return repr(obj)[:300]


def sig_hash(obj) -> str:
    return hashlib.blake2b(
        json.dumps(jsonable(obj), sort_keys=True, default=repr).encode(), digest_size=8
    ).hexdigest()


def subseed(seed: int, *parts) -> int:
    h = hashlib.blake2b(repr((seed, parts)).encode(), digest_size=6).hexdigest()
    return int(h, 16)


# --------------------------------------------------------------------------- reporter
class Reporter:
    """Collects what the monitors observed inside one shard process."""

    MAX_SAMPLES = 4
    MAX_WITNESS_PER_SIG = 2

    def __init__(self, pid: str, spec: dict | None = None):
        self.pid = pid
        self.spec = spec or {}
        self.evaluations = 0
        self.sigs: set[str] = set()
        self.counters: dict[str, int] = {}
        self.samples: list = []
        self.violations: list[dict] = []
        self._viol_per_sig: dict[str, int] = {}
        self.violation_counts: dict[str, int] = {}
        self.observations: dict[str, dict] = {}
        self.inconclusive_reasons: list[str] = []
        self.anchors_reached: set[str] = set()
        self.t0 = time.monotonic()
        self.deadline = self.t0 + float(self.spec.get("budget_s", 1e9))

    # -- coverage -----------------------------------------------------------
    def case(self, signature=None, nontrivial: bool = True) -> None:
        """One generated case was executed and judged by the oracle."""
        self.evaluations += 1
        if nontrivial and signature is not None:
            self.sigs.add(sig_hash(signature))

    def count(self, name: str, n: int = 1) -> None:
        self.counters[name] = self.counters.get(name, 0) + n

    def sample(self, obj) -> None:
        if len(self.samples) < self.MAX_SAMPLES:
            self.samples.append(jsonable(obj))

    def time_left(self) -> float:
        return self.deadline - time.monotonic()

    # -- verdict material ---------------------------------------------------
    def violation(self, signature: str, clause: str, case, observed=None, expected=None, msg: str = "") -> None:
        """An oracle failed on the real code.

        ``signature`` names the *mechanism* (never a seed or value); it is what
        ``known_findings.json`` is matched against.
        """
        self.violation_counts[signature] = self.violation_counts.get(signature, 0) + 1
        k = self._viol_per_sig.get(signature, 0)
        if k >= self.MAX_WITNESS_PER_SIG:
            return
        self._viol_per_sig[signature] = k + 1
        self.violations.append({
            "property": self.pid,
            "signature": signature,
            "clause": clause,
            "case": jsonable(case),
            "observed": jsonable(observed),
            "expected": jsonable(expected),
            "message": msg,
        })

    def observe(self, name: str, example=None) -> None:
        """Something noteworthy that is *not* part of the verdict (outside the statement)."""
        o = self.observations.setdefault(name, {"count": 0, "examples": []})
        o["count"] += 1
        if example is not None and len(o["examples"]) < 2:
            o["examples"].append(jsonable(example))

    def inconclusive(self, reason: str) -> None:
        if reason not in self.inconclusive_reasons and len(self.inconclusive_reasons) < 20:
            self.inconclusive_reasons.append(reason)

    def dump(self) -> dict:
        return {
            "evaluations": self.evaluations,
            "sigs": sorted(self.sigs),
            "counters": self.counters,
            "samples": self.samples,
            "violations": self.violations,
            "violation_counts": self.violation_counts,
            "observations": self.observations,
            "inconclusive": self.inconclusive_reasons,
            "anchors_reached": sorted(self.anchors_reached),
            "wall_s": time.monotonic() - self.t0,
        }


# --------------------------------------------------------------------------- shard side
def shard_main(argv=None) -> int:
    """Entry point of a shard process: ``python -m vlib.harness --shard PID spec.json out.json``."""
    pid, spec_path, out_path = argv
    bootstrap.ensure()
    spec = json.loads(Path(spec_path).read_text())
    rep = Reporter(pid, spec)
    try:
        mod = importlib.import_module(CHECK_MODULES[pid])
        from vlib import reach

        monitor = reach.Reach(getattr(mod, "ANCHORS", []))
        monitor.start()
        try:
            mod.run_shard(spec, rep)
        finally:
            monitor.stop()
        rep.anchors_reached = set(monitor.reached)
        rep.counters["anchors_unresolved"] = len(monitor.unresolved)
        if monitor.unresolved:
            rep.observe("anchor-unresolved", sorted(monitor.unresolved))
    except BaseException:  # harness trouble is inconclusive, never a verdict
        rep.inconclusive("harness-error: " + traceback.format_exc()[-1500:])
    Path(out_path).write_text(json.dumps(rep.dump()))
    return 0


# --------------------------------------------------------------------------- dispatcher
def load_known(pid: str) -> tuple[dict, dict]:
    path = ROOT / "known_findings.json"
    known, fixed = {}, {}
    if path.exists():
        for e in json.loads(path.read_text()).get("findings", []):
            if e.get("property") != pid:
                continue
            (known if e.get("status") == "known" else fixed)[e["signature"]] = e
    return known, fixed


def _slug(s: str) -> str:
    return re.sub(r"[^A-Za-z0-9_.=-]+", "_", s)[:80]


def run_check(pid: str, tier: str, seed: int, jobs: int) -> int:
    t0 = time.monotonic()
    bootstrap.install_deps()
    bootstrap.ensure()
    mod = importlib.import_module(CHECK_MODULES[pid])
    specs = mod.shards(tier, seed)
    timeout = getattr(mod, "SHARD_TIMEOUT", {"quick": 600, "thorough": 3000})[tier]
    tmp = Path(tempfile.mkdtemp(prefix=f"verif_{pid}_"))
    env = bootstrap.child_env()
    env["VERIF_TIER"] = tier
    env["VERIF_SEED"] = str(seed)
    env["TMPDIR"] = str(tmp)
    results, dead = [], []

    def run_one(i, spec):
        sp, op = tmp / f"spec{i}.json", tmp / f"out{i}.json"
        sdir = tmp / f"shard{i}"
        sdir.mkdir()
        spec = dict(spec, shard=i, tier=tier, scratch=str(sdir))
        sp.write_text(json.dumps(spec))
        cmd = [bootstrap.PY, "-X", "faulthandler", "-m", "vlib.harness", "--shard", pid, str(sp), str(op)]
        try:
            res = subprocess.run(cmd, env=dict(env, TMPDIR=str(sdir)), cwd=str(sdir),
                                 timeout=timeout, capture_output=True, text=True)
        except subprocess.TimeoutExpired:
            return i, None, f"shard {i} hit the wall-clock watchdog ({timeout}s)"
        if not op.exists():
            return i, None, f"shard {i} died rc={res.returncode}: {res.stderr[-800:]}"
        return i, json.loads(op.read_text()), None

    try:
        with cf.ThreadPoolExecutor(max_workers=jobs) as ex:
            for i, out, err in ex.map(lambda a: run_one(*a), list(enumerate(specs))):
                if out is None:
                    dead.append(err)
                else:
                    results.append(out)
    finally:
        shutil.rmtree(tmp, ignore_errors=True)

    return finish(mod, pid, tier, seed, results, dead, time.monotonic() - t0, len(specs))


def finish(mod, pid, tier, seed, results, dead, wall, n_shards) -> int:
    evaluations = sum(r["evaluations"] for r in results)
    sigs = set()
    counters: dict[str, int] = {}
    samples, violations, observations = [], [], {}
    viol_counts: dict[str, int] = {}
    reasons = list(dead)
    anchors = set()
    for r in results:
        sigs.update(r["sigs"])
        for k, v in r["counters"].items():
            counters[k] = counters.get(k, 0) + v
        if len(samples) < 5:
            samples.extend(r["samples"][: 5 - len(samples)])
        violations.extend(r["violations"])
        for k, v in r["violation_counts"].items():
            viol_counts[k] = viol_counts.get(k, 0) + v
        for k, v in r["observations"].items():
            o = observations.setdefault(k, {"count": 0, "examples": []})
            o["count"] += v["count"]
            if len(o["examples"]) < 2:
                o["examples"].extend(v["examples"][: 2 - len(o["examples"])])
        reasons.extend(r["inconclusive"])
        anchors.update(r["anchors_reached"])

    known, fixed = load_known(pid)
    lines = []
    new_sigs, known_seen = {}, {}
    rdir = ROOT / "replay" / pid
    for v in violations:
        s = v["signature"]
        if s in known:
            known_seen.setdefault(s, v)
        else:
            new_sigs.setdefault(s, v)
    if new_sigs or known_seen:
        rdir.mkdir(parents=True, exist_ok=True)
    for s, v in known_seen.items():
        p = rdir / f"known-{_slug(s)}.json"
        p.write_text(json.dumps(dict(v, seed=seed, tier=tier), indent=1))
        lines.append(f"KNOWN-FINDING: property={pid} {s} :: {known[s].get('what', '')} (x{viol_counts.get(s, 0)})")
    for s, v in new_sigs.items():
        p = rdir / f"{_slug(s)}-{sig_hash(v['case'])}.json"
        p.write_text(json.dumps(dict(v, seed=seed, tier=tier), indent=1))
        extra = " (regression of a finding recorded as fixed)" if s in fixed else ""
        lines.append(f"VIOLATION property={pid} replay={p.relative_to(ROOT)} signature={s} clause={v['clause']} (x{viol_counts.get(s, 0)}){extra}")

    # monitors that must have fired
    mins = getattr(mod, "MIN_COUNTERS", {}).get(tier, {})
    for k, m in mins.items():
        if counters.get(k, 0) < m:
            reasons.append(f"monitor '{k}' observed {counters.get(k, 0)} < required {m}")
    wanted = list(getattr(mod, "ANCHORS", []))
    missing = [a for a in wanted if a not in anchors]
    if missing and results:
        reasons.append("anchor functions never entered: " + ", ".join(missing))
    if len(sigs) < 2:
        reasons.append(f"only {len(sigs)} distinct non-trivial cases")

    level = mod.LEVEL
    coverage = {
        "evaluations": evaluations,
        "distinct_nontrivial": len(sigs),
        "rule": mod.RULE,
        "samples": samples or [{"note": "no sample recorded"}],
        "monitor_counters": counters,
        "anchors_reached": sorted(anchors),
        "anchors_missing": missing,
        "observations_outside_statement": observations,
        "violation_signatures": viol_counts,
        "known_findings_seen": sorted(known_seen),
        "shards": n_shards,
        "shards_dead": len(dead),
        "inconclusive_reasons": reasons,
    }
    extra = getattr(mod, "coverage_extra", None)
    if extra:
        coverage.update(extra(tier, counters))
    verdict = "violated" if new_sigs else ("inconclusive" if reasons else "held")
    coverage["verdict"] = verdict
    evidence = {
        "property_id": pid,
        "tier": tier,
        "seed": seed,
        "level": level,
        "coverage": coverage,
        "assumptions": list(getattr(mod, "ASSUMPTIONS", [])),
        "wall_s": round(wall, 2),
        "violations": len(new_sigs),
    }
    text = json.dumps(evidence, indent=1, default=repr)
    if os.environ.get("VERIF_SRC"):
        # a run against a scratch copy of the sources (deliberate break, seeded change, proposed repair):
        # never overwrite the evidence of /repo itself
        edir = ROOT / "evidence" / "_scratch"
        edir.mkdir(parents=True, exist_ok=True)
        (edir / f"{pid}.json").write_text(text)
    else:
        (ROOT / "evidence").mkdir(exist_ok=True)
        (ROOT / "evidence" / f"{pid}.json").write_text(text)
        # a per-tier copy, so that the last thorough run stays visible after a later quick run
        (ROOT / "evidence" / tier).mkdir(exist_ok=True)
        (ROOT / "evidence" / tier / f"{pid}.json").write_text(text)
    _validate(evidence)

    for ln in lines:
        print(ln)
    summary = (f"{pid} tier={tier} seed={seed} verdict={verdict} evaluations={evaluations} "
               f"distinct_nontrivial={len(sigs)} wall={wall:.1f}s counters="
               + json.dumps({k: counters[k] for k in sorted(counters)}))
    print(summary)
    for r in reasons[:10]:
        print(f"INCONCLUSIVE property={pid} reason={r}")
    if new_sigs:
        return EXIT_VIOLATED
    if reasons:
        return EXIT_INCONCLUSIVE
    return EXIT_HELD


def _validate(evidence: dict) -> None:
    try:
        import jsonschema

        schema = json.loads(Path("/root/.vp/EVIDENCE.schema.json").read_text())
        jsonschema.validate(evidence, schema)
    except FileNotFoundError:
        pass
    except ImportError:
        pass
    except Exception as e:  # schema violation: be loud, evidence would be discarded
        print(f"EVIDENCE-SCHEMA-ERROR {type(e).__name__}: {str(e)[:300]}", file=sys.stderr)


def run_replay(pid: str, path: str) -> int:
    bootstrap.ensure()
    mod = importlib.import_module(CHECK_MODULES[pid])
    w = json.loads(Path(path).read_text())
    rep = Reporter(pid, {"replay": True, "scratch": tempfile.mkdtemp(prefix="verif_replay_")})
    try:
        mod.replay(w["case"], rep)
    finally:
        shutil.rmtree(rep.spec["scratch"], ignore_errors=True)
    known, _ = load_known(pid)
    rc = 0
    for v in rep.violations:
        tag = "KNOWN-FINDING" if v["signature"] in known else "VIOLATION"
        print(f"{tag} property={pid} signature={v['signature']} clause={v['clause']}")
        print("  message :", v["message"])
        print("  observed:", json.dumps(v["observed"])[:1500])
        print("  expected:", json.dumps(v["expected"])[:1500])
        if tag == "VIOLATION":
            rc = 1
    if not rep.violations:
        print(f"replay of {path}: no violation reproduced")
    return rc


def main(argv=None) -> int:
    argv = list(sys.argv[1:] if argv is None else argv)
    if argv and argv[0] == "--shard":
        return shard_main(argv[1:])
    ap = argparse.ArgumentParser(prog="check")
    ap.add_argument("pid")
    ap.add_argument("--tier", default=os.environ.get("VERIF_TIER") or "quick", choices=["quick", "thorough"])
    ap.add_argument("--seed", type=int, default=int(os.environ.get("VERIF_SEED") or 0))
    ap.add_argument("--jobs", type=int, default=int(os.environ.get("VERIF_JOBS") or 16))
    ap.add_argument("--replay")
    a = ap.parse_args(argv)
    pid = a.pid.upper()
    if a.replay:
        return run_replay(pid, a.replay)
    return run_check(pid, a.tier, a.seed, a.jobs)


if __name__ == "__main__":
    sys.exit(main())
