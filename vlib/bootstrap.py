"""Environment bootstrap shared by the dispatcher and every shard process.

* puts the gemseo sources to monitor first on ``sys.path`` (``/repo/src`` or ``$VERIF_SRC``),
* installs the offline third-party helpers (icontract, jsonschema) into the git-ignored
  ``/verif/.deps`` when they are missing (fresh restore) and puts them on ``sys.path``,
* silences gemseo's logging and warnings (observations are taken by monitors, not logs).
"""

from __future__ import annotations

import fcntl
import os
import subprocess
import sys
from pathlib import Path

ROOT = Path(__file__).resolve().parent.parent
DEPS = ROOT / ".deps"
WHEELS = "/opt/veriftools/wheels"
PY = "/venv/bin/python"
PACKAGES = [
    "icontract",
    "asttokens",
    "six",
    "typing_extensions",
    "jsonschema",
    "attrs",
    "referencing",
    "rpds_py",
    "jsonschema_specifications",
]


def repo_src() -> str:
    return os.environ.get("VERIF_SRC") or "/repo/src"


def install_deps() -> None:
    """Install the helper wheels into /verif/.deps (idempotent, offline, locked)."""
    marker = DEPS / ".ok"
    if marker.exists():
        return
    DEPS.mkdir(exist_ok=True)
    with open(ROOT / ".deps.lock", "w") as lock:
        fcntl.flock(lock, fcntl.LOCK_EX)
        if marker.exists():
            return
        cmd = [
            PY, "-m", "pip", "install", "--quiet", "--no-index", "--no-deps",
            "--find-links", WHEELS, "--target", str(DEPS), "--upgrade", *PACKAGES,
        ]
        env = dict(os.environ, PIP_NO_INDEX="1", PIP_DISABLE_PIP_VERSION_CHECK="1")
        res = subprocess.run(cmd, env=env, capture_output=True, text=True)
        if res.returncode != 0:
            sys.stderr.write(res.stdout + res.stderr)
            raise SystemExit("bootstrap: could not install helper wheels offline")
        marker.write_text("ok\n")


def child_env() -> dict:
    env = dict(os.environ)
    env["PYTHONPATH"] = os.pathsep.join([repo_src(), str(ROOT), str(DEPS)])
    env["PYTHONHASHSEED"] = "0"
    env["GEMSEO_VERIF"] = "1"
    env.setdefault("OMP_NUM_THREADS", "1")
    env.setdefault("OPENBLAS_NUM_THREADS", "1")
    env.setdefault("MKL_NUM_THREADS", "1")
    env["PYTHONDONTWRITEBYTECODE"] = "1"
    env["MPLBACKEND"] = "Agg"
    return env


def ensure() -> None:
    """Make the current process ready to import gemseo (from the tree under test) and helpers."""
    install_deps()
    for p in (str(DEPS), str(ROOT), repo_src()):
        if p in sys.path:
            sys.path.remove(p)
    sys.path.insert(0, str(DEPS))
    sys.path.insert(0, str(ROOT))
    sys.path.insert(0, repo_src())
    quiet()


def quiet() -> None:
    import logging
    import warnings

    logging.disable(logging.CRITICAL)
    warnings.filterwarnings("ignore")


if __name__ == "__main__":
    install_deps()
    print("deps ok:", DEPS)
