"""Independent reference for C04: which reported optimum is acceptable for a recorded history.

Pure numpy; imports nothing from gemseo (in particular not ``gemseo.algos.optimization_history``
nor the constraint collection it delegates to).

A *history* is a list of points in recording order; each point is a dict::

    {"x": 1-d array, "f": None | float | 1-d array          # standardised objective (already "-f" when maximising)
     "c": {name: None | float | 1-d array}, "g": {name: None | array}}   # constraint values / gradients

``constraints`` is the list ``[(name, "ineq"|"eq"), ...]`` in *listing order* (the order must not matter
for any decision taken here).

The rule (property C04, read literally):

* a point is *feasible* iff every constraint has a recorded value and ``g <= tol_ineq`` and
  ``|h| <= tol_eq`` component-wise (NaN compares false, hence infeasible);
* if a feasible point exists, the reported point must be a feasible recorded point and no feasible recorded
  point with a usable (recorded, non-NaN) objective may have a strictly smaller standardised objective
  (Euclidean norm for vector objectives).  A missing or NaN objective is *not an objective value*: it ranks
  after every value (as +inf does), so a feasible point without a usable objective is acceptable only when no
  feasible point has one - every finite value is strictly smaller than "nothing comparable";
* otherwise the reported point must be a recorded point, flagged infeasible, of minimal violation measure
  ``||max(g-tol,0)||^2 + ||max(|h|-tol,0)||^2`` (NaN => +inf).  A point with missing constraint values has
  no defined measure; every term of the measure is non-negative, so the sum over its *recorded* values is a
  lower bound of whatever its measure is.  The only demand made for such histories is therefore: the lower
  bound of the reported point is not strictly larger than the exact measure of a fully evaluated point.
"""

from __future__ import annotations

import math

import numpy as np

INEQ, EQ = "ineq", "eq"
RTOL_MEASURE = 1e-9  # the measure is a sum of squares: two summation orders differ by a few ulps


def _arr(v):
    return np.atleast_1d(np.asarray(v, dtype=float))


def satisfied(ctype: str, value, tol_ineq: float, tol_eq: float) -> bool:
    v = _arr(value)
    if ctype == EQ:
        return bool(np.all(np.abs(v) <= tol_eq))
    return bool(np.all(v <= tol_ineq))


def violation_term(ctype: str, value, tol_ineq: float, tol_eq: float) -> float:
    """Contribution of one recorded constraint value to the measure (inf if it contains NaN and is unsatisfied)."""
    v = _arr(value)
    if np.isnan(v).any():
        return math.inf
    if ctype == EQ:
        excess = np.abs(v) - tol_eq
    else:
        excess = v - tol_ineq
    excess = excess[excess > 0.0]
    return float(np.sum(excess * excess))


def point_status(point, constraints, tol_ineq, tol_eq):
    """Return (feasible, fully_evaluated, measure_lower_bound)."""
    full = True
    all_ok = True
    measure = 0.0
    for name, ctype in constraints:
        value = point["c"].get(name)
        if value is None:
            full = False
            continue
        if not satisfied(ctype, value, tol_ineq, tol_eq):
            all_ok = False
            measure += violation_term(ctype, value, tol_ineq, tol_eq)
    return (full and all_ok), full, measure


def objective_key(f):
    """Scalar used to rank a point, or None when the point has no usable objective value."""
    if f is None:
        return None
    v = _arr(f)
    if np.isnan(v).any():
        return None
    if v.size > 1:
        return float(np.linalg.norm(v))
    return float(v[0])


class Analysis:
    """What the reference derives from a history."""

    def __init__(self, history, constraints, tol_ineq, tol_eq):
        self.n = len(history)
        st = [point_status(p, constraints, tol_ineq, tol_eq) for p in history]
        self.feasible = [s[0] for s in st]
        self.full = [s[1] for s in st]
        self.measure_lb = [s[2] for s in st]
        self.keys = [objective_key(p["f"]) for p in history]
        self.any_feasible = any(self.feasible)
        self.all_full = all(self.full)
        self.usable = [i for i in range(self.n) if self.feasible[i] and self.keys[i] is not None]
        self.incomparable = set()
        self.vector_objective = any(p["f"] is not None and _arr(p["f"]).size > 1 for p in history)
        if self.any_feasible:
            if self.usable:
                best = min(self.keys[i] for i in self.usable)
                slack = 1e-12 * abs(best) if self.vector_objective else 0.0
                self.best_key = best
                self.acceptable = {i for i in self.usable if self.keys[i] <= best + slack}
                # feasible points without a usable objective (missing / NaN) rank after every value: not acceptable
                self.incomparable = {i for i in range(self.n) if self.feasible[i] and self.keys[i] is None}
                self.tolerated = set()
            else:
                self.best_key = None
                self.acceptable = {i for i in range(self.n) if self.feasible[i]}
                self.tolerated = set()
        else:
            full_measures = [self.measure_lb[i] for i in range(self.n) if self.full[i]]
            self.full_min = min(full_measures) if full_measures else math.inf
            bound = self.full_min * (1 + RTOL_MEASURE) if math.isfinite(self.full_min) else math.inf
            self.acceptable = {i for i in range(self.n) if self.measure_lb[i] <= bound}
            self.tolerated = set()
            self.best_key = None


def find_point(history, x):
    """Index of the recorded point *bitwise* equal to ``x``, or None.

    Recorded points are identified by the bit pattern of their design vector (as the database keys are):
    ``[-0.0]`` and ``[0.0]`` are two distinct recorded points although they compare equal by value.
    """
    if x is None:
        return None
    x = np.ascontiguousarray(np.asarray(x, dtype=float))
    xb = x.tobytes()
    for i, p in enumerate(history):
        px = np.ascontiguousarray(np.asarray(p["x"], dtype=float))
        if px.shape == x.shape and px.tobytes() == xb:
            return i
    return None


def value_twins(history):
    """Pairs (i, j), i < j, of recorded points that are equal by value but bitwise distinct."""
    out = []
    for j in range(len(history)):
        for i in range(j):
            a, b = np.asarray(history[i]["x"], dtype=float), np.asarray(history[j]["x"], dtype=float)
            if a.shape == b.shape and np.array_equal(a, b) and a.tobytes() != b.tobytes():
                out.append((i, j))
    return out


def same_value(reported, recorded) -> bool:
    """Reported value equals the recorded one (None <-> missing, NaN equals NaN, shapes up to atleast_1d)."""
    if recorded is None:
        return reported is None
    if reported is None:
        return False
    a, b = np.asarray(reported, dtype=float), np.asarray(recorded, dtype=float)
    if a.size != b.size:
        return False
    if a.ndim != b.ndim:
        a, b = a.ravel(), b.ravel()
    elif a.shape != b.shape:
        return False
    return bool(np.array_equal(a, b, equal_nan=True))


def same_objective(reported, recorded, sign=1.0) -> bool:
    """The reported objective is the one recorded at the point (vector objectives: the vector or its norm)."""
    if recorded is None:
        return reported is None
    if reported is None:
        return False
    rec = _arr(recorded) * sign
    rep = _arr(reported)
    if rec.size == 1:
        return rep.size == 1 and bool(np.array_equal(rep, rec, equal_nan=True))
    if rep.size == rec.size:
        return bool(np.array_equal(rep, rec, equal_nan=True))
    if rep.size == 1:
        nr = np.linalg.norm(_arr(recorded)) * sign
        return bool(np.isclose(rep[0], nr, rtol=1e-12, atol=0.0, equal_nan=True))
    return False


# --------------------------------------------------------------------------- Pareto
def dominates(a, b) -> bool:
    """a dominates b: a <= b component-wise and a < b somewhere (NaN never dominates, is never dominated)."""
    a, b = _arr(a), _arr(b)
    if np.isnan(a).any() or np.isnan(b).any():
        return False
    return bool(np.all(a <= b) and np.any(a < b))


def non_dominated_feasible(history, feasible):
    """Indices of feasible points with a complete objective that no other such point dominates."""
    cand = [i for i, p in enumerate(history)
            if feasible[i] and p["f"] is not None and not np.isnan(_arr(p["f"])).any()]
    return [i for i in cand if not any(dominates(history[j]["f"], history[i]["f"]) for j in cand if j != i)]
