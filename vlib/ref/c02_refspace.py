"""RefSpace — an independent reference model of a design space (C02, monitor M4).

An ordered list of variables ``(name, size, type, lb[], ub[], value | None)`` plus the
"normalise integer variables" switch.  Every view (names, sizes, index ranges, flat bounds,
flat current value, normalisation policy) is *derived* from that list each time it is asked
for, so there is nothing to keep coherent.  It executes the same edit operations as
``gemseo.algos.design_space.DesignSpace`` (raising :class:`RefError` for the documented
errors) and gives the closed forms of the (un)normalisation maps.

Deliberately does not import gemseo.
"""

from __future__ import annotations

import copy

import numpy as np

EPS = float(np.finfo(float).eps)
BOUND_TOL = 100.0 * EPS  # the documented tolerance of membership tests
FLOAT, INTEGER = "float", "integer"


class RefError(Exception):
    """A documented error of the modelled operation (``kind`` = name of the expected exception family)."""

    def __init__(self, kind: str, why: str = ""):
        super().__init__(f"{kind}: {why}")
        self.kind = kind
        self.why = why


class RefVar:
    __slots__ = ("name", "size", "type", "lb", "ub", "value")

    def __init__(self, name, size, type_, lb, ub, value=None):
        self.name = name
        self.size = int(size)
        self.type = str(type_)
        self.lb = _full(lb, self.size)
        self.ub = _full(ub, self.size)
        self.value = None if value is None else np.array(value)

    def describe(self):
        return {"name": self.name, "size": self.size, "type": self.type, "lb": self.lb.tolist(),
                "ub": self.ub.tolist(), "value": None if self.value is None else self.value.tolist()}


def _full(bound, size):
    b = np.atleast_1d(np.asarray(bound, dtype=float))
    if b.size == 1 and size > 1:
        b = np.full(size, b[0])
    return b.astype(float).copy()


def _cast_value(value, type_, size):
    v = np.atleast_1d(np.asarray(value))
    if v.size == 1 and size > 1:
        v = np.full(size, v[0])
    return v.astype(np.int64 if type_ == INTEGER else np.float64)


class RefSpace:
    def __init__(self):
        self.vars: list[RefVar] = []
        self.int_norm = False

    # ------------------------------------------------------------------ views
    def names(self):
        return [v.name for v in self.vars]

    def has(self, name):
        return any(v.name == name for v in self.vars)

    def get(self, name) -> RefVar:
        for v in self.vars:
            if v.name == name:
                return v
        raise RefError("ValueError", f"unknown variable {name}")

    def sizes(self):
        return {v.name: v.size for v in self.vars}

    def types(self):
        return {v.name: v.type for v in self.vars}

    @property
    def dimension(self):
        return sum(v.size for v in self.vars)

    def index_ranges(self):
        out, o = {}, 0
        for v in self.vars:
            out[v.name] = (o, o + v.size)
            o += v.size
        return out

    def indexes(self, names, design_space_order=True):
        rng = self.index_ranges()
        if design_space_order:
            names = [n for n in self.names() if n in names]
        parts = [np.arange(*rng[n]) for n in names]
        return np.concatenate(parts) if parts else np.array([], dtype=int)

    def _order(self, names):
        return self.vars if not names else [self.get(n) for n in names]

    def lb_array(self, names=None):
        return np.concatenate([v.lb for v in self._order(names)])

    def ub_array(self, names=None):
        return np.concatenate([v.ub for v in self._order(names)])

    def has_current_value(self):
        return bool(self.vars) and all(v.value is not None for v in self.vars)

    def missing_values(self, names=None):
        return [v.name for v in self._order(names) if v.value is None]

    def value_array(self, names=None):
        miss = self.missing_values(names)
        if miss:
            raise RefError("KeyError", f"no current value for {miss}")
        return np.concatenate([v.value for v in self._order(names)])

    def value_dict(self):
        return {v.name: v.value for v in self.vars if v.value is not None}

    def policy(self, var: RefVar):
        """Which components are normalised: bounded on both sides and float (or integer with the switch on)."""
        if var.type == FLOAT or self.int_norm:
            return np.isfinite(var.lb) & np.isfinite(var.ub)
        return np.zeros(var.size, dtype=bool)

    def norm_mask(self):
        return np.concatenate([self.policy(v) for v in self.vars])

    def int_mask(self):
        return np.concatenate([np.full(v.size, v.type == INTEGER) for v in self.vars])

    def bound_layout(self):
        out = []
        for v in self.vars:
            kinds = []
            for l_, u_ in zip(v.lb, v.ub):
                if np.isfinite(l_) and np.isfinite(u_):
                    kinds.append("eq" if l_ == u_ else "both")
                elif np.isfinite(l_):
                    kinds.append("lower")
                elif np.isfinite(u_):
                    kinds.append("upper")
                else:
                    kinds.append("none")
            out.append((v.type[0], v.size, tuple(kinds), v.value is not None))
        return tuple(out)

    # ------------------------------------------------------------------ maps (closed forms)
    def _work(self, x):
        x = np.asarray(x)
        return x.astype(complex if np.iscomplexobj(x) else float)

    def normalize(self, x, minus_lb=True):
        """(x - lb)/(ub - lb) on normalised components ((x - lb) when lb == ub), identity elsewhere."""
        out = self._work(x)
        m = self.norm_mask()
        lb, ub = self.lb_array()[m], self.ub_array()[m]
        span = np.where(ub == lb, 1.0, ub - lb)
        part = out[..., m]
        if minus_lb:
            part = part - lb
        out[..., m] = part / span
        return out

    def unnormalize(self, u, minus_lb=True, round_ints=True):
        """u*(ub - lb) + lb on normalised components, identity elsewhere; integer components rounded."""
        out = self._work(u)
        m = self.norm_mask()
        lb, ub = self.lb_array()[m], self.ub_array()[m]
        part = out[..., m] * (ub - lb)
        if minus_lb:
            part = part + lb
        out[..., m] = part
        if round_ints:
            im = self.int_mask()
            out[..., im] = np.round(out[..., im])
        return out

    def map_tolerance(self, x, unnormalize=False, minus_lb=True, ulps=4.0):
        """Absolute tolerance of the affine maps: ``ulps`` units in the last place of the terms involved."""
        x = np.abs(self._work(x))
        m = self.norm_mask()
        lb, ub = self.lb_array()[m], self.ub_array()[m]
        tol = np.zeros(x.shape, dtype=float)
        if unnormalize:
            t = x[..., m] * np.abs(ub - lb) + (np.abs(lb) if minus_lb else 0.0)
        else:
            span = np.where(ub == lb, 1.0, ub - lb)
            t = (x[..., m] + (np.abs(lb) if minus_lb else 0.0)) / span
        tol[..., m] = ulps * EPS * t
        return tol

    def roundtrip_tolerance(self, ulps=4.0):
        """Conditioning of normalize(unnormalize(u)) per component (0 on non-normalised components)."""
        m = self.norm_mask()
        lb, ub = self.lb_array()[m], self.ub_array()[m]
        tol = np.zeros(self.dimension)
        span = np.where(ub == lb, 1.0, ub - lb)
        tol[m] = ulps * EPS * (1.0 + (np.abs(lb) + np.abs(ub)) / span)
        return tol

    def round(self, x):
        out = np.array(x, copy=True)
        im = self.int_mask()
        out[..., im] = np.round(out[..., im])
        return out

    def project(self, x):
        return np.minimum(np.maximum(np.asarray(x, dtype=float), self.lb_array()), self.ub_array())

    def outside(self, x, names=None):
        x = np.real(np.asarray(x))
        return (x < self.lb_array(names) - BOUND_TOL) | (x > self.ub_array(names) + BOUND_TOL)

    # ------------------------------------------------------------------ edits
    def add_variable(self, name, size=1, type_=FLOAT, lb=-np.inf, ub=np.inf, value=None):
        if self.has(name):
            raise RefError("ValueError", "the variable already exists")
        var = RefVar(name, size, type_, lb, ub)
        if value is not None:
            val = _cast_value(value, type_, size)
            if np.any((val < var.lb - BOUND_TOL) | (val > var.ub + BOUND_TOL)):
                raise RefError("ValueError", "the current value is outside the bounds")
            var.value = val
        self.vars.append(var)

    def remove_variable(self, name):
        self.vars.remove(self.get(name))

    def rename_variable(self, old, new):
        if not self.has(old):
            raise RefError("ValueError", "the variable is not in the design space")
        self.get(old).name = new  # in place: nothing else changes

    def filter(self, keep):
        keep = [keep] if isinstance(keep, str) else list(keep)
        for n in keep:
            self.get(n)
        self.vars = [v for v in self.vars if v.name in keep]

    def filter_dimensions(self, name, dims):
        var = self.get(name)
        if any(d >= var.size for d in dims):
            raise RefError("ValueError", "dimension does not exist")
        dims = list(dims)
        var.lb, var.ub = var.lb[dims], var.ub[dims]
        if var.value is not None:
            var.value = var.value[dims]
        var.size = len(dims)

    def extend(self, other: "RefSpace", names=None):
        for v in other.vars:
            if names is None or v.name in names:
                self.add_variable(v.name, v.size, v.type, v.lb, v.ub, v.value)

    def add_variables_from(self, other: "RefSpace", names):
        for n in names:
            v = other.get(n)
            self.add_variable(v.name, v.size, v.type, v.lb, v.ub, v.value)

    def set_lower_bound(self, name, lb):
        var = self.get(name)
        var.lb = _full(lb, var.size)

    def set_upper_bound(self, name, ub):
        var = self.get(name)
        var.ub = _full(ub, var.size)

    def set_current_value_array(self, x):
        x = np.asarray(x)
        if x.size != self.dimension:
            raise RefError("ValueError", "dimension mismatch")
        o = 0
        for v in self.vars:
            part = x[o:o + v.size]
            v.value = part.astype(np.int64) if v.type == INTEGER else np.array(part)
            o += v.size

    def set_current_value_dict(self, values):
        for v in self.vars:
            val = values.get(v.name)
            if val is None:
                v.value = None
            else:
                val = np.asarray(val)
                v.value = val.astype(np.int64) if v.type == INTEGER else np.array(val)

    def set_current_variable(self, name, value):
        self.get(name).value = np.array(value)

    def initialize_missing_current_values(self):
        for v in self.vars:
            if v.value is not None:
                continue
            cur = []
            for l_, u_ in zip(v.lb, v.ub):
                if l_ == -np.inf:
                    cur.append(0 if u_ == np.inf else u_)
                else:
                    cur.append(l_ if u_ == np.inf else (l_ + u_) / 2)
            v.value = np.array(cur, dtype=np.int64 if v.type == INTEGER else np.float64)

    def set_int_norm(self, flag):
        self.int_norm = bool(flag)

    def to_complex(self):
        for v in self.vars:
            if v.value is not None:
                v.value = v.value.astype(complex)

    def to_scalar_variables(self) -> "RefSpace":
        new = RefSpace()
        for v in self.vars:
            for i in range(v.size):
                name = v.name if v.size == 1 else f"{v.name}[{i}]"
                new.add_variable(name, 1, v.type, v.lb[i], v.ub[i], None if v.value is None else v.value[i])
        return new

    def copy(self) -> "RefSpace":
        return copy.deepcopy(self)

    def describe(self):
        return {"int_norm": self.int_norm, "variables": [v.describe() for v in self.vars]}
