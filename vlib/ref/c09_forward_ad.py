"""C09 reference: forward accumulation of d(var)/d(process input) along the executed dataflow.

Independent of gemseo (numpy only; works on object arrays of sympy expressions too).

A composition is a JSON-able tree (see ``vlib/gen/c09_compositions.py``):

* ``leaf``      reads ``ins`` and writes ``outs``: ``out = phi(c[out] + sum_in A[out][in] @ in)``,
                ``phi`` in {lin: s, tanh: tanh(s), sq: s + s*s/4} applied element-wise;
                an input absent from ``A[out]`` does not influence ``out`` (zero partial);
* ``chain``     children run one after the other on one shared environment: a child reads the
                current value of each of its inputs and its outputs replace earlier values
                of the same names (a later writer replaces an earlier one);
* ``par``       every child reads the environment as it was when the node was entered (never a
                sibling's output); outputs are merged, a later child has priority;
* ``add``       like ``par``, but each name of ``sum`` is the sum over the children producing it;
* ``mdachain``  acyclic single-writer set of children given in any order: the function computed is
                the one of the chain of the children in any topological order.

``forward(node, env)`` propagates ``Var(value, D, S)`` where ``D[root_input]`` is the exact
derivative block and ``S[root_input]`` the same accumulation done with absolute values (an upper
bound of every partial sum, used to scale the rounding tolerance of the comparison).
"""

from __future__ import annotations

import numpy as np


class Var:
    __slots__ = ("value", "D", "S")

    def __init__(self, value, D, S):
        self.value = value
        self.D = D
        self.S = S


# --------------------------------------------------------------------------- leaf function
def _exact(a):
    """Object array of exact rationals (the generated coefficients have three decimals)."""
    import sympy

    out = np.empty(a.shape, dtype=object)
    for idx, v in np.ndenumerate(a):
        out[idx] = sympy.Rational(int(round(float(v) * 1000)), 1000)
    return out


def leaf_apply(leaf, vals):
    """Return ({out: value}, {out: {in: exact partial}}) of a leaf at ``vals`` (name -> 1-d array)."""
    out_vals, partials = {}, {}
    symbolic = any(np.asarray(v).dtype == object for v in vals.values())
    for o, so in leaf["outs"]:
        c = np.asarray(leaf["c"][o], dtype=float)
        s = _exact(c) if symbolic else c.copy()
        mats = {}
        for i, m in leaf["A"][o].items():
            m = np.asarray(m, dtype=float)
            if symbolic:
                m = _exact(m)
            mats[i] = m
            s = s + m @ np.asarray(vals[i])
        phi = leaf["phi"]
        if phi == "lin":
            y, d = s, np.ones(so) if not symbolic else _exact(np.ones(so))
        elif phi == "tanh":
            y = np.tanh(s)
            d = 1.0 - y * y
        elif phi == "sq":
            y = s + s * s / 4
            d = s / 2 + 1
        else:  # pragma: no cover
            raise ValueError(phi)
        out_vals[o] = y
        partials[o] = {i: d[:, None] * m for i, m in mats.items()}
    return out_vals, partials


# --------------------------------------------------------------------------- interface of a node
def topo_order(children):
    """Kahn order of single-writer children (by produced/consumed names); stable w.r.t. the given order."""
    ios = [process_io(ch) for ch in children]
    writer = {}
    for k, (_, outs) in enumerate(ios):
        for o in outs:
            writer[o] = k
    deps = []
    for k, (ins, _) in enumerate(ios):
        deps.append({writer[i] for i in ins if i in writer and writer[i] != k})
    done, order = set(), []
    while len(order) < len(children):
        progressed = False
        for k in range(len(children)):
            if k not in done and deps[k] <= done:
                done.add(k)
                order.append(k)
                progressed = True
        if not progressed:  # pragma: no cover
            raise ValueError("cyclic mdachain spec")
    return order


def process_io(node):
    """(input names, output names) of the process built from ``node`` (order of first appearance)."""
    t = node["t"]
    if t == "leaf":
        return [n for n, _ in node["ins"]], [n for n, _ in node["outs"]]
    children = node["children"]
    if t == "mdachain":
        children = [children[k] for k in topo_order(children)]
        t = "chain"
    ins, outs = [], []
    for ch in children:
        ci, co = process_io(ch)
        for n in ci:
            if n not in ins and (t != "chain" or n not in outs):
                ins.append(n)
        for n in co:
            if n not in outs:
                outs.append(n)
    return ins, outs


# --------------------------------------------------------------------------- forward accumulation
def _acc(partial, var, absolute):
    out = {}
    src = var.S if absolute else var.D
    if not src:
        return out
    p = np.abs(partial) if absolute else partial
    for r, d in src.items():
        out[r] = p @ d
    return out


def _add_into(tgt, src):
    for r, d in src.items():
        tgt[r] = tgt[r] + d if r in tgt else d


def forward(node, env, trace=None):
    """Outputs of ``node`` as ``{name: Var}`` given the environment ``env`` (``{name: Var}``).

    ``trace`` (optional dict) receives, per leaf name, the input values the leaf is evaluated at."""
    t = node["t"]
    if t == "leaf":
        vals = {n: env[n].value for n, _ in node["ins"]}
        if trace is not None:
            trace[node["name"]] = vals
        out_vals, partials = leaf_apply(node, vals)
        res = {}
        for o, _ in node["outs"]:
            D, S = {}, {}
            for i, p in partials[o].items():
                _add_into(D, _acc(p, env[i], False))
                _add_into(S, _acc(p, env[i], True))
            res[o] = Var(out_vals[o], D, S)
        return res
    children = node["children"]
    if t in ("chain", "mdachain"):
        if t == "mdachain":
            children = [children[k] for k in topo_order(children)]
        local = dict(env)
        produced = {}
        for ch in children:
            outs = forward(ch, local, trace)
            local.update(outs)
            produced.update(outs)
        return produced
    if t in ("par", "add"):
        merged, per_child = {}, []
        for ch in children:
            outs = forward(ch, env, trace)
            per_child.append(outs)
            merged.update(outs)
        if t == "add":
            for name in node["sum"]:
                terms = [o[name] for o in per_child if name in o]
                if not terms:
                    continue
                value = terms[0].value
                D, S = dict(terms[0].D), dict(terms[0].S)
                for v in terms[1:]:
                    value = value + v.value
                    _add_into(D, v.D)
                    _add_into(S, v.S)
                merged[name] = Var(value, D, S)
        return merged
    raise ValueError(t)  # pragma: no cover


def reference(spec, x, trace=None):
    """Reference values and Jacobian blocks of the whole composition at ``x`` (name -> 1-d array).

    Returns ``(inputs, outputs, values, jac, scale)`` with ``jac[out][in]`` dense
    ``(size_out, size_in)`` arrays (explicit zeros for independent pairs) and ``scale[out][in]``
    the absolute-value accumulation.
    """
    root = spec["root"]
    sizes = spec["sizes"]
    ins, outs = process_io(root)
    symbolic = any(np.asarray(x[n]).dtype == object for n in ins)
    env = {}
    for n in ins:
        eye = np.eye(sizes[n]) if not symbolic else np.eye(sizes[n]).astype(int).astype(object)
        env[n] = Var(np.asarray(x[n]), {n: eye}, {} if symbolic else {n: np.eye(sizes[n])})
    res = forward(root, env, trace)
    values, jac, scale = {}, {}, {}
    for o in outs:
        v = res[o]
        values[o] = v.value
        jac[o], scale[o] = {}, {}
        for n in ins:
            z = np.zeros((sizes[o], sizes[n]))
            jac[o][n] = v.D.get(n, z if not symbolic else z.astype(int).astype(object))
            scale[o][n] = np.asarray(v.S.get(n, z), dtype=float) if not symbolic else None
    return ins, outs, values, jac, scale
