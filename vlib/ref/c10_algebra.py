"""C10 reference model: independent evaluator of function-algebra expression trees and helpers.

Nothing here imports gemseo.  Values are always ``(m,)`` arrays and Jacobians ``(m, n)`` arrays
(canonical form); the rules are the textbook ones with *explicit* broadcasting:

    (f+g)' = f' + g'            (f*g)' = diag(g) f' + diag(f) g'
    (f/g)' = (diag(g) f' - diag(f) g') / diag(g)^2
    (c*f)' = diag(c) f'  (c number or vector: row scaling)     (f+c)' = f'     (-f)' = -f'

where a 1-dimensional operand is broadcast against an m-dimensional one by repeating its value and
the row of its Jacobian.  ``evaluate`` also propagates magnitudes (sum of absolute values of all
terms) used as the scale of the comparison tolerance.  All rules work on ``object`` arrays of sympy
expressions (symbolic workload); magnitudes are then skipped.
"""

from __future__ import annotations

import math

import numpy as np

from vlib.gen.c10_operands import operand_from_description


class Val:
    __slots__ = ("v", "J", "mv", "mJ")

    def __init__(self, v, J, mv=None, mJ=None):
        self.v, self.J, self.mv, self.mJ = v, J, mv, mJ


def _rows(a, m):
    """Broadcast the first axis of a (1, ...) array to m rows, explicitly."""
    if a.shape[0] == m:
        return a
    assert a.shape[0] == 1, (a.shape, m)
    return np.concatenate([a] * m, axis=0)


def _col(v):
    return v.reshape(-1, 1)


_LEAF_CACHE: dict = {}


def leaf_operand(node):
    key = id(node)
    hit = _LEAF_CACHE.get(key)
    if hit is None or hit[0] is not node:
        if len(_LEAF_CACHE) > 5000:
            _LEAF_CACHE.clear()
        hit = (node, operand_from_description(node["f"]))
        _LEAF_CACHE[key] = hit
    return hit[1]


def evaluate(node, x, n=None):
    """Return the ``Val`` of the tree at ``x`` (numeric or object array)."""
    x = np.asarray(x)
    sym = x.dtype == object
    n = x.size if n is None else n
    op = node["op"]
    if op == "leaf":
        f = leaf_operand(node)
        if sym:
            return Val(f.value(x), f.jac(x))
        return Val(np.asarray(f.value(x), dtype=float), np.asarray(f.jac(x), dtype=float), f.mag(x), f.jmag(x))
    if op in ("num", "arr"):
        c = np.array(node["v"] if op == "arr" else [node["v"]], dtype=object if sym else float)
        z = np.zeros((c.size, n), dtype=object if sym else float)
        if sym:
            return Val(c, z)
        return Val(c, z, np.abs(c), z.copy())
    if op == "neg":
        a = evaluate(node["a"], x, n)
        return Val(-a.v, -a.J, a.mv, a.mJ)
    if op == "offset":
        a = evaluate(node["a"], x, n)
        c = np.array(node["v"] if isinstance(node["v"], list) else [node["v"]], dtype=object if sym else float)
        m = max(a.v.size, c.size)
        v = _rows(_col(a.v), m)[:, 0] + _rows(_col(c), m)[:, 0]
        J = _rows(a.J, m)
        if sym:
            return Val(v, J)
        return Val(v, J, _rows(_col(a.mv), m)[:, 0] + np.abs(_rows(_col(c), m)[:, 0]), _rows(a.mJ, m))
    a = evaluate(node["a"], x, n)
    b = evaluate(node["b"], x, n)
    m = max(a.v.size, b.v.size)
    va, vb = _rows(_col(a.v), m), _rows(_col(b.v), m)  # (m, 1) columns
    Ja, Jb = _rows(a.J, m), _rows(b.J, m)
    if not sym:
        ma, mb = _rows(_col(a.mv), m), _rows(_col(b.mv), m)
        mJa, mJb = _rows(a.mJ, m), _rows(b.mJ, m)
    if op in "+-":
        sgn = 1 if op == "+" else -1
        v, J = va + sgn * vb, Ja + sgn * Jb
        if sym:
            return Val(v[:, 0], J)
        return Val(v[:, 0], J, (ma + mb)[:, 0], mJa + mJb)
    if op == "*":
        v = va * vb
        J = vb * Ja + va * Jb
        if sym:
            return Val(v[:, 0], J)
        return Val(v[:, 0], J, (ma * mb)[:, 0], mb * mJa + ma * mJb)
    if op == "/":
        v = va / vb
        J = (vb * Ja - va * Jb) / (vb * vb)
        if sym:
            return Val(v[:, 0], J)
        avb = np.abs(vb)
        return Val(v[:, 0], J, (ma / avb)[:, 0], (mb * mJa + ma * mJb) / (avb * avb))
    raise KeyError(op)


def sanitize_denominators(node, pts, margin=0.5):
    """Offset every function denominator so that all its components stay >= margin at the points (in place)."""
    op = node["op"]
    if op in ("leaf", "num", "arr"):
        return node
    sanitize_denominators(node["a"], pts, margin)
    if op in ("neg", "offset"):
        return node
    b = node["b"]
    if b["op"] in ("num", "arr"):
        return node
    sanitize_denominators(b, pts, margin)
    if op == "/":
        lo = min(float(np.min(evaluate(b, p).v)) for p in pts)
        if lo < margin:
            node["b"] = {"op": "offset", "a": b, "v": int(math.ceil(margin - lo))}
    return node


def symbolic_jacobian(values, symbols):
    """Independent derivative of symbolic values (sympy differentiates; used as a second oracle)."""
    import sympy as sp

    return np.array([[sp.diff(sp.sympify(v), s) for s in symbols] for v in values], dtype=object)


# --------------------------------------------------------------------------- helpers' references
def full_point(x_sub, frozen_idx, frozen_val, n_full):
    """The full input vector whose components ``frozen_idx`` are fixed and the others are ``x_sub`` in order."""
    x = np.empty(n_full, dtype=np.asarray(x_sub).dtype)
    active = [i for i in range(n_full) if i not in set(int(k) for k in frozen_idx)]
    for k, i in enumerate(active):
        x[i] = x_sub[k]
    for i, v in zip(frozen_idx, frozen_val):
        x[int(i)] = v
    return x, active


def unnormalize(u, lb, ub):
    """x = lb + (ub-lb) u on the components having two finite bounds, x = u elsewhere; returns x and dx/du."""
    u = np.asarray(u, dtype=float)
    lb, ub = np.asarray(lb, dtype=float), np.asarray(ub, dtype=float)
    x, fac = u.copy(), np.ones_like(u)
    for i in range(u.size):
        if math.isfinite(lb[i]) and math.isfinite(ub[i]):
            fac[i] = ub[i] - lb[i]
            x[i] = lb[i] + fac[i] * u[i]
    return x, fac


def conlin(f0, g0, x0, x, mask, threshold, variant):
    """Convex linearisation built at x0 (value f0 evaluated at the merged point, Jacobian g0 (m,n) at x0).

    ``variant='textbook'``: Fleury's CONLIN, reciprocal in the variable:
        sum_{g>thr} g_i (x_i - x0_i)  +  sum_{g<-thr} g_i x0_i^2 (1/x0_i - 1/x_i)
    ``variant='step'``: reciprocal of the *step* (what gemseo evaluates today):
        sum_{g>thr} g_i (x_i - x0_i)  +  sum_{g<-thr} (-g_i x0_i^2) / (x_i - x0_i)   (0 where |x_i-x0_i| <= thr)
    Returns value (m,) and the derivative (m, n_masked) w.r.t. the masked components.
    """
    idx = [i for i in range(len(x0)) if mask[i]]
    m = g0.shape[0]
    val = np.array(f0, dtype=float).reshape(m).copy()
    der = np.zeros((m, len(idx)))
    for r in range(m):
        for k, i in enumerate(idx):
            g = g0[r, i]
            if g > threshold:
                val[r] += g * (x[i] - x0[i])
                der[r, k] = g
            elif -g > threshold:
                if variant == "textbook":
                    val[r] += g * x0[i] ** 2 * (1.0 / x0[i] - 1.0 / x[i])
                    der[r, k] = g * x0[i] ** 2 / x[i] ** 2
                else:
                    s = x[i] - x0[i]
                    if abs(s) > threshold:
                        val[r] += -g * x0[i] ** 2 / s
                        der[r, k] = g * x0[i] ** 2 / s ** 2
    return val, der, idx


# --------------------------------------------------------------------------- aggregations
def _softmax(g, rho):
    mx = np.max(g)
    e = np.exp(rho * (g - mx))
    return e / e.sum(), e, mx


def aggregation(method, g, rho=100.0, scale=1.0, indices=None, count_full=False, square_scale=False):
    """Value of an aggregation of the constraint values ``g`` and its derivative w.r.t. *all* components of g.

    The aggregated quantities are ``s_i g_i`` for i in ``indices`` (all when None).
      upper_bound_KS = max + log(sum exp(rho (s g - max)))/rho
      lower_bound_KS = upper_bound_KS - log(N)/rho   (N = number of aggregated values; N = len(g) if count_full)
      IKS            = sum s g exp(rho s g) / sum exp(rho s g)
      MAX            = max s g
      SUM            = sum s g^2          (sum (s g)^2 if square_scale)
      POS_SUM        = sum s g^2 [g>0]    (idem)
    Returns (value, dvalue/dg as a (len(g),) vector).
    """
    g = np.asarray(g, dtype=float)
    idx = list(range(g.size)) if indices is None else [int(i) for i in indices]
    s = np.broadcast_to(np.asarray(scale, dtype=float), (len(idx),)) if np.ndim(scale) else np.full(len(idx), float(scale))
    gs = s * g[idx]
    d = np.zeros(g.size)
    if method in ("upper_bound_KS", "lower_bound_KS"):
        w, e, mx = _softmax(gs, rho)
        val = mx + math.log(e.sum()) / rho
        if method == "lower_bound_KS":
            val -= math.log(g.size if count_full else len(idx)) / rho
        dd = w * s
    elif method == "IKS":
        w, e, mx = _softmax(gs, rho)
        val = float(np.sum(w * gs))
        # d/dgs_k sum_i w_i gs_i = w_k (1 + rho (gs_k - val))
        dd = w * (1.0 + rho * (gs - val)) * s
    elif method == "MAX":
        k = int(np.argmax(gs))
        val = float(gs[k])
        dd = np.zeros(len(idx))
        dd[k] = s[k]
    elif method in ("SUM", "POS_SUM"):
        h = (g[idx] > 0).astype(float) if method == "POS_SUM" else np.ones(len(idx))
        ss = s * s if square_scale else s
        val = float(np.sum(ss * g[idx] ** 2 * h))
        dd = 2.0 * ss * g[idx] * h
    else:
        raise KeyError(method)
    for k, i in enumerate(idx):
        d[i] += dd[k]
    return val, d


def aggregation_complex_step(method, g, **kw):
    """Derivative of the reference value by complex step on an analytic continuation (self-check of the model)."""
    g = np.asarray(g, dtype=float)
    idx = list(range(g.size)) if kw.get("indices") is None else [int(i) for i in kw["indices"]]
    scale, rho = kw.get("scale", 1.0), kw.get("rho", 100.0)
    s = np.broadcast_to(np.asarray(scale, dtype=float), (len(idx),)) if np.ndim(scale) else np.full(len(idx), float(scale))
    out = np.zeros(g.size)
    h = 1e-30
    for j in range(g.size):
        gc = g.astype(complex)
        gc[j] += 1j * h
        gs = s * gc[idx]
        mx = np.max(gs.real)
        e = np.exp(rho * (gs - mx))
        if method in ("upper_bound_KS", "lower_bound_KS"):
            v = mx + np.log(e.sum()) / rho
        elif method == "IKS":
            v = np.sum(gs * e) / e.sum()
        elif method == "SUM":
            v = np.sum(s * gc[idx] ** 2)
        elif method == "POS_SUM":
            v = np.sum(s * gc[idx] ** 2 * (g[idx] > 0))
        else:
            raise KeyError(method)
        out[j] = v.imag / h
    return out
