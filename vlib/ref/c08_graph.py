"""Reference graph model for C08 (no networkx, no gemseo import).

The data-dependency graph of a list of disciplines is *defined* by their input and output
names: there is an edge ``u -> v`` (``u != v``) iff an output of ``u`` is an input of ``v``;
``u`` has a self-loop iff one of its outputs is one of its own inputs.

Two independent algorithms give the strongly connected components: an iterative Tarjan
and the mutual-reachability classes of the Warshall transitive closure.  They are
cross-checked on every graph (``scc`` raises ``AssertionError`` when they differ: that would be
a bug of this file, reported as a harness error, never as a verdict).
"""

from __future__ import annotations


def io_graph(ins, outs):
    """Edges implied by the input/output names.

    Args:
        ins, outs: per node, an iterable of variable names.

    Returns:
        (adj, loops, labels): ``adj[u]`` = sorted successors of u (u excluded),
        ``loops`` = set of nodes reading one of their own outputs,
        ``labels[(u, v)]`` = set of variables carried by the edge (``(u, u)`` for self-loops).
    """
    n = len(ins)
    ins = [set(i) for i in ins]
    outs = [set(o) for o in outs]
    adj = [[] for _ in range(n)]
    loops = set()
    labels = {}
    for u in range(n):
        for v in range(n):
            common = outs[u] & ins[v]
            if not common:
                continue
            labels[(u, v)] = common
            if u == v:
                loops.add(u)
            else:
                adj[u].append(v)
    return adj, loops, labels


def tarjan(n, adj):
    """Strongly connected components (iterative Tarjan). Returns comp[u] = component index."""
    index = [-1] * n
    low = [0] * n
    on_stack = [False] * n
    stack = []
    comp = [-1] * n
    counter = 0
    ncomp = 0
    for root in range(n):
        if index[root] != -1:
            continue
        work = [(root, 0)]
        index[root] = low[root] = counter
        counter += 1
        stack.append(root)
        on_stack[root] = True
        while work:
            u, k = work.pop()
            if k < len(adj[u]):
                work.append((u, k + 1))
                v = adj[u][k]
                if index[v] == -1:
                    index[v] = low[v] = counter
                    counter += 1
                    stack.append(v)
                    on_stack[v] = True
                    work.append((v, 0))
                elif on_stack[v]:
                    low[u] = min(low[u], index[v])
            else:
                if low[u] == index[u]:
                    while True:
                        w = stack.pop()
                        on_stack[w] = False
                        comp[w] = ncomp
                        if w == u:
                            break
                    ncomp += 1
                if work:
                    p = work[-1][0]
                    low[p] = min(low[p], low[u])
    return comp


def closure(n, adj):
    """reach[u][v] = there is a path of length >= 1 from u to v (Warshall)."""
    reach = [[False] * n for _ in range(n)]
    for u in range(n):
        for v in adj[u]:
            reach[u][v] = True
    for k in range(n):
        rk = reach[k]
        for i in range(n):
            if reach[i][k]:
                ri = reach[i]
                for j in range(n):
                    if rk[j]:
                        ri[j] = True
    return reach


def scc(n, adj):
    """SCCs as a list of frozensets + the reachability matrix; Tarjan and closure must agree."""
    comp = tarjan(n, adj)
    reach = closure(n, adj)
    groups = {}
    for u in range(n):
        groups.setdefault(comp[u], set()).add(u)
    by_tarjan = {frozenset(g) for g in groups.values()}
    by_closure = {frozenset([u] + [v for v in range(n) if v != u and reach[u][v] and reach[v][u]])
                  for u in range(n)}
    assert by_tarjan == by_closure, ("reference SCC algorithms disagree", adj)
    return by_tarjan, reach


def topological_order(n, adj):
    """A topological order of an acyclic graph (Kahn, smallest index first); None if cyclic."""
    indeg = [0] * n
    for u in range(n):
        for v in adj[u]:
            indeg[v] += 1
    ready = sorted(u for u in range(n) if indeg[u] == 0)
    order = []
    while ready:
        u = ready.pop(0)
        order.append(u)
        for v in adj[u]:
            indeg[v] -= 1
            if indeg[v] == 0:
                ready.append(v)
        ready.sort()
    return order if len(order) == n else None


class Model:
    """Everything the statement implies for one list of (inputs, outputs) pairs."""

    def __init__(self, ins, outs):
        self.n = n = len(ins)
        self.ins = [set(i) for i in ins]
        self.outs = [set(o) for o in outs]
        self.adj, self.loops, self.labels = io_graph(ins, outs)
        self.sccs, self.reach = scc(n, self.adj)
        self.group_of = {}
        for g in self.sccs:
            for u in g:
                self.group_of[u] = g
        # nodes on a cycle (non-trivial SCC or self-loop)
        self.cyclic = {u for u in range(n) if len(self.group_of[u]) > 1 or u in self.loops}
        self.acyclic = set(range(n)) - self.cyclic
        self.has_cycle = bool(self.cyclic)
        producer = {}
        self.multi_produced = set()
        for u in range(n):
            for name in self.outs[u]:
                if name in producer:
                    self.multi_produced.add(name)
                producer[name] = u
        self.producer = producer
        all_in = set().union(*self.ins) if n else set()
        all_out = set().union(*self.outs) if n else set()
        self.external = all_in - all_out
        # --- coupling sets
        strong = set()
        inter = set()       # carried by an edge between two different SCCs
        other = set()       # produced by u and read by some v != u
        self_only = set()   # read only by their own producer
        for (u, v), names in self.labels.items():
            if u == v or self.group_of[u] is self.group_of[v] or self.group_of[u] == self.group_of[v]:
                strong |= names
            else:
                inter |= names
            if u != v:
                other |= names
        for (u, v), names in self.labels.items():
            if u == v:
                self_only |= names - other
        self.strong = strong
        self.inter_scc = inter
        self.all_required = other
        self.all_allowed = other | self_only
        self.self_only = self_only
        # weak couplings: the documented definition is "the outputs of the disciplines outside every cycle";
        # the strict graph reading is "variables on edges that are on no cycle".  The oracle only demands what
        # both readings agree on.
        self.weak_documented = set().union(*[self.outs[u] for u in self.acyclic]) if self.acyclic else set()
        self.weak_required = {name for name in other if self.producer[name] in self.acyclic}
        self.weak_allowed = (self.weak_documented | inter) - strong

    def check_sequence(self, stages):
        """Judge a sequence given as list of stages, each a list of groups (tuples of node indices).

        Returns a list of (clause, detail) failures (empty = valid schedule).
        """
        fails = []
        flat = [u for st in stages for g in st for u in g]
        if sorted(flat) != list(range(self.n)):
            fails.append(("permutation", {"flattened": flat, "n": self.n}))
            return fails
        if any(len(st) == 0 for st in stages) or any(len(g) == 0 for st in stages for g in st):
            fails.append(("empty-stage-or-group", {"stages": [[list(g) for g in st] for st in stages]}))
        got = {frozenset(g) for st in stages for g in st}
        if got != self.sccs:
            fails.append(("groups-are-sccs", {"groups": sorted(sorted(g) for g in got),
                                              "sccs": sorted(sorted(g) for g in self.sccs)}))
            return fails
        stage_of = {}
        for k, st in enumerate(stages):
            for g in st:
                for u in g:
                    stage_of[u] = k
        for u in range(self.n):
            for v in self.adj[u]:
                if self.group_of[u] != self.group_of[v] and not stage_of[u] < stage_of[v]:
                    fails.append(("producer-before-consumer", {"edge": [u, v], "stage_u": stage_of[u],
                                                               "stage_v": stage_of[v]}))
                    return fails
        return fails

    def group_order_preserved(self, stages):
        return all(list(g) == sorted(g) for st in stages for g in st)
