"""Closed-form probability laws used as the oracle of C19.

Only ``math``/``numpy`` and the special functions of ``scipy.special`` (erf-type, incomplete
beta/gamma and their inverses) are used as mathematical primitives.  Nothing here imports
gemseo, ``scipy.stats`` or ``openturns``.

Every law offers ``support()``, ``cdf(x)``, ``ppf(p)``, ``mean()``, ``var()``, ``std()`` and
``kurt()`` (non-excess kurtosis mu4/sigma^4, ``None`` when no closed form is written here).
``cdf``/``ppf`` accept scalars or arrays.  ``sf(x)`` (= 1 - cdf) is written out separately where
the subtraction would cancel.
"""

from __future__ import annotations

import math

import numpy as np
from scipy import special as sc

INF = float("inf")


class Law:
    name = "law"

    def support(self):
        raise NotImplementedError

    def cdf(self, x):
        raise NotImplementedError

    def sf(self, x):
        return 1.0 - self.cdf(x)

    def ppf(self, p):
        raise NotImplementedError

    def mean(self):
        raise NotImplementedError

    def var(self):
        raise NotImplementedError

    def std(self):
        return math.sqrt(self.var())

    def kurt(self):
        return None

    def scale(self):
        """A characteristic length (used for absolute tolerances)."""
        s = self.std()
        return s if s > 0 else 1.0


def _arr(x):
    return np.asarray(x, dtype=float)


class Uniform(Law):
    name = "uniform"

    def __init__(self, a, b):
        self.a, self.b = float(a), float(b)

    def support(self):
        return self.a, self.b

    def cdf(self, x):
        return np.clip((_arr(x) - self.a) / (self.b - self.a), 0.0, 1.0)

    def ppf(self, p):
        return self.a + _arr(p) * (self.b - self.a)

    def mean(self):
        return 0.5 * (self.a + self.b)

    def var(self):
        return (self.b - self.a) ** 2 / 12.0

    def kurt(self):
        return 1.8


class Normal(Law):
    name = "normal"

    def __init__(self, mu, sigma):
        self.mu, self.sigma = float(mu), float(sigma)

    def support(self):
        return -INF, INF

    def cdf(self, x):
        return 0.5 * sc.erfc(-(_arr(x) - self.mu) / (self.sigma * math.sqrt(2.0)))

    def sf(self, x):
        return 0.5 * sc.erfc((_arr(x) - self.mu) / (self.sigma * math.sqrt(2.0)))

    def ppf(self, p):
        return self.mu + self.sigma * sc.ndtri(_arr(p))

    def mean(self):
        return self.mu

    def var(self):
        return self.sigma**2

    def kurt(self):
        return 3.0


class LogNormal(Law):
    """X = loc + exp(N(mu_log, sigma_log))."""

    name = "lognormal"

    def __init__(self, mu_log, sigma_log, loc=0.0):
        self.ml, self.sl, self.loc = float(mu_log), float(sigma_log), float(loc)

    @classmethod
    def from_moments(cls, mean, std, loc=0.0):
        """Law of X = loc + exp(N) with E[X] = mean and S[X] = std."""
        m = float(mean) - float(loc)
        sl2 = math.log(1.0 + (float(std) / m) ** 2)
        return cls(math.log(m) - 0.5 * sl2, math.sqrt(sl2), loc)

    def support(self):
        return self.loc, INF

    def _z(self, x):
        x = _arr(x) - self.loc
        with np.errstate(divide="ignore", invalid="ignore"):
            return np.where(x > 0, (np.log(np.where(x > 0, x, 1.0)) - self.ml) / self.sl, -INF)

    def cdf(self, x):
        return 0.5 * sc.erfc(-self._z(x) / math.sqrt(2.0))

    def sf(self, x):
        return 0.5 * sc.erfc(self._z(x) / math.sqrt(2.0))

    def ppf(self, p):
        return self.loc + np.exp(self.ml + self.sl * sc.ndtri(_arr(p)))

    def mean(self):
        return self.loc + math.exp(self.ml + 0.5 * self.sl**2)

    def var(self):
        return math.expm1(self.sl**2) * math.exp(2 * self.ml + self.sl**2)

    def kurt(self):
        w = math.exp(self.sl**2)
        return w**4 + 2 * w**3 + 3 * w**2 - 3.0


class Triangular(Law):
    name = "triangular"

    def __init__(self, a, m, b):
        self.a, self.m, self.b = float(a), float(m), float(b)

    def support(self):
        return self.a, self.b

    def cdf(self, x):
        x = np.clip(_arr(x), self.a, self.b)
        a, m, b = self.a, self.m, self.b
        left = (x - a) ** 2 / ((b - a) * (m - a)) if m > a else np.zeros_like(x)
        right = 1.0 - (b - x) ** 2 / ((b - a) * (b - m)) if b > m else np.ones_like(x)
        return np.where(x <= m, left, right)

    def sf(self, x):
        x = np.clip(_arr(x), self.a, self.b)
        a, m, b = self.a, self.m, self.b
        left = 1.0 - (x - a) ** 2 / ((b - a) * (m - a)) if m > a else np.ones_like(x)
        right = (b - x) ** 2 / ((b - a) * (b - m)) if b > m else np.zeros_like(x)
        return np.where(x <= m, left, right)

    def ppf(self, p):
        p = _arr(p)
        a, m, b = self.a, self.m, self.b
        pm = (m - a) / (b - a)
        left = a + np.sqrt(np.maximum(p, 0) * (b - a) * (m - a))
        right = b - np.sqrt(np.maximum(1 - p, 0) * (b - a) * (b - m))
        return np.where(p <= pm, left, right)

    def mean(self):
        return (self.a + self.m + self.b) / 3.0

    def var(self):
        # shift-invariant: written with a = 0 to avoid cancellation when |a| >> b - a
        m, b = self.m - self.a, self.b - self.a
        return (b * b + m * m - b * m) / 18.0

    def kurt(self):
        return 2.4


class Exponential(Law):
    """X = loc + Exp(rate)."""

    name = "exponential"

    def __init__(self, rate, loc=0.0):
        self.rate, self.loc = float(rate), float(loc)

    def support(self):
        return self.loc, INF

    def cdf(self, x):
        return -np.expm1(-self.rate * np.maximum(_arr(x) - self.loc, 0.0))

    def sf(self, x):
        return np.exp(-self.rate * np.maximum(_arr(x) - self.loc, 0.0))

    def ppf(self, p):
        return self.loc - np.log1p(-_arr(p)) / self.rate

    def mean(self):
        return self.loc + 1.0 / self.rate

    def var(self):
        return 1.0 / self.rate**2

    def kurt(self):
        return 9.0


class WeibullMin(Law):
    """X = loc + scale * W,  P(W <= w) = 1 - exp(-w^shape)."""

    name = "weibull_min"

    def __init__(self, loc, scale, shape):
        self.loc, self.sc, self.k = float(loc), float(scale), float(shape)

    def support(self):
        return self.loc, INF

    def cdf(self, x):
        z = np.maximum((_arr(x) - self.loc) / self.sc, 0.0)
        return -np.expm1(-(z**self.k))

    def sf(self, x):
        z = np.maximum((_arr(x) - self.loc) / self.sc, 0.0)
        return np.exp(-(z**self.k))

    def ppf(self, p):
        return self.loc + self.sc * (-np.log1p(-_arr(p))) ** (1.0 / self.k)

    def _g(self, n):
        return math.gamma(1.0 + n / self.k)

    def mean(self):
        return self.loc + self.sc * self._g(1)

    def var(self):
        return self.sc**2 * (self._g(2) - self._g(1) ** 2)

    def kurt(self):
        g1, g2, g3, g4 = (self._g(i) for i in (1, 2, 3, 4))
        v = g2 - g1 * g1
        if v <= 0:
            return None
        return (g4 - 4 * g3 * g1 + 6 * g2 * g1 * g1 - 3 * g1**4) / (v * v)


class WeibullMax(Law):
    """X = loc - scale * W (the mirror image of WeibullMin about loc)."""

    name = "weibull_max"

    def __init__(self, loc, scale, shape):
        self.loc = float(loc)
        self._m = WeibullMin(0.0, scale, shape)

    def support(self):
        return -INF, self.loc

    def cdf(self, x):
        return self._m.sf(self.loc - _arr(x))

    def sf(self, x):
        return self._m.cdf(self.loc - _arr(x))

    def ppf(self, p):
        p = _arr(p)
        # mirror of the WeibullMin quantile at 1-p, written with log(p) to avoid cancellation
        return self.loc - self._m.sc * (-np.log(p)) ** (1.0 / self._m.k)

    def mean(self):
        return self.loc - self._m.mean()

    def var(self):
        return self._m.var()

    def kurt(self):
        return self._m.kurt()


class Beta(Law):
    name = "beta"

    def __init__(self, alpha, beta, a=0.0, b=1.0):
        self.al, self.be, self.a, self.b = float(alpha), float(beta), float(a), float(b)

    def support(self):
        return self.a, self.b

    def cdf(self, x):
        z = np.clip((_arr(x) - self.a) / (self.b - self.a), 0.0, 1.0)
        return sc.betainc(self.al, self.be, z)

    def sf(self, x):
        z = np.clip((_arr(x) - self.a) / (self.b - self.a), 0.0, 1.0)
        return sc.betainc(self.be, self.al, 1.0 - z)

    def ppf(self, p):
        return self.a + (self.b - self.a) * sc.betaincinv(self.al, self.be, _arr(p))

    def mean(self):
        return self.a + (self.b - self.a) * self.al / (self.al + self.be)

    def var(self):
        s = self.al + self.be
        return (self.b - self.a) ** 2 * self.al * self.be / (s * s * (s + 1.0))

    def kurt(self):
        a, b = self.al, self.be
        s = a + b
        excess = 6.0 * ((a - b) ** 2 * (s + 1.0) - a * b * (s + 2.0)) / (a * b * (s + 2.0) * (s + 3.0))
        return 3.0 + excess


class Dirac(Law):
    name = "dirac"

    def __init__(self, value):
        self.v = float(value)

    def support(self):
        return self.v, self.v

    def cdf(self, x):
        return np.where(_arr(x) >= self.v, 1.0, 0.0)

    def ppf(self, p):
        return np.full(np.shape(p), self.v) if np.ndim(p) else self.v

    def mean(self):
        return self.v

    def var(self):
        return 0.0


class Gamma(Law):
    """X = loc + Gamma(shape k, rate)."""

    name = "gamma"

    def __init__(self, k, rate, loc=0.0):
        self.k, self.rate, self.loc = float(k), float(rate), float(loc)

    def support(self):
        return self.loc, INF

    def cdf(self, x):
        return sc.gammainc(self.k, self.rate * np.maximum(_arr(x) - self.loc, 0.0))

    def sf(self, x):
        return sc.gammaincc(self.k, self.rate * np.maximum(_arr(x) - self.loc, 0.0))

    def ppf(self, p):
        return self.loc + sc.gammaincinv(self.k, _arr(p)) / self.rate

    def mean(self):
        return self.loc + self.k / self.rate

    def var(self):
        return self.k / self.rate**2

    def kurt(self):
        return 3.0 + 6.0 / self.k


class Gumbel(Law):
    """Gumbel (maximum) law: F(x) = exp(-exp(-(x - loc)/scale))."""

    name = "gumbel"

    def __init__(self, scale, loc):
        self.sc, self.loc = float(scale), float(loc)

    def support(self):
        return -INF, INF

    def cdf(self, x):
        return np.exp(-np.exp(-(_arr(x) - self.loc) / self.sc))

    def sf(self, x):
        return -np.expm1(-np.exp(-(_arr(x) - self.loc) / self.sc))

    def ppf(self, p):
        return self.loc - self.sc * np.log(-np.log(_arr(p)))

    def mean(self):
        return self.loc + self.sc * 0.57721566490153286061

    def var(self):
        return (math.pi * self.sc) ** 2 / 6.0

    def kurt(self):
        return 5.4


class Logistic(Law):
    name = "logistic"

    def __init__(self, mu, s):
        self.mu, self.s = float(mu), float(s)

    def support(self):
        return -INF, INF

    def cdf(self, x):
        return sc.expit((_arr(x) - self.mu) / self.s)

    def sf(self, x):
        return sc.expit(-(_arr(x) - self.mu) / self.s)

    def ppf(self, p):
        return self.mu + self.s * sc.logit(_arr(p))

    def mean(self):
        return self.mu

    def var(self):
        return (math.pi * self.s) ** 2 / 3.0

    def kurt(self):
        return 4.2


class Laplace(Law):
    """Density exp(-|x - mu|/b) / (2b)."""

    name = "laplace"

    def __init__(self, mu, b):
        self.mu, self.b = float(mu), float(b)

    def support(self):
        return -INF, INF

    def cdf(self, x):
        z = (_arr(x) - self.mu) / self.b
        return np.where(z < 0, 0.5 * np.exp(np.minimum(z, 0.0)), 1.0 - 0.5 * np.exp(-np.maximum(z, 0.0)))

    def sf(self, x):
        z = (_arr(x) - self.mu) / self.b
        return np.where(z < 0, 1.0 - 0.5 * np.exp(np.minimum(z, 0.0)), 0.5 * np.exp(-np.maximum(z, 0.0)))

    def ppf(self, p):
        p = _arr(p)
        with np.errstate(divide="ignore"):
            return np.where(p < 0.5, self.mu + self.b * np.log(2 * np.minimum(p, 0.5)),
                            self.mu - self.b * np.log(2 * np.minimum(1 - p, 0.5)))

    def mean(self):
        return self.mu

    def var(self):
        return 2.0 * self.b**2

    def kurt(self):
        return 6.0


class Rayleigh(Law):
    """X = loc + sigma * sqrt(-2 log(1-U))."""

    name = "rayleigh"

    def __init__(self, sigma, loc=0.0):
        self.s, self.loc = float(sigma), float(loc)

    def support(self):
        return self.loc, INF

    def cdf(self, x):
        z = np.maximum((_arr(x) - self.loc) / self.s, 0.0)
        return -np.expm1(-0.5 * z * z)

    def sf(self, x):
        z = np.maximum((_arr(x) - self.loc) / self.s, 0.0)
        return np.exp(-0.5 * z * z)

    def ppf(self, p):
        return self.loc + self.s * np.sqrt(-2.0 * np.log1p(-_arr(p)))

    def mean(self):
        return self.loc + self.s * math.sqrt(math.pi / 2.0)

    def var(self):
        return (2.0 - math.pi / 2.0) * self.s**2

    def kurt(self):
        return 3.0 + (-6 * math.pi**2 + 24 * math.pi - 16) / (4 - math.pi) ** 2


# --------------------------------------------------------------------------- derived laws
def _gauss_legendre(f, lo, hi, pieces=64, order=24):
    """Composite Gauss-Legendre quadrature of f on [lo, hi]."""
    xs, ws = np.polynomial.legendre.leggauss(order)
    edges = np.linspace(lo, hi, pieces + 1)
    half = 0.5 * (edges[1:] - edges[:-1])
    mid = 0.5 * (edges[1:] + edges[:-1])
    x = mid[:, None] + half[:, None] * xs[None, :]
    return float(np.sum(half[:, None] * ws[None, :] * f(x)))


class Affine(Law):
    """Law of a*X + b (a != 0)."""

    def __init__(self, base, a, b):
        self.base, self.a, self.b = base, float(a), float(b)
        self.name = f"affine({base.name})"

    def support(self):
        lo, hi = self.base.support()
        u, v = self.a * lo + self.b, self.a * hi + self.b
        return (u, v) if self.a > 0 else (v, u)

    def cdf(self, x):
        z = (_arr(x) - self.b) / self.a
        return self.base.cdf(z) if self.a > 0 else self.base.sf(z)

    def sf(self, x):
        z = (_arr(x) - self.b) / self.a
        return self.base.sf(z) if self.a > 0 else self.base.cdf(z)

    def ppf(self, p):
        p = _arr(p)
        return self.a * self.base.ppf(p if self.a > 0 else 1.0 - p) + self.b

    def mean(self):
        return self.a * self.base.mean() + self.b

    def var(self):
        return self.a**2 * self.base.var()

    def kurt(self):
        return self.base.kurt()


class Exp(Law):
    """Law of exp(X); moments are written only for a normal or uniform X."""

    def __init__(self, base):
        self.base = base
        self.name = f"exp({base.name})"

    def support(self):
        lo, hi = self.base.support()
        return (0.0 if lo == -INF else math.exp(lo)), (INF if hi == INF else math.exp(hi))

    def _log(self, x):
        x = _arr(x)
        with np.errstate(divide="ignore", invalid="ignore"):
            return np.where(x > 0, np.log(np.where(x > 0, x, 1.0)), -INF)

    def cdf(self, x):
        return self.base.cdf(self._log(x))

    def sf(self, x):
        return self.base.sf(self._log(x))

    def ppf(self, p):
        return np.exp(self.base.ppf(p))

    def _mgf(self, t):
        b = self.base
        if isinstance(b, Normal):
            return math.exp(t * b.mu + 0.5 * (t * b.sigma) ** 2)
        if isinstance(b, Uniform):
            return (math.exp(t * b.b) - math.exp(t * b.a)) / (t * (b.b - b.a))
        return None

    def mean(self):
        return self._mgf(1.0)

    def var(self):
        m1 = self._mgf(1.0)
        return None if m1 is None else self._mgf(2.0) - m1 * m1

    def std(self):
        v = self.var()
        return None if v is None else math.sqrt(v)

    def scale(self):
        q = self.ppf(np.array([0.25, 0.75]))
        return float(q[1] - q[0])


class Truncated(Law):
    """Law of X conditioned on lo <= X <= hi (None = no truncation on that side)."""

    def __init__(self, base, lo=None, hi=None):
        self.base = base
        blo, bhi = base.support()
        self.lo = blo if lo is None else float(lo)
        self.hi = bhi if hi is None else float(hi)
        self.name = f"truncated({base.name})"
        self.f_lo = float(base.cdf(self.lo)) if self.lo > -INF else 0.0
        self.s_hi = float(base.sf(self.hi)) if self.hi < INF else 0.0
        self.mass = 1.0 - self.f_lo - self.s_hi

    def support(self):
        return self.lo, self.hi

    def cdf(self, x):
        x = np.clip(_arr(x), self.lo, self.hi)
        return np.clip((self.base.cdf(x) - self.f_lo) / self.mass, 0.0, 1.0)

    def sf(self, x):
        x = np.clip(_arr(x), self.lo, self.hi)
        return np.clip((self.base.sf(x) - self.s_hi) / self.mass, 0.0, 1.0)

    def ppf(self, p):
        p = _arr(p)
        return np.clip(self.base.ppf(self.f_lo + p * self.mass), self.lo, self.hi)

    def _moments(self):
        if not (math.isfinite(self.lo) and math.isfinite(self.hi)):
            return None
        # E[X] = hi - int F,  E[X^2] = hi^2 - int 2 x F  on [lo, hi]
        i1 = _gauss_legendre(self.cdf, self.lo, self.hi)
        i2 = _gauss_legendre(lambda x: 2.0 * x * self.cdf(x), self.lo, self.hi)
        m1 = self.hi - i1
        return m1, self.hi**2 - i2 - m1 * m1

    def mean(self):
        m = self._moments()
        return None if m is None else m[0]

    def var(self):
        m = self._moments()
        return None if m is None else m[1]

    def std(self):
        v = self.var()
        return None if v is None else math.sqrt(max(v, 0.0))

    def scale(self):
        q = self.ppf(np.array([0.25, 0.75]))
        return float(q[1] - q[0])


# --------------------------------------------------------------------------- construction from a JSON description
def build(desc):
    """Build a law from ``{"family": ..., "params": {...}, "transform": [...], "trunc": [lo, hi]}``.

    ``params`` uses the *gemseo* argument names of the family (the harness translates the same
    description into the SP/OT constructor calls), so that the closed form is written from the
    documented meaning of each argument.
    """
    f, p = desc["family"], desc["params"]
    if f == "uniform":
        law = Uniform(p["minimum"], p["maximum"])
    elif f == "normal":
        law = Normal(p["mu"], p["sigma"])
    elif f == "lognormal":
        if p.get("set_log", False):
            law = LogNormal(p["mu"], p["sigma"], p.get("location", 0.0))
        else:
            law = LogNormal.from_moments(p["mu"], p["sigma"], p.get("location", 0.0))
    elif f == "triangular":
        law = Triangular(p["minimum"], p["mode"], p["maximum"])
    elif f == "exponential":
        law = Exponential(p["rate"], p.get("loc", 0.0))
    elif f == "weibull":
        cls = WeibullMin if p.get("use_weibull_min", True) else WeibullMax
        law = cls(p["location"], p["scale"], p["shape"])
    elif f == "beta":
        law = Beta(p["alpha"], p["beta"], p["minimum"], p["maximum"])
    elif f == "dirac":
        law = Dirac(p["variable_value"])
    elif f == "gamma":
        law = Gamma(p["k"], p["rate"], p.get("loc", 0.0))
    elif f == "gumbel":
        law = Gumbel(p["scale"], p["loc"])
    elif f == "logistic":
        law = Logistic(p["mu"], p["scale"])
    elif f == "laplace":
        law = Laplace(p["mu"], p["scale"])
    elif f == "rayleigh":
        law = Rayleigh(p["scale"], p.get("loc", 0.0))
    else:
        raise ValueError(f)
    tr = desc.get("transform")
    if tr:
        if tr[0] == "affine":
            law = Affine(law, tr[1], tr[2])
        elif tr[0] == "exp":
            law = Exp(law)
        else:
            raise ValueError(tr)
    tc = desc.get("trunc")
    if tc and (tc[0] is not None or tc[1] is not None):
        law = Truncated(law, tc[0], tc[1])
    return law
