"""Dictionary reference model of a gemseo grammar (property C15).

The model is ``{name: type-spec}`` + ``required`` + ``defaults`` + namespace maps; it executes the same
edit operations as the real grammars and decides, by itself, whether a data dictionary is accepted:
*every required name is present and every present value has an allowed type*.

Nothing here imports gemseo.  The only knowledge shared with the code under test is what is documented:

* the Python-type -> JSON-type table of ``JSONGrammar`` (ndarray/list/tuple -> array, str -> string,
  int -> integer, bool -> boolean, float/complex -> number, ``None`` -> untyped),
* ``update_from_names`` binds names to arrays of numbers,
* ``update_from_data`` derives the types from the values,
* the documented cast applied by ``JSONGrammar`` before validating (ndarray -> list of reals,
  complex -> real part, path -> str, mappings / iterables recursively),
* ``merge=True``: "the resulting grammar will allow any of the values".

Three flavours: ``json`` (type-spec = JSON-schema fragment, evaluated by the small evaluator below, which
covers exactly the closed family of fragments the workload generates), ``simple`` (type-spec = Python type or
``None``, decided by ``isinstance``) and ``pydantic`` (type-spec = canonical Python type; decided only on
canonical values and on clearly wrong ones, because strict pydantic has its own sub-type rules).

Verdicts are three-valued: ``True`` / ``False`` / ``None`` (= the statement does not decide this corner).
"""

from __future__ import annotations

import copy as _copy
from collections.abc import Iterable
from collections.abc import Mapping
from os import PathLike

import numpy as np

SEP = ":"
FLAVOURS = ("json", "simple", "pydantic")


class ModelError(Exception):
    """The operation is illegal on the model; ``kind`` is the documented exception class name."""

    def __init__(self, kind: str, msg: str = ""):
        super().__init__(f"{kind}: {msg}")
        self.kind = kind


# ------------------------------------------------------------------------------------ documented cast
def cast(value):
    """The documented cast of ``JSONGrammar`` before validation."""
    if isinstance(value, complex):
        return value.real
    if isinstance(value, np.ndarray):
        return value.real.tolist()
    if isinstance(value, PathLike):
        return str(value)
    if isinstance(value, Mapping):
        return {k: cast(v) for k, v in value.items()}
    if isinstance(value, Iterable) and not isinstance(value, str):
        return [cast(v) for v in value]
    return value


# ------------------------------------------------------------------------------------ JSON fragments
_KNOWN_KEYS = {"type", "items", "properties", "required", "enum", "minimum", "exclusiveMinimum", "minItems",
               "maxItems", "anyOf", "description", "format"}


def _type_ok(t: str, v) -> bool | None:
    if t == "integer":
        if isinstance(v, bool):
            return False
        if isinstance(v, int):
            return True
        if isinstance(v, float) and v == v and v not in (float("inf"), float("-inf")) and float(v).is_integer():
            return None  # 1.0 is an integer from draft-06 on, not in draft-04: left to the reference validator
        return False
    if t == "number":
        return isinstance(v, (int, float)) and not isinstance(v, bool)
    if t == "string":
        return isinstance(v, str)
    if t == "boolean":
        return isinstance(v, bool)
    if t == "array":
        return isinstance(v, list)
    if t == "object":
        return isinstance(v, dict)
    if t == "null":
        return v is None
    raise NotImplementedError(f"JSON type {t!r} is outside the modelled family")


def _and(verdicts) -> bool | None:
    out = True
    for r in verdicts:
        if r is False:
            return False
        if r is None:
            out = None
    return out


def _or(verdicts) -> bool | None:
    out = False
    for r in verdicts:
        if r is True:
            return True
        if r is None:
            out = None
    return out


def json_native(v) -> bool:
    """Whether a cast value is JSON data (numpy scalars that are not float/str subclasses are not)."""
    if v is None or isinstance(v, (bool, int, float, str)):
        return True
    if isinstance(v, list):
        return all(json_native(x) for x in v)
    if isinstance(v, dict):
        return all(isinstance(k, str) and json_native(x) for k, x in v.items())
    return False


def fragment_accepts(frag: dict, v) -> bool | None:
    """Evaluate a JSON-schema fragment of the modelled family on an already cast value."""
    if not json_native(v):
        return None  # not JSON data after the documented cast: validators differ, the statement is silent
    unknown = set(frag) - _KNOWN_KEYS
    if unknown:
        raise NotImplementedError(f"keywords {sorted(unknown)} are outside the modelled family")
    res = []
    if "type" in frag:
        t = frag["type"]
        res.append(_or(_type_ok(x, v) for x in t) if isinstance(t, list) else _type_ok(t, v))
    if "enum" in frag:
        res.append(any(type(e) is type(v) and e == v for e in frag["enum"]))
    if "anyOf" in frag:
        res.append(_or(fragment_accepts(f, v) for f in frag["anyOf"]))
    if isinstance(v, (int, float)) and not isinstance(v, bool) and "minimum" in frag:
        if frag.get("exclusiveMinimum") is True:
            res.append(v > frag["minimum"])
        else:
            res.append(v >= frag["minimum"])
    if isinstance(v, list):
        if "minItems" in frag:
            res.append(len(v) >= frag["minItems"])
        if "maxItems" in frag:
            res.append(len(v) <= frag["maxItems"])
        if isinstance(frag.get("items"), dict):
            res.append(_and(fragment_accepts(frag["items"], x) for x in v))
    if isinstance(v, dict):
        for name in frag.get("required", ()):
            res.append(name in v)
        for name, sub in frag.get("properties", {}).items():
            if name in v:
                res.append(fragment_accepts(sub, v[name]))
    if isinstance(v, str) and "format" in frag:
        res.append(None)  # format assertions are optional in JSON schema: never decided by the model
    return _and(res)


def _merge_types(a: dict, b: dict) -> dict:
    """Smallest fragment of the family accepting what ``a`` or ``b`` accepts (used for array items only)."""
    if a == b:
        return a
    ta, tb = a.get("type"), b.get("type")
    if set(a) <= {"type"} and set(b) <= {"type"} and ta is not None and tb is not None:
        types = set(ta if isinstance(ta, list) else [ta]) | set(tb if isinstance(tb, list) else [tb])
        if "number" in types:
            types.discard("integer")
        return {"type": sorted(types) if len(types) > 1 else next(iter(types))}
    return {"anyOf": [a, b]}


def infer_fragment(v) -> dict:
    """The JSON type of a cast value ("the types of the values define the elements")."""
    if isinstance(v, bool):
        return {"type": "boolean"}
    if isinstance(v, int):
        return {"type": "integer"}
    if isinstance(v, float):
        return {"type": "number"}
    if isinstance(v, str):
        return {"type": "string"}
    if v is None:
        return {"type": "null"}
    if isinstance(v, list):
        if not v:
            return {"type": "array"}
        item = infer_fragment(v[0])
        for x in v[1:]:
            item = _merge_types(item, infer_fragment(x))
        return {"type": "array", "items": item}
    if isinstance(v, dict):
        out = {"type": "object"}
        if v:
            out["properties"] = {k: infer_fragment(x) for k, x in v.items()}
            out["required"] = sorted(v)
        return out
    raise NotImplementedError(f"value of type {type(v)} is outside the modelled family")


PY_TO_JSON = {np.ndarray: "array", list: "array", tuple: "array", str: "string", int: "integer", bool: "boolean",
              complex: "number", float: "number"}


def _is_untyped(frag: dict) -> bool:
    return "type" not in frag and "anyOf" not in frag and "enum" not in frag


def _plain(frag: dict) -> bool:
    if _is_untyped(frag) or not set(frag) <= {"type", "items"}:
        return False
    return "items" not in frag or _plain(frag["items"])


def _structural(frag: dict) -> bool:
    t = frag.get("type")
    return t in ("array", "object") or (isinstance(t, list) and ({"array", "object"} & set(t)))


class JSONSpec:
    """Allowed types of one element of a JSON grammar: a list of alternative fragments."""

    def __init__(self, alts, exact=True):
        self.alts = [dict(a) for a in alts]
        self.exact = exact

    def accepts(self, value) -> bool | None:
        r = _or(fragment_accepts(a, value) for a in self.alts)
        return r if self.exact else None

    def union_accepts(self, value) -> bool | None:
        """The documented meaning of a merge, also when ``exact`` is false (used for observations)."""
        return _or(fragment_accepts(a, value) for a in self.alts)

    def merged(self, other: JSONSpec) -> JSONSpec:
        alts = list(self.alts)
        for a in other.alts:
            if a not in alts:
                alts.append(a)
        # A merge is decided by the statement when every operand is a plain typed fragment and at most one
        # operand is an array / object.  The schema builder merges two arrays item-wise (which accepts mixed
        # arrays that no operand accepts), an untyped operand carries no type to "allow", and keywords such as
        # enum / minimum of one operand are kept for the merged type: those corners are only observed.
        exact = (self.exact and other.exact and all(_plain(a) for a in alts)
                 and sum(1 for a in alts if _structural(a)) <= 1)
        return JSONSpec(alts, exact)

    def kind(self) -> str:
        if len(self.alts) != 1:
            return "other"
        a = self.alts[0]
        if a == {}:
            return "any"
        if a == {"type": "array", "items": {"type": "number"}}:
            return "array"
        if set(a) == {"type"} and a["type"] in ("integer", "number", "string", "boolean"):
            return a["type"]
        return "other"

    def fragment(self) -> dict:
        return dict(self.alts[0]) if len(self.alts) == 1 else {"anyOf": [dict(a) for a in self.alts]}

    def describe(self):
        return {"alts": self.alts, "exact": self.exact}

    def __eq__(self, other):
        return isinstance(other, JSONSpec) and self.alts == other.alts and self.exact == other.exact


class PySpec:
    """Allowed type of one element of a simple / pydantic grammar: a Python type or ``None`` (anything)."""

    CANON = {int: "integer", float: "number", str: "string", bool: "boolean", np.ndarray: "array", None: "any"}

    def __init__(self, pytype, strict_isinstance=True):
        self.pytype = pytype
        self.strict_isinstance = strict_isinstance

    def accepts(self, value) -> bool | None:
        t = self.pytype
        if t is None:
            return True
        if self.strict_isinstance:  # SimpleGrammar: the allowed type *is* isinstance
            return isinstance(value, t)
        # pydantic (strict mode has its own sub-type table): only the exact type and unrelated types are decided
        if type(value) is t or (t is np.ndarray and isinstance(value, np.ndarray)):
            return True
        if isinstance(value, (np.ndarray, np.generic)):
            return None  # numpy values given to scalar fields go through __float__/__int__/... in pydantic
        families = [(bool, int, float, complex, np.number, np.bool_), (np.ndarray, list, tuple), (str, bytes, PathLike),
                    (Mapping,)]
        for fam in families:
            if issubclass(t, fam) and isinstance(value, fam):
                return None
        return False

    def merged(self, other):
        raise ModelError("ValueError", "merge is not supported")

    def kind(self) -> str:
        return self.CANON.get(self.pytype, "other")

    def describe(self):
        return {"pytype": getattr(self.pytype, "__name__", repr(self.pytype))}

    def __eq__(self, other):
        return isinstance(other, PySpec) and self.pytype is other.pytype


# ------------------------------------------------------------------------------------ the grammar model
def update_namespaces(namespaces: dict, other: dict) -> None:
    """Documented collision rule of namespace maps: colliding names collect their namespaces in a list."""
    for name, ns in other.items():
        cur = namespaces.get(name)
        new = [ns] if isinstance(ns, str) else list(ns)
        if cur is None:
            namespaces[name] = ns if isinstance(ns, str) else list(ns)
        elif isinstance(cur, str):
            namespaces[name] = [cur, *new]
        else:
            namespaces[name] = [*cur, *new]


class GrammarModel:
    def __init__(self, flavour: str):
        assert flavour in FLAVOURS
        self.flavour = flavour
        self.clear()

    # -- state --------------------------------------------------------------------------------------
    def clear(self):
        self.elements: dict[str, JSONSpec | PySpec] = {}
        self.required: set[str] = set()
        self.defaults: dict[str, object] = {}
        self.to_ns: dict = {}
        self.from_ns: dict = {}
        # pydantic only: names whose model field carries a default (those are the optional ones)
        self.field_defaults: set[str] = set()

    def copy(self) -> GrammarModel:
        m = GrammarModel(self.flavour)
        m.elements = dict(self.elements)
        m.required = set(self.required)
        m.defaults = dict(self.defaults)
        m.to_ns = _copy.deepcopy(self.to_ns)
        m.from_ns = _copy.deepcopy(self.from_ns)
        m.field_defaults = set(self.field_defaults)
        return m

    @property
    def names(self):
        return list(self.elements)

    def _check(self, *names):
        for n in names:
            if n not in self.elements:
                raise ModelError("KeyError", f"The name {n} is not in the grammar.")

    # -- type specs ---------------------------------------------------------------------------------
    def _spec_from_names(self):
        if self.flavour == "json":
            return JSONSpec([{"type": "array", "items": {"type": "number"}}])
        return PySpec(np.ndarray, self.flavour == "simple")

    def _spec_from_type(self, name, t):
        if self.flavour == "json":
            if t is None:
                return JSONSpec([{}])
            if t not in PY_TO_JSON:
                raise ModelError("KeyError", f"Unsupported python type for a JSON Grammar: {t}")
            return JSONSpec([{"type": PY_TO_JSON[t]}])
        if t is not None and not isinstance(t, type):
            raise ModelError("TypeError", f"The element {name} must be a type or None")
        if t is dict:
            t = Mapping
        return PySpec(t, self.flavour == "simple")

    def _spec_from_value(self, name, v):
        if self.flavour == "json":
            return JSONSpec([infer_fragment(cast(v))])
        return self._spec_from_type(name, type(v))

    def _set(self, name, spec, merge):
        if merge and name in self.elements:
            self.elements[name] = self.elements[name].merged(spec)
        else:
            self.elements[name] = spec

    def _guard_merge(self, merge):
        if merge and self.flavour == "simple":
            raise ModelError("ValueError", "Merge is not supported for SimpleGrammar.")

    # -- edits ---------------------------------------------------------------------------------------
    def update_from_names(self, names, merge=False):
        names = list(names)
        if not names:
            return
        self._guard_merge(merge)
        for n in names:
            self._set(n, self._spec_from_names(), merge)
        self.required |= set(names)
        self.field_defaults -= set(names)

    def update_from_types(self, names_to_types, merge=False):
        if not names_to_types:
            return
        self._guard_merge(merge)
        specs = {n: self._spec_from_type(n, t) for n, t in names_to_types.items()}
        for n, s in specs.items():
            self._set(n, s, merge)
        self.required |= set(names_to_types)
        self.field_defaults -= set(names_to_types)

    def update_from_data(self, data, merge=False):
        if not data:
            return
        self._guard_merge(merge)
        specs = {n: self._spec_from_value(n, v) for n, v in data.items()}
        for n, s in specs.items():
            self._set(n, s, merge)
        self.required |= set(data)
        self.field_defaults -= set(data)

    def update_from_schema(self, schema, merge=False):
        assert self.flavour == "json"
        for n, frag in schema.get("properties", {}).items():
            self._set(n, JSONSpec([frag]), merge)
        req = set(schema.get("required", ()))
        self._check(*req)
        self.required |= req

    def update(self, other: GrammarModel, excluded=(), merge=False):
        if not other.elements:
            return
        self._guard_merge(merge)
        excluded = set(excluded)
        for n, s in other.elements.items():
            if n not in excluded:
                self._set(n, s, merge)
        update_namespaces(self.to_ns, other.to_ns)
        update_namespaces(self.from_ns, other.from_ns)
        self.defaults.update({k: v for k, v in other.defaults.items() if k not in excluded})
        self.required |= {n for n in other.elements if n not in excluded and n in other.required}
        if self.flavour == "pydantic":
            self.field_defaults -= {n for n in other.elements if n not in excluded}

    def restrict_to(self, names):
        names = list(names)
        self._check(*names)
        keep = set(names)
        self.elements = {n: s for n, s in self.elements.items() if n in keep}
        self.required &= keep
        self.defaults = {k: v for k, v in self.defaults.items() if k in keep}
        self.field_defaults &= keep

    def rename_element(self, current, new):
        self._check(current)
        self.elements[new] = self.elements.pop(current)
        if current in self.required:
            self.required.discard(current)
            self.required.add(new)
        if current in self.defaults:
            self.defaults[new] = self.defaults.pop(current)
        if current in self.field_defaults:
            self.field_defaults.discard(current)
            self.field_defaults.add(new)

    def delete(self, name):
        self._check(name)
        del self.elements[name]
        self.required.discard(name)
        self.defaults.pop(name, None)
        self.field_defaults.discard(name)

    def add_namespace(self, name, namespace):
        self._check(name)
        if SEP in name:
            raise ModelError("ValueError", f"The variable {name} already has a namespace.")
        new = namespace + SEP + name
        self.rename_element(name, new)
        self.to_ns[name] = new
        self.from_ns[new] = name

    def set_default(self, name, value):
        self._check(name)
        self.defaults[name] = value

    def del_default(self, name):
        if name not in self.defaults:
            raise ModelError("KeyError", name)
        del self.defaults[name]

    def set_defaults(self, data):
        self._check(*data)
        self.defaults = dict(data)

    def require(self, name):
        self._check(name)
        self.required.add(name)

    def unrequire(self, name):
        self.required.discard(name)

    # -- the acceptance rule --------------------------------------------------------------------------
    def accepts(self, data) -> bool | None:
        """True/False when the statement decides, ``None`` in an undecided corner."""
        if self.required - set(data):
            return False
        if self.flavour == "pydantic" and (set(self.elements) - self.field_defaults) - set(data):
            return False  # a pydantic element is required exactly when its model field has no default
        res = []
        for name, spec in self.elements.items():
            if name in data:
                v = cast(data[name]) if self.flavour == "json" else data[name]
                res.append(spec.accepts(v))
        return _and(res)

    def union_accepts(self, data) -> bool | None:
        if self.required - set(data):
            return False
        res = []
        for name, spec in self.elements.items():
            if name in data:
                v = cast(data[name]) if self.flavour == "json" else data[name]
                res.append(spec.union_accepts(v) if isinstance(spec, JSONSpec) else spec.accepts(v))
        return _and(res)

    def schema(self) -> dict:
        assert self.flavour == "json"
        out = {"type": "object", "properties": {n: s.fragment() for n, s in self.elements.items()}}
        if self.required:
            out["required"] = sorted(self.required)
        return out

    def kinds(self) -> dict:
        return {n: s.kind() for n, s in self.elements.items()}

    def describe(self) -> dict:
        return {"names": self.names, "required": sorted(self.required), "defaults": sorted(self.defaults),
                "specs": {n: s.describe() for n, s in self.elements.items()}}
