"""Reference model for C01: caller coordinates -> physical point, Jacobian scaling, linear functions.

Independent of gemseo (never imports it).  A space is described by a list of variables
``{"name", "size", "type": "float"|"integer", "lb": [...], "ub": [...]}`` where ``None`` stands for an
infinite bound.  Conventions reproduced here are the *documented* ones:

* a component is normalised iff it is a float component with two finite bounds
  (integer components only when ``normalize_integers`` is set on the space);
* ``phys = lb + x * (ub - lb)`` on normalised components, ``x`` elsewhere (hence ``lb`` when ``lb == ub``);
* the derivative with respect to a normalised coordinate is the physical one times ``ub - lb``
  (hence ``0`` when ``lb == ub``);
* rounding concerns integer components only.
"""

from __future__ import annotations

import numpy as np


def _arr(values, infinite):
    return np.array([infinite if v is None else float(v) for v in values], dtype=float)


class RefSpace:
    def __init__(self, variables, normalize_integers=False):
        lb, ub, is_int, names = [], [], [], []
        for v in variables:
            lb.append(_arr(v["lb"], -np.inf))
            ub.append(_arr(v["ub"], np.inf))
            is_int.append(np.full(v["size"], v["type"] == "integer"))
            names.extend([v["name"]] * v["size"])
        self.lb = np.concatenate(lb)
        self.ub = np.concatenate(ub)
        self.is_int = np.concatenate(is_int)
        self.names = names
        self.n = self.lb.size
        finite = np.isfinite(self.lb) & np.isfinite(self.ub)
        self.norm_mask = finite & (~self.is_int | bool(normalize_integers))
        with np.errstate(invalid="ignore"):
            self.scale = np.where(self.norm_mask, self.ub - self.lb, 1.0)
        self.shift = np.where(self.norm_mask, self.lb, 0.0)
        self.inert = self.norm_mask & (self.scale == 0.0)
        self.has_int = bool(self.is_int.any())

    # -- points ---------------------------------------------------------------
    def unnormalize(self, x):
        x = np.asarray(x, dtype=float)
        return x * self.scale + self.shift

    def normalize(self, p):
        p = np.asarray(p, dtype=float)
        safe = np.where(self.scale == 0.0, 1.0, self.scale)
        return (p - self.shift) / safe

    def round(self, p):
        p = np.array(p, dtype=float)
        p[self.is_int] = np.round(p[self.is_int])
        return p

    def is_integral(self, p):
        p = np.asarray(p, dtype=float)
        return bool(np.all(p[self.is_int] == np.round(p[self.is_int])))

    def physical_candidates(self, x, normalized, round_ints):
        """Physical points the statement allows for a request at caller coordinates ``x``.

        Returns ``(candidates, corner)``; ``candidates[0]`` is the preferred reading.
        ``corner`` is ``""`` when there is a single reading, otherwise the name of the ambiguity.
        """
        x = np.asarray(x, dtype=float)
        p = self.unnormalize(x) if normalized else x.copy()
        if not self.has_int or self.is_integral(p):
            return [self.round(p) if self.has_int else p], ""
        pr = self.round(p)
        if normalized:
            if round_ints:
                return [pr], ""
            # normalised inputs + round_ints=False + non integral value of an integer component: the
            # statement says "with or without rounding"; both readings are accepted, consistently
            return [pr, p], "normalized-noround-nonintegral"
        if round_ints:
            return [pr], "physical-round-nonintegral"  # note (a): the key may be the unrounded caller point
        return [p], ""

    # -- derivatives ----------------------------------------------------------
    def caller_scale(self, normalized):
        """d phys_j / d caller_j."""
        return self.scale.copy() if normalized else np.ones(self.n)

    def stored_mask(self, normalized):
        """Columns of the recorded physical Jacobian that are not forced to zero."""
        return ~self.inert if normalized else np.ones(self.n, dtype=bool)


class Linear:
    """``f(x) = A x + b`` with the interface of ``vlib.gen.functions`` (value, jac, bounds)."""

    kind = "linear"

    def __init__(self, a, b):
        self.a = np.asarray(a, dtype=float)
        self.b = np.asarray(b, dtype=float)
        self.m, self.n = self.a.shape

    def describe(self):
        return {"kind": "linear", "a": self.a.tolist(), "b": self.b.tolist()}

    @classmethod
    def from_description(cls, d):
        return cls(d["a"], d["b"])

    def value(self, x):
        return self.a @ np.asarray(x) + self.b

    def jac(self, x):
        return self.a.copy()

    def abs_value(self, x):
        return np.abs(self.a) @ np.abs(np.asarray(x, dtype=float)) + np.abs(self.b)

    def d2_bound(self, x, j, h):
        return np.zeros(self.m)

    def d3_bound(self, x, j, h):
        return np.zeros(self.m)


def same_point(a, b, rtol=1e-12):
    a = np.asarray(a)
    b = np.asarray(b)
    if a.shape != b.shape:
        return False
    if a.dtype.kind == "c":
        if np.any(a.imag != 0):
            return False
        a = a.real
    a = a.astype(float)
    b = np.asarray(b, dtype=float)
    return bool(np.all(np.abs(a - b) <= rtol * (1.0 + np.abs(b))))
