"""Anchor-reach monitor (M8): which deciding functions of the real code were entered.

Anchors are ``"package.module:Qual.name"`` strings.  Each is resolved to its code
object(s); ``sys.monitoring`` local ``PY_START`` events are enabled on exactly those
code objects (no global tracing, negligible overhead) and disabled again after the
first hit.  A deciding anchor that was never entered makes the run inconclusive.
"""

from __future__ import annotations

import importlib
import sys
import types

TOOL_ID = 4


def _codes_of(obj, seen=None):
    """Yield the code objects behind a function / method / property / wrapper."""
    seen = seen if seen is not None else set()
    if id(obj) in seen or obj is None:
        return
    seen.add(id(obj))
    if isinstance(obj, types.CodeType):
        yield obj
        return
    if isinstance(obj, (staticmethod, classmethod)):
        yield from _codes_of(obj.__func__, seen)
        return
    if isinstance(obj, property):
        for f in (obj.fget, obj.fset, obj.fdel):
            yield from _codes_of(f, seen)
        return
    if hasattr(obj, "__wrapped__"):
        yield from _codes_of(obj.__wrapped__, seen)
    code = getattr(obj, "__code__", None)
    if code is not None:
        yield code
        # decorators defined as closures (e.g. @synchronized) hide the original in a cell
        for cell in getattr(obj, "__closure__", None) or ():
            try:
                c = cell.cell_contents
            except ValueError:
                continue
            if callable(c) and hasattr(c, "__code__"):
                yield from _codes_of(c, seen)
    func = getattr(obj, "func", None)  # functools.partial / cached_property
    if func is not None:
        yield from _codes_of(func, seen)


def resolve(anchor: str):
    modname, _, qual = anchor.partition(":")
    mod = importlib.import_module(modname)
    obj = mod
    parts = qual.split(".") if qual else []
    for i, part in enumerate(parts):
        if isinstance(obj, type):
            # look through the class __dict__ first so that descriptors are not invoked,
            # honouring name mangling of private attributes
            name = part
            if part.startswith("__") and not part.endswith("__"):
                name = f"_{obj.__name__.lstrip('_')}{part}"
            for klass in obj.__mro__:
                if name in klass.__dict__:
                    obj = klass.__dict__[name]
                    break
            else:
                raise AttributeError(anchor)
        else:
            obj = getattr(obj, part)
    return list(_codes_of(obj))


class Reach:
    def __init__(self, anchors):
        self.anchors = list(anchors)
        self.reached: set[str] = set()
        self.unresolved: set[str] = set()
        self._by_code: dict = {}
        self._active = False

    def start(self):
        if not self.anchors or not hasattr(sys, "monitoring"):
            return
        mon = sys.monitoring
        for a in self.anchors:
            try:
                codes = resolve(a)
            except Exception:
                codes = []
            if not codes:
                self.unresolved.add(a)
                continue
            for c in codes:
                self._by_code.setdefault(c, []).append(a)
        if not self._by_code:
            return
        try:
            mon.use_tool_id(TOOL_ID, "verif-reach")
        except ValueError:
            return
        self._active = True
        mon.register_callback(TOOL_ID, mon.events.PY_START, self._on_start)
        for c in self._by_code:
            mon.set_local_events(TOOL_ID, c, mon.events.PY_START)

    def _on_start(self, code, offset):
        for a in self._by_code.get(code, ()):
            self.reached.add(a)
        return sys.monitoring.DISABLE

    def stop(self):
        if not self._active:
            return
        mon = sys.monitoring
        for c in self._by_code:
            try:
                mon.set_local_events(TOOL_ID, c, 0)
            except Exception:
                pass
        mon.register_callback(TOOL_ID, mon.events.PY_START, None)
        mon.free_tool_id(TOOL_ID)
        self._active = False
