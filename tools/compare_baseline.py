#!/usr/bin/env python3
"""Compare a junit xml of the repository test-suite with /root/.vp/BASELINE.json stable_pass."""
import json, sys, xml.etree.ElementTree as ET
base = set(json.load(open("/root/.vp/BASELINE.json"))["stable_pass"])
root = ET.parse(sys.argv[1]).getroot()
passed, notpassed = set(), {}
for tc in root.iter("testcase"):
    tid = f"{tc.get('classname')}::{tc.get('name')}"
    bad = [c.tag for c in tc if c.tag in ("failure", "error", "skipped")]
    if bad:
        notpassed[tid] = bad[0]
    else:
        passed.add(tid)
missing = sorted(t for t in base if t not in passed)
print("baseline stable_pass:", len(base), "passed now:", len(passed), "baseline tests not passing now:", len(missing))
for t in missing[:40]:
    print("  ", t, notpassed.get(t, "absent"))
