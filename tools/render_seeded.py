#!/usr/bin/env python3
"""Markdown table of the seeded changes kept under /verif/seeded (for DESIGN.md)."""
import json, glob, os
print("| seed | property | what the change does (needs) | quick tier of its check | signatures (first) |\n|---|---|---|---|---|")
for d in sorted(glob.glob("/verif/seeded/*_*")):
    name = os.path.basename(d)
    m = json.load(open(d + "/meta.json"))
    r = json.load(open(d + "/result.json")) if os.path.exists(d + "/result.json") else {}
    pid = m["property"]
    c = r.get("checks", {}).get(pid, {})
    summ = m.get("summary", "").replace("|", "\\|").replace("\n", " ")
    summ = summ[:230] + ("…" if len(summ) > 230 else "")
    needs = m.get("needs", "").replace("|", "\\|").replace("\n", " ")
    needs = needs[:160] + ("…" if len(needs) > 160 else "")
    sig = (c.get("signatures") or [""])[0].replace("|", "\\|")
    outcome = c.get('outcome', '?') + (" — see note in result.json" if r.get("note") else "")
    print(f"| {name} | {pid} | {summ} *(needs: {needs})* | {outcome} | `{sig}` |")
