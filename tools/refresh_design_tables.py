#!/usr/bin/env python3
"""Refresh the generated tables of DESIGN.md (findings, seeded changes) between their markers."""
import re, subprocess
p = "/verif/DESIGN.md"
s = open(p).read()
f = subprocess.run(["python3", "/verif/tools/render_findings.py"], capture_output=True, text=True).stdout.split("\n\n")
sd = subprocess.run(["python3", "/verif/tools/render_seeded.py"], capture_output=True, text=True).stdout.strip()
for name, body in (("FIXED_TABLE", f[0].strip()), ("KNOWN_TABLE", f[1].strip()), ("SEEDED_TABLE", sd)):
    s = re.sub(rf"<!-- {name}_BEGIN -->.*?<!-- {name}_END -->", lambda m: f"<!-- {name}_BEGIN -->\n{body}\n<!-- {name}_END -->", s, flags=re.S)
open(p, "w").write(s)
print("refreshed")
