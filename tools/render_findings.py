#!/usr/bin/env python3
"""Print known_findings.json as two markdown tables (fixed / known) for DESIGN.md."""
import json
d = json.load(open("/verif/known_findings.json"))["findings"]
def esc(s): return s.replace("|", "\\|")
print("| property | commit | signature (first of the group) | what failed |\n|---|---|---|---|")
for f in sorted((f for f in d if f["status"] == "fixed"), key=lambda f: f["property"]):
    print(f"| {f['property']} | `{f['commit']}` | `{esc(f['signature'])}` | {esc(f['what'])} |")
print()
print("| property | signature | what fails and why it is recorded, not repaired |\n|---|---|---|")
for f in sorted((f for f in d if f["status"] == "known"), key=lambda f: f["property"]):
    print(f"| {f['property']} | `{esc(f['signature'])}` | {esc(f['what'])} |")
