#!/usr/bin/env python3
"""Regenerate MANIFEST.json from the table below (run from /verif)."""
import json, importlib, sys
from pathlib import Path
ROOT = Path(__file__).resolve().parent.parent
sys.path.insert(0, str(ROOT))

# pid -> (category, technique, level text, level note, design ref)
CHECKS = {
 "C16": ("exploration", "runtime monitoring: recorder on the differentiated function (every evaluated point) + closed-form gradient/derivative-bound oracle over generated and directed cases",
         "Held on the executions produced: thousands of generated (approximator, function, point, step, subset, design space, serial/parallel) cases and discipline-level linearize/check_jacobian cases are run on the real approximators; each returned Jacobian is judged against the closed-form gradient within the method's theoretical error bound and every evaluated point against the upper bounds.",
         "Trusts the harness closed forms (polynomial / exp-sin) and their derivative bounds; steps limited to a numerically safe range; says nothing about functions or steps outside the generated families.",
         "DESIGN.md section 3, C16"),
}
NOT_YET = {}

def main():
    props = [json.loads(l) for l in (ROOT / "properties.jsonl").read_text().splitlines() if l.strip()]
    checks = []
    for p in props:
        pid = p["id"]
        if pid not in CHECKS:
            continue
        cat, tech, text, note, ref = CHECKS[pid]
        checks.append({
            "property_id": pid,
            "quick_cmd": f"./check {pid} --tier quick",
            "thorough_cmd": f"./check {pid} --tier thorough",
            "evidence_file": f"evidence/{pid}.json",
            "replay_cmd_template": f"./check {pid} --replay {{path}}",
            "engine": "vlib",
            "level_claimed": {"category": cat, "text": text, "design_ref": ref},
            "level_note": note,
            "technique": tech,
        })
    na = [{"property_id": p["id"], "reason": NOT_YET.get(p["id"], "check not built yet (work in progress); nothing is claimed for this property")}
          for p in props if p["id"] not in CHECKS]
    hooks_commits = []
    man = {
        "version": 1,
        "setup_cmd": "/venv/bin/python -m vlib.bootstrap",
        "hooks": {
            "guard": "GEMSEO_VERIF",
            "enable": "no source hooks are needed: checks run /venv/bin/python with PYTHONPATH=/repo/src (the working tree) and attach monitors from outside (wrappers on harness callables, icontract, sys.monitoring); GEMSEO_VERIF=1 is exported to children and reserved",
            "baseline_off_cmd": "cd /repo && /venv/bin/python -m pytest -ra -q -p no:cacheprovider --timeout=900 --continue-on-collection-errors",
            "source_commits": hooks_commits,
            "add_only": True,
        },
        "engines": [{"name": "vlib", "path": "vlib/", "serves_properties": sorted(CHECKS),
                     "kind_free_text": "sharded runtime-monitoring harness: generated/hostile workloads on the real gemseo code in subprocesses, recorders, reference-model oracles, anchor-reach monitor (sys.monitoring), three-valued verdicts, known-findings matching by mechanism signature"}],
        "checks": checks,
        "not_applicable": na,
        "notes": "Exit codes: 0 held (KNOWN-FINDING lines allowed), 1 violated (VIOLATION line), 3 inconclusive (a deciding monitor did not observe enough). Known findings: known_findings.json.",
    }
    (ROOT / "MANIFEST.json").write_text(json.dumps(man, indent=1) + "\n")
    try:
        sys.path.insert(0, str(ROOT / ".deps"))
        import jsonschema
        jsonschema.validate(man, json.loads(Path("/root/.vp/MANIFEST.schema.json").read_text()))
        print("MANIFEST.json valid;", len(checks), "checks,", len(na), "not yet claimed")
    except ImportError:
        print("jsonschema unavailable; not validated")

if __name__ == "__main__":
    main()
