#!/usr/bin/env python3
"""Regenerate MANIFEST.json from the table below (run from /verif)."""
import json, importlib, sys
from pathlib import Path
ROOT = Path(__file__).resolve().parent.parent
sys.path.insert(0, str(ROOT))

# pid -> (category, technique, level text, level note, design ref)
ALL_IDS = ["C%02d" % i for i in range(1, 21)]
T = "runtime monitoring: "
ENABLED = sorted(ALL_IDS)
ALL = {
 "C01": ("exploration", T + "recorders on the user callables + database snapshots after every request, judged by an independent normalisation reference over generated request histories",
         "Held on the executions produced: generated design spaces x functions x preprocessing configurations x request histories are run on the real OptimizationProblem; every returned value/Jacobian, every database snapshot and every call of the user callables is judged (faithfulness, physical-space recording, memoisation, conservation).",
         "Trusts the harness closed forms and the reference affine normalisation; only generated function families and histories are explored."),
 "C02": ("exploration", T + "lock-step reference model (RefSpace) + icontract cache-coherence invariant on the real DesignSpace over generated edit/query histories",
         "Held on the executions produced: tens of thousands of generated edit histories interleaved with cache-filling queries run on the real DesignSpace; after every step all views are compared with an independent ordered-list model and a private-state cache-coherence invariant is evaluated.",
         "Trusts the reference model; invalid inputs (ub<lb, out-of-bound values) are outside the workload."),
 "C03": ("exploration", T + "recorders on objective/constraint callables, new-iteration listener log and database census around every driver execution over the algorithm x budget x problem x setting product",
         "Held on the executions produced: every offline-runnable optimisation and DOE algorithm is executed with small budgets on generated problems under each stop cause; entries created, distinct points evaluated and the returned result are judged. Executions without counter reset share the budget since the last reset (verdict for optimisation libraries and sequential DOEs) and the evaluation counter must equal the entries created since that reset; time-sliced runs stopped by max_time/tolerances are part of the workload.",
         "Per-run wall-clock watchdog (inconclusive for that case); algorithms needing unavailable libraries are skipped and listed."),
 "C04": ("exploration", T + "independent optimum-selection reference judged against the reported optimum/result over an exhaustive pattern enumeration of small histories plus generated histories",
         "Held on the executions produced, with the 2-point x (objective + 2 constraints) x 6-state pattern space enumerated completely in the thorough tier; generated histories with ties, NaN, missing values, min/max, vector constraints and multi-objective Pareto fronts. A feasible point without a usable objective ranks after every finite value (NaN/missing-objective points may only be reported when no feasible point has a finite objective).",
         "Trusts the reference rule written from the property statement; partially evaluated histories are judged only as far as the statement defines them."),
 "C05": ("exploration", T + "uncached twin + run counters + structural invariant of full caches + open-HDF5-handle census over generated execute/linearize histories for every cache policy",
         "Held on the executions produced: generated call histories (repeats, near-duplicates, in-place edited inputs, growing differentiated sets, re-opened files) on the real caches; outputs/Jacobians equal the uncached twin's, body runs at most once per distinct input. Sparse Jacobian blocks in all 14 SciPy containers, square non-symmetric and rectangular; entries holding only a Jacobian or only outputs that are completed after newer entries are a designed motif.",
         "Trusts the twin discipline; tolerance-based matching judged against the documented metric."),
 "C06": ("exploration", T + "harness residual (re-execution of fresh twin disciplines on the returned data) and exact coupled solution over generated contractive systems x MDA classes x settings",
         "Held on the executions produced: every MDA class and composition is run on generated contractive linear/tanh systems with known exact solution; the returned data must be a fixed point within the requested tolerance and agree across algorithms, orders, acceleration, relaxation, scaling and warm start. Settings re-assigned after construction (tolerance, max_mda_iter) are judged against the settings in force at execute time.",
         "Bounded progress instead of liveness (max_mda_iter); algorithm/system pairs without convergence guarantee can only be held or inconclusive."),
 "C07": ("exploration", T + "closed-form implicit-function reference compared with MDA.linearize over generated systems x modes x matrix types x solvers x requested subsets x request sequences",
         "Held on the executions produced: total derivatives returned by the real JacobianAssembly are compared block by block with (I-dG/dy)^-1 dG/dx built from the harness partials, for every mode/representation/solver/subset combination generated. Discipline Jacobian blocks are returned as float64/int/float32/complex/Fortran/strided/read-only arrays; the true residual of every linear solve is measured.",
         "Well-conditioned systems only (cond<=1e3); tolerance 1e-7 relative."),
 "C08": ("exploration", T + "independent SCC/reachability reference judged against CouplingStructure/DependencyGraph outputs, exhaustive over all digraphs on <=3 (quick) / <=4 (thorough) nodes, plus execution equivalence",
         "Held on the executions produced, exhaustive over all small dependency graphs (all self-loop subsets and listing orders); random larger graphs; chain / MDA-chain outputs compared with a monolithic evaluation.",
         "Trusts the harness Tarjan/reachability implementation (cross-checked against brute force)."),
 "C09": ("exploration", T + "forward-accumulation reference along the executed dataflow compared with process.linearize over generated acyclic compositions x request sequences",
         "Held on the executions produced: chains, parallel chains, additive chains, MDA chains and nestings of generated disciplines are linearized for sequences of requested subsets; every returned block is compared with the exact chain rule, including explicit zero blocks. Request histories are biased towards subsets that exclude (or only include) the inputs of the last producer of an overwritten variable.",
         "Sampled points only ('for every real input' is approximated)."),
 "C10": ("exploration", T + "independent expression-tree evaluator (value, Jacobian) compared with the composed MDOFunction objects over generated trees and helper constructions",
         "Held on the executions produced: generated expression trees and every helper named in the property are evaluated and differentiated at several points and compared with textbook rules; operands' arrays are checked for mutation; smooth-max bounds checked. Linear operands also carry SciPy-sparse coefficients; the observable state of every operand is compared after each helper and after evaluating its result.",
         "Sampled points only; tolerance 1e-11 relative."),
 "C11": ("exploration", T + "state-machine workload over Database store/export/reload with a deep equality oracle and an open-HDF5-handle census; round trips of design spaces, problems and caches",
         "Held on the executions produced: generated store/export histories (append after any interleaving of new points and new outputs) reload to the same content as a single export; design-space, problem and cache files reload equal. Append exports go to several targets (root and nodes of the same file, other files) in any interleaving.",
         "Equality after documented representation normalisation (atleast_1d float)."),
 "C12": ("fault_enumeration", T + "process death injected inside the k-th discipline execution for every k of the run (child processes), side log + backup file + restarted run judged offline (prefix, no rework, same history)",
         "Held on the executions produced: every crash point of the reference runs is enumerated in the thorough tier for MDO and DOE scenarios with both backup granularities and pre-filled files; the backup must load, be the exact prefix, hold no open handle, and the restart must not re-execute stored points. Restarts are run with the kept counter and with the default counter reset; the first two and last three crash points are always in the quick tier.",
         "Crashes only during discipline executions (as the property states), not inside an HDF5 write."),
 "C13": ("fault_enumeration", T + "forced completion orders with gated workers (threads and forked processes), exhaustive over all orders the pool allows for small task counts x failing subsets; yield injection via sys.monitoring on cache/lock code; offline check of the callback log",
         "Held on the executions produced: all feasible completion orders for n<=4 (quick) / n<=6 (thorough) thread tasks and n<=3/4 process tasks x worker counts x failing subsets are forced on the real CallableParallelExecution and judged (positional results, exactly-once callbacks, isolated failures); parallel DOE/chains/FD/linearization equal their sequential twins; shared caches keep their invariants under injected yields. Parallel vs serial derivative approximation over step modes (constructor / call / per-component), component subsets and design spaces.",
         "fork start method only; thread interleavings under injected yields are sampled, not enumerated."),
 "C14": ("exploration", T + "oracle on generated samples (bounds, integrality, column order, documented count, determinism, unit-to-physical image) over every DOE algorithm x space x setting",
         "Held on the executions produced: every DOE algorithm of the factory is called on generated bounded mixed-type spaces with several sample counts and seeds; samples are judged against an independent unnormalisation and the documented counts. Mapping-based CustomDOE inputs with shuffled key orders.",
         "Documented counts transcribed from the settings documentation."),
 "C15": ("exploration", T + "lock-step dictionary model + icontract well-formedness invariant + reference JSON-schema validator over generated grammar edit histories",
         "Held on the executions produced: generated edit histories on JSON, simple (and pydantic) grammars are mirrored by a dictionary model; names/required/defaults and validation verdicts on data batteries must agree after every step, and JSON grammars must agree with jsonschema.",
         "Subtype corners the two grammar kinds cannot both express are observations only."),
 "C16": ("exploration", T + "recorder on the differentiated function (every evaluated point) + closed-form gradient/derivative-bound oracle over generated and directed cases",
         "Held on the executions produced: thousands of generated (approximator, function, point, step, subset, design space, serial/parallel) cases and discipline-level linearize/check_jacobian cases are run on the real approximators; each Jacobian is judged against the closed-form gradient within the method's theoretical error bound and every evaluated point against the upper bounds. The step is given to the constructor or to f_gradient; discipline caches have tolerance 0 or above the step.",
         "Trusts the harness closed forms and derivative bounds; steps limited to a numerically safe range."),
 "C17": ("exploration", T + "exact coupled solution and implicit-function reference compared with MDF/IDF/DisciplinaryOpt problem functions over generated systems; short optimisations",
         "Held on the executions produced: for generated coupled systems the real formulations' objective, constraints, derivatives and design spaces are compared across MDF, IDF (at consistent couplings) and DisciplinaryOpt, and small convex optimisations reach the same optimum. IDF with start_at_equilibrium (start-point clause) and on 2 threads; MDF with use_lu_fact / warm_start.",
         "Optimisation runs that stop on their budget are inconclusive for that clause only."),
 "C18": ("exploration", T + "Richardson-extrapolated differences of the model's own prediction compared with predict_jacobian; interpolation, transformer round-trip and surrogate-discipline oracles over regressor x transformer configurations",
         "Held on the executions produced: every regressor exposing Jacobians is fitted on generated learning sets with each transformer pipeline; the predicted Jacobian is compared with the derivative of the model's own prediction. Sub-models of composite regressors carry their own transformers; every model also goes through a life cycle (re-training the same instance on other learning sets, clauses re-judged after each training).",
         "Query points kept away from learning points for non-smooth kernels; tolerance 1e-6."),
 "C19": ("exploration", T + "closed-form laws (math/numpy/scipy.special only) compared with SP/OT distributions, parameter-space maps and seeded-sample statistics with >=7-sigma thresholds",
         "Held on the executions produced: every distribution family with admissible random parameters is judged on CDF/quantile inverse relations, moments, support, range and samples; SP and OT versions are compared; parameter-space transforms are judged against the laws. Parameter spaces are edited (rename/remove/add/filter/extract/rebuild) before the clauses; a boundary-value stratum (exact zeros, ints, unit values, bounds on mean/mode) is applied to every parameter generator.",
         "Statistical clauses are deterministic given the seed (DKW band, failure probability <1e-11)."),
 "C20": ("exploration", T + "behavioural twin comparison of original vs restored objects + identity walk for shared mutable state over classes x life moments x protocols",
         "Held on the executions produced: every constructible discipline/process/function/space/problem class is pickled at several life moments with three protocols; the restored object must expose the same grammars/settings, return the same outputs/Jacobians/results, share no in-memory mutable state and carry counters as values. Grammars are pickled after random sequences of cache-filling reads and edits; the fresh-interpreter protocol restores under different hash seeds.",
         "Classes needing external tools are skipped and listed in the evidence."),
}
CHECKS = {k: ALL[k] + (f"DESIGN.md section 3, {k}",) for k in ENABLED}
NOT_YET = {}

def main():
    props = [json.loads(l) for l in (ROOT / "properties.jsonl").read_text().splitlines() if l.strip()]
    checks = []
    for p in props:
        pid = p["id"]
        if pid not in CHECKS:
            continue
        cat, tech, text, note, ref = CHECKS[pid]
        checks.append({
            "property_id": pid,
            "quick_cmd": f"./check {pid} --tier quick",
            "thorough_cmd": f"./check {pid} --tier thorough",
            "evidence_file": f"evidence/{pid}.json",
            "replay_cmd_template": f"./check {pid} --replay {{path}}",
            "engine": "vlib",
            "level_claimed": {"category": cat, "text": text, "design_ref": ref},
            "level_note": note,
            "technique": tech,
        })
    na = [{"property_id": p["id"], "reason": NOT_YET.get(p["id"], "check still being built and validated; nothing is claimed for this property yet")}
          for p in props if p["id"] not in CHECKS]
    hooks_commits = []
    man = {
        "version": 1,
        "setup_cmd": "/venv/bin/python -m vlib.bootstrap",
        "hooks": {
            "guard": "GEMSEO_VERIF",
            "enable": "no source hooks are needed: checks run /venv/bin/python with PYTHONPATH=/repo/src (the working tree) and attach monitors from outside (wrappers on harness callables, icontract, sys.monitoring); GEMSEO_VERIF=1 is exported to children and reserved",
            "baseline_off_cmd": "cd /repo && /venv/bin/python -m pytest -ra -q -p no:cacheprovider --timeout=900 --continue-on-collection-errors",
            "source_commits": hooks_commits,
            "add_only": True,
        },
        "engines": [{"name": "vlib", "path": "vlib/", "serves_properties": sorted(CHECKS),
                     "kind_free_text": "sharded runtime-monitoring harness: generated/hostile workloads on the real gemseo code in subprocesses, recorders, reference-model oracles, anchor-reach monitor (sys.monitoring), three-valued verdicts, known-findings matching by mechanism signature"}],
        "checks": checks,
        "not_applicable": na,
        "notes": "Exit codes: 0 held (KNOWN-FINDING lines allowed), 1 violated (VIOLATION line), 3 inconclusive (a deciding monitor did not observe enough). Known findings: known_findings.json.",
    }
    (ROOT / "MANIFEST.json").write_text(json.dumps(man, indent=1) + "\n")
    try:
        sys.path.insert(0, str(ROOT / ".deps"))
        import jsonschema
        jsonschema.validate(man, json.loads(Path("/root/.vp/MANIFEST.schema.json").read_text()))
        print("MANIFEST.json valid;", len(checks), "checks,", len(na), "not yet claimed")
    except ImportError:
        print("jsonschema unavailable; not validated")

if __name__ == "__main__":
    main()
