#!/usr/bin/env python3
"""Run a check against a scratch copy of /repo/src with one textual mutation applied.

usage: tools/mutate.py <relpath under src/> <old> <new> -- <command...>
The copy lives under /tmp/mut_<pid>/src and is removed afterwards.  The command runs with VERIF_SRC set.
"""
import os, shutil, subprocess, sys
args = sys.argv[1:]
i = args.index("--")
rel, old, new = args[:i]
cmd = args[i + 1:]
root = f"/tmp/mut_{os.getpid()}"
shutil.copytree("/repo/src", root + "/src", ignore=shutil.ignore_patterns("__pycache__", "*.pyc"))
try:
    p = os.path.join(root, "src", rel)
    s = open(p).read()
    n = s.count(old)
    if n != 1:
        print(f"MUTATION NOT APPLIED: pattern occurs {n} times"); sys.exit(2)
    open(p, "w").write(s.replace(old, new))
    rc = subprocess.run(cmd, env=dict(os.environ, VERIF_SRC=root + "/src")).returncode
    print("exit code:", rc)
    sys.exit(rc)
finally:
    shutil.rmtree(root, ignore_errors=True)
