#!/bin/sh
# usage: tools/sweep_quick.sh "C01 C02 ..." "0 1 2 3 7"  -> one line per (check, seed)
cd /verif
for p in $1; do for s in $2; do
  out=$(VERIF_SEED=$s ./check $p --tier quick 2>&1); rc=$?
  echo "$p seed=$s rc=$rc $(echo "$out" | grep -E 'verdict=' | sed -E 's/ counters=.*//') $(echo "$out" | grep -cE '^KNOWN') known"
  echo "$out" | grep -E '^VIOLATION|^INCONC|EVIDENCE-SCHEMA' | cut -c1-300
done; done
