#!/usr/bin/env python3
"""Append an entry to known_findings.json.  usage: kf.py fixed|known PID SIGNATURE COMMIT_or_- WHAT"""
import json, sys
status, pid, sig, commit, what = sys.argv[1:6]
p = "/verif/known_findings.json"
d = json.load(open(p))
e = {"property": pid, "signature": sig, "status": status, "what": what}
if status == "fixed":
    e["commit"] = commit
    e["line"] = f"fixed: property={pid} {commit} {what}"
d["findings"] = [f for f in d["findings"] if not (f["property"] == pid and f["signature"] == sig)] + [e]
json.dump(d, open(p, "w"), indent=1)
print("recorded", status, pid, sig)
