#!/usr/bin/env python3
"""Run checks against a seeded change kept under /verif/seeded/<name>/ (patch.diff, demo.py, meta.json).

usage: tools/run_seeded.py <seeded dir> [--tier quick] [--checks C05,C13] [--jobs 8] [--demo]
The patch is applied to a scratch copy of /repo (outside /repo and /verif), the checks run with VERIF_SRC
pointing at it, the copy is removed afterwards.  Prints one line per check: caught / missed / inconclusive.
--demo also runs the demonstration on the patched copy (must fail) and on /repo (must pass).
"""
import argparse, json, os, shutil, subprocess, sys, tempfile
ap = argparse.ArgumentParser()
ap.add_argument("dir"); ap.add_argument("--tier", default="quick"); ap.add_argument("--checks", default="")
ap.add_argument("--jobs", default="8"); ap.add_argument("--demo", action="store_true")
a = ap.parse_args()
d = os.path.abspath(a.dir)
meta = json.load(open(os.path.join(d, "meta.json")))
checks = a.checks.split(",") if a.checks else [meta["property"]]
root = tempfile.mkdtemp(prefix="seedrun_")
try:
    subprocess.run(["git", "-C", "/repo", "worktree", "add", "-q", "--detach", root + "/wt", "HEAD"], check=True)
    wt = root + "/wt"
    r = subprocess.run(["git", "-C", wt, "apply", os.path.join(d, "patch.diff")], capture_output=True, text=True)
    if r.returncode:
        print("PATCH DOES NOT APPLY:", r.stderr[:500]); sys.exit(2)
    env = dict(os.environ, VERIF_SRC=wt + "/src")
    if a.demo:
        bad = subprocess.run(["/venv/bin/python", os.path.join(d, "demo.py")], env=dict(os.environ, PYTHONPATH=wt + "/src"),
                             cwd=root, capture_output=True, text=True, timeout=1800)
        good = subprocess.run(["/venv/bin/python", os.path.join(d, "demo.py")], env=dict(os.environ, PYTHONPATH="/repo/src"),
                              cwd=root, capture_output=True, text=True, timeout=1800)
        print(f"demo: with change rc={bad.returncode} (must be !=0), without rc={good.returncode} (must be 0)")
        if bad.returncode == 0 or good.returncode != 0:
            print((bad.stdout + bad.stderr)[-600:]); print((good.stdout + good.stderr)[-600:])
    results = {}
    for c in checks:
        r = subprocess.run(["./check", c, "--tier", a.tier, "--jobs", a.jobs], cwd="/verif", env=env, capture_output=True, text=True)
        sigs = [l.split("signature=")[1].split()[0] for l in r.stdout.splitlines() if l.startswith("VIOLATION") and "signature=" in l]
        verdict = {0: "MISSED (held)", 1: "CAUGHT", 3: "INCONCLUSIVE"}.get(r.returncode, f"rc={r.returncode}")
        print(f"{os.path.basename(d)} {c} {a.tier}: {verdict} {len(sigs)} signatures: {sigs[:4]}")
        vs = os.environ.get("VERIF_SEED") or "0"
        results[c if vs == "0" else f"{c}@seed{vs}"] = {"tier": a.tier, "outcome": verdict, "signatures": sigs[:8]}
        if r.returncode == 3:
            print("   ", [l for l in r.stdout.splitlines() if l.startswith("INCONCLUSIVE")][:3])
    rp = os.path.join(d, "result.json")
    old = json.load(open(rp)) if os.path.exists(rp) else {}
    old.setdefault("checks", {}).update(results)
    if a.demo:
        old["demo"] = {"rc_with_change": bad.returncode, "rc_without_change": good.returncode}
    old["base_commit"] = subprocess.run(["git", "-C", "/repo", "rev-parse", "--short", "HEAD"], capture_output=True, text=True).stdout.strip()
    json.dump(old, open(rp, "w"), indent=1)
finally:
    subprocess.run(["git", "-C", "/repo", "worktree", "remove", "--force", root + "/wt"], capture_output=True)
    shutil.rmtree(root, ignore_errors=True)
