import logging; logging.disable(logging.CRITICAL)
import warnings; warnings.filterwarnings("ignore")
import numpy as np
from numpy import array, inf
from gemseo.algos.design_space import DesignSpace
ds=DesignSpace()
ds.add_variable("alpha",2,lower_bound=array([-inf,0.1234567890123456]),upper_bound=array([1/3,inf]),value=array([0.1,2/3]))
ds.add_variable("n",1,type_="integer",lower_bound=0,upper_bound=10,value=3)
ds.add_variable("novalue",1,lower_bound=-1.,upper_bound=1.)
for ext in ("csv","h5"):
    f=f"/tmp/probe/ds.{ext}"
    try:
        ds.to_file(f); r=DesignSpace.from_file(f)
        print(ext, r==ds, r.variable_names, r.get_lower_bounds(), r.get_upper_bounds(), r._current_value, r.variable_types)
    except Exception as e:
        import traceback; traceback.print_exc()
print(open("/tmp/probe/ds.csv").read())
