import logging; logging.disable(logging.CRITICAL)
import warnings; warnings.filterwarnings("ignore")
import numpy as np
from numpy import array
from gemseo.core.mdo_functions.mdo_function import MDOFunction
print("== P4 product rule vector")
A = np.arange(6.).reshape(2,3)+1; B = np.arange(6.).reshape(2,3)[::-1]*2+1
f = MDOFunction(lambda x: A@x, "f", jac=lambda x: A)
g = MDOFunction(lambda x: B@x, "g", jac=lambda x: B)
x = array([1.,2.,3.])
h = f*g
try:
    J = h.jac(x); print("jac", J)
    Jex = A*(B@x)[:,None] + B*(A@x)[:,None]; print("exact", Jex)
except Exception as e: print("ERR", type(e).__name__, e)
A2 = np.arange(4.).reshape(2,2)+1; B2 = np.arange(4.).reshape(2,2)*3+2
f2 = MDOFunction(lambda x: A2@x, "f", jac=lambda x: A2); g2 = MDOFunction(lambda x: B2@x, "g", jac=lambda x: B2)
x2 = array([1.,2.])
print("square jac", (f2*g2).jac(x2), "exact", A2*(B2@x2)[:,None] + B2*(A2@x2)[:,None])
print("== P5 complex step subset")
from gemseo.utils.derivatives.complex_step import ComplexStep
from gemseo.utils.derivatives.finite_differences import FirstOrderFD
from gemseo.utils.derivatives.centered_differences import CenteredDifferences
fun = lambda x: array([x[0]**2 + x[1]*x[2], x[2]**3])
cs = ComplexStep(fun, step=1e-20)
x = array([1.,2.,3.])
print("all", cs.f_gradient(x))
try: print("subset [1,2]", cs.f_gradient(x, x_indices=[1,2]))
except Exception as e: print("ERR", type(e).__name__, e)
fd = FirstOrderFD(fun, step=1e-6)
print("fd subset", fd.f_gradient(x, x_indices=[1,2]))
cd = CenteredDifferences(fun, step=1e-6)
print("cd subset", cd.f_gradient(x, x_indices=[1,2]))
from gemseo.algos.design_space import DesignSpace
ds = DesignSpace(); ds.add_variable("x", 3, lower_bound=0., upper_bound=3.)
pts=[]
def fun2(x): pts.append(x.copy()); return fun(x)
fd = FirstOrderFD(fun2, step=1e-3, design_space=ds)
xx = array([1., 2., 3.-1e-4])
print("fd near ub", fd.f_gradient(xx)); print("max pts", np.max(pts,axis=0), "exceeds", (np.array(pts) > 3.0).any())
pts.clear()
try: print("fd ds subset", fd.f_gradient(array([1.,2.,3.]), x_indices=[0,2]))
except Exception as e: print("ERR", type(e).__name__, e)
pts.clear()
cd = CenteredDifferences(fun2, step=1e-3, design_space=ds)
print("cd at ub", cd.f_gradient(array([1.,2.,3.]))); print("exceeds", (np.array(pts) > 3.0).any())
