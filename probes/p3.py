import logging; logging.disable(logging.CRITICAL)
import warnings; warnings.filterwarnings("ignore")
import numpy as np
from numpy import array
from gemseo.utils.derivatives.finite_differences import FirstOrderFD
from gemseo.utils.derivatives.centered_differences import CenteredDifferences
from gemseo.algos.design_space import DesignSpace
fun = lambda x: array([x[0]**2 + x[1]*x[2], x[2]**3])
ds = DesignSpace(); ds.add_variable("x", 3, lower_bound=0., upper_bound=3.)
pts=[]
def fun2(x): pts.append(x.copy()); return fun(x)
for norm in (False, True):
    fd = FirstOrderFD(fun2, step=1e-3, design_space=ds, normalize=norm)
    xx = array([1., 2., 3.-1e-4]) if not norm else array([0.3,0.5,1-1e-4])
    pts.clear()
    print("fd near ub norm=",norm, fd.f_gradient(xx)); print("max pts", np.max(pts,axis=0), "exceeds", (np.array(pts) > (1.0 if norm else 3.0)).any())
    pts.clear()
    cd = CenteredDifferences(fun2, step=1e-3, design_space=ds, normalize=norm)
    xx = array([1.,2.,3.]) if not norm else array([0.3,0.5,1.])
    print("cd at ub", cd.f_gradient(xx)); print("max", np.max(pts,axis=0))
import inspect
print(inspect.signature(FirstOrderFD.__init__))
