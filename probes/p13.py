import logging; logging.disable(logging.CRITICAL)
import warnings; warnings.filterwarnings("ignore")
import threading, multiprocessing as mp, time, itertools
from gemseo.core.parallel_execution.callable_parallel_execution import CallableParallelExecution
def run(n, w, order, fail=(), threads=True):
    ctx = mp.get_context("fork")
    Ev = threading.Event if threads else ctx.Event
    started=[Ev() for _ in range(n)]; go=[Ev() for _ in range(n)]
    def task(i):
        started[i].set(); go[i].wait(20)
        if i in fail: raise RuntimeError(f"boom{i}")
        return i*i
    log=[]
    pe = CallableParallelExecution([task], n_processes=w, use_threading=threads)
    def controller():
        for i in order:
            started[i].wait(20); go[i].set()
            # wait until its result is consumed: approximate by small sleep
            time.sleep(0.01 if threads else 0.1)
    t=threading.Thread(target=controller); t.start()
    res = pe.execute(list(range(n)), exec_callback=lambda i,o: log.append((i,o)))
    t.join()
    return res, log
print(run(4,4,[3,1,0,2]))
print(run(4,2,[1,0,3,2], fail={0}))
t=time.time(); print(run(3,3,[2,0,1], threads=False), time.time()-t)
