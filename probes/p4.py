import logging; logging.disable(logging.CRITICAL)
import warnings; warnings.filterwarnings("ignore")
import numpy as np
from numpy import array
print("== P6 RBF")
from gemseo.datasets.io_dataset import IODataset
from gemseo.mlearning.regression.algos.rbf import RBFRegressor
rng = np.random.default_rng(0)
X = rng.uniform(0,2,(20,2)); Y = np.c_[np.sin(X[:,0])+X[:,1]**2, X[:,0]*X[:,1]]
ds = IODataset()
ds.add_input_group(X, ["x"], {"x":2}) if hasattr(ds,"add_input_group") else None
ds.add_output_group(Y, ["y"], {"y":2})
for fn in ["multiquadric","inverse_multiquadric","gaussian","linear","cubic","quintic","thin_plate"]:
    for tr in ({}, None):
        kw = {} if tr is None else {"transformer": {}}
        try:
            m = RBFRegressor(ds, function=fn, **kw); m.learn()
            x0 = array([0.7, 1.1])
            J = m.predict_jacobian({"x": x0})["y"]["x"]
            h=1e-6
            Jfd = np.zeros((2,2))
            for j in range(2):
                e = np.zeros(2); e[j]=h
                Jfd[:,j] = (m.predict({"x": x0+e})["y"] - m.predict({"x": x0-e})["y"])/(2*h)
            print(fn, "transformer" if tr is not None else "default", "eps", round(float(m.algo.epsilon),3), "maxerr", np.abs(J-Jfd).max()/ (1+np.abs(Jfd).max()))
        except Exception as e:
            print(fn, "ERR", type(e).__name__, str(e)[:100])
