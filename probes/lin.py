import numpy as np
from gemseo.core.discipline import Discipline
class Lin(Discipline):
    def __init__(self, name, out, n_out, ins, mats, c, nonlin=False):
        super().__init__(name)
        self.out=out; self.mats=mats; self.c=c; self.nonlin=nonlin
        self.io.input_grammar.update_from_names(list(ins))
        self.io.output_grammar.update_from_names([out])
        self.io.input_grammar.defaults = {k: np.zeros(m.shape[1]) for k,m in mats.items()}
        self.nrun=0
    def _run(self, input_data):
        self.nrun+=1
        s = sum(self.mats[k] @ input_data[k] for k in self.mats) + self.c
        return {self.out: np.tanh(s) if self.nonlin else s}
    def _compute_jacobian(self, input_names=(), output_names=()):
        d = self.io.data
        s = sum(self.mats[k] @ d[k] for k in self.mats) + self.c
        f = (1-np.tanh(s)**2) if self.nonlin else np.ones_like(s)
        self.jac = {self.out: {k: f[:,None]*self.mats[k] for k in self.mats}}
