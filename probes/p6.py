import logging; logging.disable(logging.CRITICAL)
import warnings; warnings.filterwarnings("ignore")
import numpy as np
from numpy import array
from gemseo.algos.design_space import DesignSpace
from gemseo.algos.optimization_problem import OptimizationProblem
from gemseo.core.mdo_functions.mdo_function import MDOFunction
from gemseo.algos.opt.factory import OptimizationLibraryFactory
from gemseo.algos.doe.factory import DOELibraryFactory
print("== P8 optimum with missing constraint")
ds = DesignSpace(); ds.add_variable("x", 1, lower_bound=-10., upper_bound=10., value=1.)
p = OptimizationProblem(ds)
p.objective = MDOFunction(lambda x: x[0]**2, "f")
p.add_constraint(MDOFunction(lambda x: x, "c1"), constraint_type="ineq")
p.add_constraint(MDOFunction(lambda x: x, "c2"), constraint_type="ineq")
db = p.database
db.store(array([1.]), {"f": 1., "c1": array([1.]), "c2": array([1.])})
db.store(array([2.]), {"f": 4., "c2": array([5.])})   # c1 missing, c2 strongly violated
db.store(array([3.]), {"f": 9.})   # nothing
o = p.optimum
print("optimum:", o.design, o.objective, o.is_feasible, o.constraints)
print("== P9 budget use_database False")
def mkp():
    ds = DesignSpace(); ds.add_variable("x", 2, lower_bound=-2., upper_bound=2., value=array([-1.5,1.2]))
    p = OptimizationProblem(ds)
    calls=[]
    def f(x): calls.append(tuple(x)); return (1-x[0])**2+100*(x[1]-x[0]**2)**2
    def g(x): return array([-400*x[0]*(x[1]-x[0]**2)-2*(1-x[0]), 200*(x[1]-x[0]**2)])
    p.objective = MDOFunction(f, "f", jac=g)
    return p, calls
fac = OptimizationLibraryFactory()
print(fac.algorithms)
for algo in ["SLSQP","L-BFGS-B","NLOPT_COBYLA","NELDER-MEAD" ]:
    for usedb in (True, False):
        for N in (1,3,7):
            p, calls = mkp()
            try:
                r = fac.execute(p, algo_name=algo, max_iter=N, use_database=usedb)
                print(algo, usedb, N, "db", len(p.database), "distinct pts", len(set(calls)), "calls", len(calls), "res", r is not None and r.f_opt)
            except Exception as e:
                print(algo, usedb, N, "ERR", type(e).__name__, str(e)[:80])
