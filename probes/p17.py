import logging; logging.disable(logging.CRITICAL)
import warnings; warnings.filterwarnings("ignore")
import numpy as np
from numpy import array
from lin import Lin
from gemseo.algos.design_space import DesignSpace
from gemseo.formulations.mdf import MDF
from gemseo.formulations.idf import IDF
def mk():
    r=np.random.default_rng(3)
    M=lambda m,n,s: s*r.uniform(-1,1,(m,n))/n
    d0=Lin("d0","y0",2,["x","y1"],{"x":M(2,2,1),"y1":M(2,3,.4)},r.uniform(-1,1,2),True)
    d1=Lin("d1","y1",3,["z","y0"],{"z":M(3,3,1),"y0":M(3,2,.4)},r.uniform(-1,1,3),True)
    d3=Lin("d3","f",1,["x","y0","y1"],{"x":M(1,2,1),"y0":M(1,2,1),"y1":M(1,3,1)},r.uniform(-1,1,1),True)
    d4=Lin("d4","g",2,["z","y1"],{"z":M(2,3,1),"y1":M(2,3,1)},r.uniform(-1,1,2),True)
    return [d0,d1,d3,d4]
def space(with_y):
    ds=DesignSpace()
    ds.add_variable("x",2,lower_bound=-1.,upper_bound=1.,value=array([.3,-.7]))
    ds.add_variable("z",3,lower_bound=-2.,upper_bound=2.,value=array([.1,.5,-.2]))
    if with_y:
        ds.add_variable("y0",2,lower_bound=-3.,upper_bound=3.,value=np.zeros(2))
        ds.add_variable("y1",3,lower_bound=-3.,upper_bound=3.,value=np.zeros(3))
    return ds
mdf=MDF(mk(),"f",space(True),main_mda_settings={"tolerance":1e-13,"max_mda_iter":300})
mdf.add_constraint("g",constraint_type="ineq")
print("MDF vars", mdf.design_space.variable_names)
idf=IDF(mk(),"f",space(True))
idf.add_constraint("g",constraint_type="ineq")
print("IDF vars", idf.design_space.variable_names, [c.name for c in idf.optimization_problem.constraints])
ds=mk()
xz=array([.3,-.7,.1,.5,-.2])
y0=np.zeros(2); y1=np.zeros(3)
for _ in range(300):
    y0=np.tanh(ds[0].mats["x"]@xz[:2]+ds[0].mats["y1"]@y1+ds[0].c); y1=np.tanh(ds[1].mats["z"]@xz[2:]+ds[1].mats["y0"]@y0+ds[1].c)
pm=mdf.optimization_problem; pi=idf.optimization_problem
fm=pm.objective.evaluate(xz); gm=pm.constraints[0].evaluate(xz)
xi=np.concatenate([xz,y0,y1])
fi=pi.objective.evaluate(xi)
print("f", fm, fi); 
for c in pi.constraints: print(c.name, c.f_type, c.evaluate(xi))
print("g mdf", gm)
Jm=pm.objective.jac(xz); print("Jm", Jm)
Ji=pi.objective.jac(xi); print("Ji", Ji)
C=np.vstack([np.atleast_2d(c.jac(xi)) for c in pi.constraints if c.name!="g"])
Cx=C[:,:5]; Cy=C[:,5:]
print("implicit", Ji[:5]-Ji[5:]@np.linalg.solve(Cy,Cx))
