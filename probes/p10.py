import logging; logging.disable(logging.CRITICAL)
import warnings; warnings.filterwarnings("ignore")
import numpy as np, time, sys
from numpy import array
from gemseo.algos.design_space import DesignSpace
from gemseo.algos.optimization_problem import OptimizationProblem
from gemseo.core.mdo_functions.mdo_function import MDOFunction
from gemseo.algos.opt.factory import OptimizationLibraryFactory
fac = OptimizationLibraryFactory()
def mkp(cstr):
    ds = DesignSpace(); ds.add_variable("x", 2, lower_bound=-2., upper_bound=2., value=array([-1.5,1.2]))
    p = OptimizationProblem(ds)
    calls=[]
    def f(x): calls.append(tuple(np.asarray(x).real)); return (1-x[0])**2+100*(x[1]-x[0]**2)**2
    def g(x): return array([-400*x[0]*(x[1]-x[0]**2)-2*(1-x[0]), 200*(x[1]-x[0]**2)])
    p.objective = MDOFunction(f, "f", jac=g)
    if cstr:
        p.add_constraint(MDOFunction(lambda x: x[0]+x[1]-1., "c", jac=lambda x: array([1.,1.])), constraint_type="ineq")
    return p, calls
for algo in fac.algorithms:
    for cstr in (False, True):
        for N in (1,2,5):
            p, calls = mkp(cstr)
            t=time.time()
            try:
                if not fac.is_algorithm_suited(algo, p) if hasattr(fac,"is_algorithm_suited") else False:
                    print(algo, cstr, "unsuited"); break
                r = fac.execute(p, algo_name=algo, max_iter=N)
                ok = len(p.database)<=N and len(set(calls))<=N and r is not None
                print("OK " if ok else "BAD", algo, cstr, N, "db", len(p.database), "pts", len(set(calls)), "res", None if r is None else r.f_opt, f"{time.time()-t:.2f}s")
            except Exception as e:
                print("EXC", algo, cstr, N, type(e).__name__, str(e)[:90]); break
