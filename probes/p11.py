import logging; logging.disable(logging.CRITICAL)
import warnings; warnings.filterwarnings("ignore")
import numpy as np, time, itertools
from numpy import array
from gemseo.core.discipline import Discipline
from gemseo.mda.factory import MDAFactory
class Lin(Discipline):
    def __init__(self, name, out, n_out, ins, mats, c, nonlin=False):
        super().__init__(name)
        self.out=out; self.mats=mats; self.c=c; self.nonlin=nonlin
        self.io.input_grammar.update_from_names(list(ins))
        self.io.output_grammar.update_from_names([out])
        self.io.input_grammar.defaults = {k: np.zeros(m.shape[1]) for k,m in mats.items()}
        self.nrun=0
    def _run(self, input_data):
        self.nrun+=1
        s = sum(self.mats[k] @ input_data[k] for k in self.mats) + self.c
        return {self.out: np.tanh(s) if self.nonlin else s}
    def _compute_jacobian(self, input_names=(), output_names=()):
        d = self.io.data
        s = sum(self.mats[k] @ d[k] for k in self.mats) + self.c
        f = (1-np.tanh(s)**2) if self.nonlin else np.ones_like(s)
        self.jac = {self.out: {k: f[:,None]*self.mats[k] for k in self.mats}}
rng = np.random.default_rng(1)
def system(nonlin=False):
    sizes = {"y0":2,"y1":3,"y2":1,"x":2}
    def M(a,b,s): return s*rng.uniform(-1,1,(sizes[a],sizes[b]))/sizes[b]
    d0 = Lin("d0","y0",2,["x","y1","y2"],{"x":M("y0","x",1),"y1":M("y0","y1",.4),"y2":M("y0","y2",.4)},rng.uniform(-1,1,2),nonlin)
    d1 = Lin("d1","y1",3,["x","y0"],{"x":M("y1","x",1),"y0":M("y1","y0",.4)},rng.uniform(-1,1,3),nonlin)
    d2 = Lin("d2","y2",1,["y0","y1"],{"y0":M("y2","y0",.4),"y1":M("y2","y1",.4)},rng.uniform(-1,1,1),nonlin)
    return [d0,d1,d2]
ds = system()
x = array([0.3,-0.7])
# exact
names=["y0","y1","y2"]; off={"y0":0,"y1":2,"y2":5}; sz={"y0":2,"y1":3,"y2":1}
A=np.zeros((6,6)); b=np.zeros(6)
for d in ds:
    r=slice(off[d.out],off[d.out]+sz[d.out])
    b[r]=d.c+ (d.mats["x"]@x if "x" in d.mats else 0)
    for k,m in d.mats.items():
        if k!="x": A[r,off[k]:off[k]+sz[k]]=m
ystar=np.linalg.solve(np.eye(6)-A,b)
print("rho", max(abs(np.linalg.eigvals(A))))
fac=MDAFactory()
for cls,kw in [("MDAJacobi",{}),("MDAGaussSeidel",{}),("MDANewtonRaphson",{}),("MDAQuasiNewton",{}),("MDAQuasiNewton",{"method":"broyden1"}),("MDAGSNewton",{}),("MDAChain",{}),("MDAChain",{"inner_mda_name":"MDANewtonRaphson"}),("MDAJacobi",{"acceleration_method":"Secant"}),("MDAGaussSeidel",{"over_relaxation_factor":0.8})]:
    for perm in ([0,1,2],[2,1,0]):
        t=time.time()
        try:
            m=fac.create(cls,[ds[i] for i in perm],tolerance=1e-10,max_mda_iter=200,**kw)
            out=m.execute({"x":x})
            y=np.concatenate([out[n] for n in names])
            print(f"{cls:18s}{str(kw):45s}{perm} err {abs(y-ystar).max():.2e} it {len(m.residual_history)} res {m.normed_residual:.1e} {time.time()-t:.2f}s")
        except Exception as e: print(cls,kw,perm,"EXC",type(e).__name__,str(e)[:100])
