import logging; logging.disable(logging.CRITICAL)
import warnings; warnings.filterwarnings("ignore")
from gemseo.algos.doe.factory import DOELibraryFactory
from gemseo.mda.factory import MDAFactory
from gemseo.disciplines.factory import DisciplineFactory
from gemseo.formulations.factory import MDOFormulationFactory
from gemseo.mlearning.regression.algos.factory import RegressorFactory
from gemseo.uncertainty.distributions.factory import DistributionFactory
from gemseo.caches.factory import CacheFactory
from gemseo.algos.linear_solvers.factory import LinearSolverLibraryFactory
print("DOE", DOELibraryFactory().algorithms)
print("MDA", MDAFactory().class_names)
print("FORM", MDOFormulationFactory().class_names)
print("REG", RegressorFactory().class_names)
print("DIST", DistributionFactory().class_names)
print("CACHE", CacheFactory().class_names)
print("LS", LinearSolverLibraryFactory().algorithms)
d = DisciplineFactory().class_names
print("DISC", len(d), d)
from gemseo.mlearning.transformers.base_transformer import TransformerFactory
print("TR", TransformerFactory().class_names)
