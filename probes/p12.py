import logging; logging.disable(logging.CRITICAL)
import warnings; warnings.filterwarnings("ignore")
import sys, os, numpy as np, json
from numpy import array
from gemseo.core.discipline import Discipline
from gemseo.scenarios.mdo_scenario import MDOScenario
from gemseo.algos.design_space import DesignSpace
import h5py
K = int(sys.argv[1]); path=sys.argv[2]; load = len(sys.argv)>3
class D(Discipline):
    def __init__(self):
        super().__init__("D")
        self.io.input_grammar.update_from_names(["x"]); self.io.output_grammar.update_from_names(["f","g"])
        self.io.input_grammar.defaults={"x":np.zeros(2)}; self.n=0
    def _run(self, input_data):
        self.n+=1
        x=input_data["x"]
        with open(path+".log","a") as fh:
            fh.write(json.dumps({"n":self.n,"x":x.tolist(),"open":len(h5py.h5f.get_obj_ids(types=h5py.h5f.OBJ_FILE))})+"\n"); fh.flush(); os.fsync(fh.fileno())
        if self.n==K: os._exit(17)
        return {"f": array([(x[0]-1)**2+(x[1]-2)**2]), "g": array([x[0]+x[1]-2.5])}
    def _compute_jacobian(self, input_names=(), output_names=()):
        x=self.io.data["x"]; self.jac={"f":{"x":array([[2*(x[0]-1),2*(x[1]-2)]])},"g":{"x":array([[1.,1.]])}}
ds=DesignSpace(); ds.add_variable("x",2,lower_bound=-5.,upper_bound=5.,value=array([0.,0.]))
sc=MDOScenario([D()],"f",ds,formulation_name="DisciplinaryOpt")
sc.add_constraint("g",constraint_type="ineq")
sc.set_optimization_history_backup(path, at_each_function_call=True, load=load)
sc.execute(algo_name="SLSQP", max_iter=30, normalize_design_space=False)
db=sc.formulation.optimization_problem.database
print("done n_exec", sc.disciplines[0].n, "db", len(db), "fopt", sc.optimization_result.f_opt)
