import logging; logging.disable(logging.CRITICAL)
import warnings; warnings.filterwarnings("ignore")
import numpy as np
from gemseo.algos.design_space import DesignSpace
from gemseo.algos.doe.factory import DOELibraryFactory
fac=DOELibraryFactory()
ds=DesignSpace(); ds.add_variable("a",1,lower_bound=0.,upper_bound=1.); ds.add_variable("b",2,lower_bound=10.,upper_bound=20.); ds.add_variable("i",1,type_="integer",lower_bound=100,upper_bound=103)
lb=ds.get_lower_bounds(); ub=ds.get_upper_bounds()
for algo in fac.algorithms:
    lib=fac.create(algo)
    for kw in ({"n_samples":7},{}):
        try:
            s=lib.compute_doe(ds, **kw)
            s2=fac.create(algo).compute_doe(ds, **kw)
            inb=bool(((s>=lb-1e-9)&(s<=ub+1e-9)).all()); integ=bool((s[:,3]==np.round(s[:,3])).all())
            print(f"{algo:22s}{str(kw):18s} n={len(s):3d} inb={inb} int={integ} repro={np.array_equal(s,s2)} intnorm_restored={not ds.enable_integer_variables_normalization}")
            break
        except Exception as e:
            print(f"{algo:22s}{str(kw):18s} EXC {type(e).__name__} {str(e)[:110]!r}")
