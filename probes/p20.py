import logging; logging.disable(logging.CRITICAL)
import warnings; warnings.filterwarnings("ignore")
import numpy as np
from numpy import array, nan
from gemseo.algos.design_space import DesignSpace
from gemseo.algos.optimization_problem import OptimizationProblem
from gemseo.algos.optimization_result import OptimizationResult
from gemseo.core.mdo_functions.mdo_function import MDOFunction
def mk(maximize=False, std=True):
    ds=DesignSpace(); ds.add_variable("x",1,lower_bound=-10.,upper_bound=10.,value=1.)
    p=OptimizationProblem(ds, use_standardized_objective=std); p.objective=MDOFunction(lambda x:x[0]**2,"f")
    if maximize: p.minimize_objective=False
    p.add_constraint(MDOFunction(lambda x:x,"c"),constraint_type="ineq")
    return p
# feasible points exist but none has objective
p=mk(); p.database.store(array([1.]),{"c":array([-1.])}); p.database.store(array([2.]),{"c":array([-2.]),"f":nan})
try:
    print("opt", p.optimum); print(OptimizationResult.from_optimization_problem(p))
except Exception as e: print("EXC", type(e).__name__, e)
# maximize
for std in (True,False):
    p=mk(True,std); n=p.objective.name; print("objname", n, p.standardized_objective_name)
    p.database.store(array([1.]),{n:-1.,"c":array([-1.])}); p.database.store(array([2.]),{n:-4.,"c":array([-1.])})
    r=OptimizationResult.from_optimization_problem(p); print(std, r.x_opt, r.f_opt, r.optimum_index, r.objective_name)
# tie
p=mk(); p.database.store(array([1.]),{"f":1.,"c":array([-1.])}); p.database.store(array([2.]),{"f":1.,"c":array([-1.])})
print("tie", p.optimum.design)
# eq constraint vector, no feasible
ds=DesignSpace(); ds.add_variable("x",1,lower_bound=-10.,upper_bound=10.,value=1.)
p=OptimizationProblem(ds); p.objective=MDOFunction(lambda x:x[0]**2,"f"); p.add_constraint(MDOFunction(lambda x:x,"h"),constraint_type="eq")
p.database.store(array([1.]),{"f":1.,"h":array([0.5,-0.2])}); p.database.store(array([2.]),{"f":2.,"h":array([-0.3,0.3])}); p.database.store(array([3.]),{"f":2.,"h":array([nan,0.0])})
print("eq", p.optimum.design, [p.history.check_design_point_is_feasible(array([float(i)])) for i in (1,2,3)])
