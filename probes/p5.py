import logging; logging.disable(logging.CRITICAL)
import warnings; warnings.filterwarnings("ignore")
import numpy as np
from numpy import array
from gemseo.disciplines.analytic import AnalyticDiscipline
from gemseo.mda.gauss_seidel import MDAGaussSeidel
from gemseo.mda.jacobi import MDAJacobi
from gemseo.mda.mda_chain import MDAChain
print("== P7 GS weak couplings reversed")
def mk():
    d1 = AnalyticDiscipline({"y1": "2*x"}, name="d1")
    d2 = AnalyticDiscipline({"y2": "y1+1"}, name="d2")
    d3 = AnalyticDiscipline({"y3": "3*y2"}, name="d3")
    d4 = AnalyticDiscipline({"y4": "y3-5"}, name="d4")
    return [d4, d3, d2, d1]
x = {"x": array([1.5])}
exp = dict(y1=3., y2=4., y3=12., y4=7.)
for cls in (MDAGaussSeidel, MDAJacobi, MDAChain):
    m = cls(mk())
    out = m.execute(x)
    print(cls.__name__, {k: float(out[k][0]) for k in exp}, "expected", exp)
# mixed: strongly coupled pair + weak downstream chain listed first
def mk2():
    a = AnalyticDiscipline({"ya": "0.5*yb + x"}, name="a")
    b = AnalyticDiscipline({"yb": "0.25*ya + 1"}, name="b")
    c = AnalyticDiscipline({"yc": "ya + yb"}, name="c")
    d = AnalyticDiscipline({"yd": "2*yc"}, name="d")
    return [d, c, a, b]
# exact: ya = .5 yb + x ; yb = .25 ya + 1 -> ya = .5(.25 ya +1)+x => ya(1-.125) = .5 + x
ya = (0.5+1.5)/0.875; yb = .25*ya+1; yc = ya+yb; yd = 2*yc
for cls in (MDAGaussSeidel, MDAJacobi, MDAChain):
    m = cls(mk2(), tolerance=1e-12, max_mda_iter=100)
    out = m.execute(x)
    print(cls.__name__, [float(out[k][0]) for k in ("ya","yb","yc","yd")], "exact", [ya,yb,yc,yd])
