import logging; logging.disable(logging.CRITICAL)
import warnings; warnings.filterwarnings("ignore")
import numpy as np, os
from numpy import array
from gemseo.algos.database import Database
print("== C11 append")
f="/tmp/probe/db.h5"
if os.path.exists(f): os.remove(f)
db = Database()
db.store(array([1.,2.]), {"f": 1.0})
db.store(array([3.,4.]), {})
db.to_hdf(f, append=True)
db.store(array([3.,4.]), {"g": array([1.,2.]), "a": 3.0})
db.store(array([1.,2.]), {"@f": array([[1.,2.]]), "b": 2.0, "Iter":[1]})
db.store(array([5.,6.]), {"f": 7.0})
db.to_hdf(f, append=True)
db.store(array([1.,2.]), {"aa": 5.0})
db.to_hdf(f, append=True)
r = Database.from_hdf(f)
for (k,v),(k2,v2) in zip(db.items(), r.items()):
    print(k.wrapped_array, v, "|", k2.wrapped_array, v2)
print(len(db), len(r))
print("== C05 aliasing")
from gemseo.core.discipline import Discipline
class D(Discipline):
    n=0
    def __init__(self):
        super().__init__("D"); self.io.input_grammar.update_from_names(["x"]); self.io.output_grammar.update_from_names(["y"]); self.io.input_grammar.defaults={"x":array([0.])}
    def _run(self, input_data):
        D.n+=1; return {"y": 2*input_data["x"]}
for ct,kw in (("SimpleCache",{}),("MemoryFullCache",{"is_memory_shared":False}),("MemoryFullCache",{"is_memory_shared":True})):
    d = D(); d.set_cache(ct, **kw); D.n=0
    x = array([1.,2.])
    o1 = d.execute({"x": x})["y"].copy()
    x[0] = 10.   # caller modifies in place
    o2 = d.execute({"x": array([1.,2.])})["y"].copy()
    o3 = d.execute({"x": x})["y"].copy()
    print(ct, kw, o1, o2, o3, "runs", D.n)
