import logging; logging.disable(logging.CRITICAL)
import warnings; warnings.filterwarnings("ignore")
import numpy as np, inspect
from gemseo.uncertainty.distributions.factory import DistributionFactory
fac=DistributionFactory()
for n in fac.class_names:
    cls=fac.get_class(n)
    print(n, inspect.signature(cls.__init__))
from gemseo.uncertainty.distributions.scipy.normal import SPNormalDistribution
from gemseo.uncertainty.distributions.openturns.normal import OTNormalDistribution
for cls in (SPNormalDistribution, OTNormalDistribution):
    d=cls(mu=1.,sigma=2.)
    print(cls.__name__, d.mean, d.standard_deviation, d.range, d.support, d.compute_cdf(1.5), d.compute_inverse_cdf(0.3), d.compute_samples(3))
from gemseo.algos.parameter_space import ParameterSpace
ps=ParameterSpace(); ps.add_variable("d",2,lower_bound=1.,upper_bound=3.,value=2.)
ps.add_random_variable("u","SPTriangularDistribution",minimum=0.,mode=1.,maximum=4.)
ps.add_random_variable("n","OTNormalDistribution",mu=1.,sigma=2.)
x=np.array([1.5,2.5,1.0,0.5])
t=ps.transform_vect(x); print("transform", t, "back", ps.untransform_vect(t))
print(ps.compute_samples(2), ps.variable_names)
