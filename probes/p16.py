import logging; logging.disable(logging.CRITICAL)
import warnings; warnings.filterwarnings("ignore")
import numpy as np
from numpy import array
from lin import Lin
from gemseo.core.chains.chain import MDOChain
from gemseo.core.chains.parallel_chain import MDOParallelChain
r=np.random.default_rng(5)
def M(m,n): return r.uniform(-1,1,(m,n))
# overwritten variable: d0: a=f(x) ; d1: b=g(a) ; d2: a=h(b,x) (overwrites a) ; d3: o=k(a,b,x)
def mk():
    r=np.random.default_rng(5)
    M=lambda m,n: r.uniform(-1,1,(m,n))
    d0=Lin("d0","a",2,["x"],{"x":M(2,3)},r.uniform(-1,1,2))
    d1=Lin("d1","b",1,["a"],{"a":M(1,2)},r.uniform(-1,1,1))
    d2=Lin("d2","a",2,["b","x"],{"b":M(2,1),"x":M(2,3)},r.uniform(-1,1,2))
    d3=Lin("d3","o",2,["a","b","x"],{"a":M(2,2),"b":M(2,1),"x":M(2,3)},r.uniform(-1,1,2))
    return [d0,d1,d2,d3]
ds=mk()
A0=ds[0].mats["x"]; B=ds[1].mats["a"]@A0; A2=ds[2].mats["b"]@B+ds[2].mats["x"]; O=ds[3].mats["a"]@A2+ds[3].mats["b"]@B+ds[3].mats["x"]
ch=MDOChain(mk())
x={"x":array([.1,.2,.3])}
for req in ([["x"],["o"]],[["x"],["a"]],[["x"],["b","o","a"]]):
    ch=MDOChain(mk()); ch.add_differentiated_inputs(req[0]); ch.add_differentiated_outputs(req[1])
    J=ch.linearize(x)
    for o in req[1]:
        ex={"o":O,"a":A2,"b":B}[o]
        Jb=J[o]["x"]; Jb=Jb.toarray() if hasattr(Jb,"toarray") else np.asarray(Jb)
        print(req[1], o, "err", abs(Jb-ex).max())
out=MDOChain(mk()).execute(x)
print("exec a ok", np.allclose(out["a"], ds[2].mats["b"]@(ds[1].mats["a"]@(A0@x["x"]+ds[0].c)+ds[1].c)+ds[2].mats["x"]@x["x"]+ds[2].c))
