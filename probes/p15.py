import logging; logging.disable(logging.CRITICAL)
import warnings; warnings.filterwarnings("ignore")
import numpy as np, itertools
from numpy import array
from lin import Lin
from gemseo.mda.factory import MDAFactory
from gemseo.core.discipline import Discipline
rng=np.random.default_rng(3)
sizes={"y0":2,"y1":3,"y2":1,"x":2,"z":3,"f":2}
def M(a,b,s): return s*rng.uniform(-1,1,(sizes[a],sizes[b]))/sizes[b]
def mk():
    r=np.random.default_rng(3)
    def M(a,b,s): return s*r.uniform(-1,1,(sizes[a],sizes[b]))/sizes[b]
    d0=Lin("d0","y0",2,["x","y1","y2"],{"x":M("y0","x",1),"y1":M("y0","y1",.4),"y2":M("y0","y2",.4)},r.uniform(-1,1,2),True)
    d1=Lin("d1","y1",3,["z","y0"],{"z":M("y1","z",1),"y0":M("y1","y0",.4)},r.uniform(-1,1,3),True)
    d2=Lin("d2","y2",1,["y0","y1"],{"y0":M("y2","y0",.4),"y1":M("y2","y1",.4)},r.uniform(-1,1,1),True)
    d3=Lin("d3","f",2,["x","y2","y1"],{"x":M("f","x",1),"y2":M("f","y2",1),"y1":M("f","y1",1)},r.uniform(-1,1,2),True)
    return [d0,d1,d2,d3]
inp={"x":array([0.3,-0.7]),"z":array([0.1,0.5,-0.2])}
def solve(ds,inp):
    y={"y0":np.zeros(2),"y1":np.zeros(3),"y2":np.zeros(1)}
    for _ in range(500):
        for d in ds[:3]:
            data={**inp,**y}; s=sum(d.mats[k]@data[k] for k in d.mats)+d.c; y[d.out]=np.tanh(s)
    return y
ds=mk(); y=solve(ds,inp)
# exact total derivative by FD on harness solve (central, h=1e-6) as a quick reference
def F(inp):
    y=solve(ds,inp); d=ds[3]; data={**inp,**y}; return np.tanh(sum(d.mats[k]@data[k] for k in d.mats)+d.c)
def fd(name):
    J=np.zeros((2,len(inp[name])))
    for j in range(len(inp[name])):
        e=np.zeros(len(inp[name])); e[j]=1e-6
        J[:,j]=(F({**inp,name:inp[name]+e})-F({**inp,name:inp[name]-e}))/2e-6
    return J
ref={"x":fd("x"),"z":fd("z")}
fac=MDAFactory()
for cls,kw in [("MDAGaussSeidel",{}),("MDAJacobi",{}),("MDAChain",{}),("MDAChain",{"inner_mda_name":"MDANewtonRaphson"})]:
  for mode in ("auto","direct","adjoint"):
    for mt in ("matrix","linear_operator"):
      for lu in (False,True):
        if lu and mt!="matrix": continue
        try:
            m=fac.create(cls,mk(),tolerance=1e-13,max_mda_iter=300,use_lu_fact=lu,linear_solver_tolerance=1e-13,**kw)
            m.linearization_mode=mode; m.matrix_type=mt
            m.add_differentiated_inputs(["x","z"]); m.add_differentiated_outputs(["f"])
            J=m.linearize(inp)
            err=max(abs(np.asarray(J["f"][k].todense() if hasattr(J["f"][k],"todense") else J["f"][k])-ref[k]).max() for k in ref)
            print(f"{cls:16s}{str(kw):40s}{mode:8s}{mt:16s}lu={lu} err={err:.1e}")
        except Exception as e: print(cls,kw,mode,mt,lu,"EXC",type(e).__name__,str(e)[:120])
