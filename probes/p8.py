import logging; logging.disable(logging.CRITICAL)
import warnings; warnings.filterwarnings("ignore")
import numpy as np
from numpy import array, inf
from gemseo.algos.design_space import DesignSpace
from gemseo.algos.optimization_problem import OptimizationProblem
from gemseo.core.mdo_functions.mdo_function import MDOFunction
from gemseo.core.mdo_functions.mdo_linear_function import MDOLinearFunction
def mk(norm, rnd, usedb=True, storejac=True):
    ds = DesignSpace()
    ds.add_variable("a", 1, lower_bound=1., upper_bound=3., value=2.)
    ds.add_variable("e", 1, lower_bound=5., upper_bound=5., value=5.)      # equal bounds
    ds.add_variable("u", 1, lower_bound=-inf, upper_bound=4., value=0.)   # half bounded
    ds.add_variable("i", 1, type_="integer", lower_bound=0, upper_bound=10, value=3)
    p = OptimizationProblem(ds)
    calls=[]
    def f(x): calls.append(("f",tuple(x))); return x[0]**2+3*x[1]+x[2]*x[3]
    def g(x): calls.append(("g",tuple(x))); return array([2*x[0], 3., x[3], x[2]])
    p.objective = MDOFunction(f,"f",jac=g)
    p.add_constraint(MDOLinearFunction(array([[1.,2.,3.,4.]]), "lin", value_at_zero=array([1.])), constraint_type="ineq")
    p.preprocess_functions(is_function_input_normalized=norm, use_database=usedb, round_ints=rnd, store_jacobian=storejac)
    return p, calls, ds
for norm in (True, False):
    for rnd in (True, False):
        p, calls, ds = mk(norm, rnd)
        xu = array([2.5, 5., 1.25, 3.4])
        try:
            xn = ds.normalize_vect(xu) if norm else xu
            v = p.objective.evaluate(xn); J = p.objective.jac(xn)
            l = p.constraints[0].evaluate(xn); Jl = p.constraints[0].jac(xn)
            print(f"norm={norm} round={rnd} xn={xn} f={v} J={J} lin={l} Jl={Jl}")
            print("   calls", calls)
            for k,val in p.database.items(): print("   db", k.wrapped_array, k.wrapped_array.dtype, {a:(b if not hasattr(b,'shape') else b.tolist()) for a,b in val.items()})
            v2 = p.objective.evaluate(xn); print("   second eval calls", len(calls))
        except Exception as e:
            import traceback; traceback.print_exc()
