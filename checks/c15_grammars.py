"""C15 — grammars stay well-formed under edits and validate exactly their definition.

Monitors: (M4) dictionary reference model executed in lock-step with the real grammars
(``vlib/ref/c15_grammar_model.py``), jsonschema as reference validator on ``to_json()``;
(M2) icontract class invariants on ``BaseGrammar`` and its three subclasses; (M3) snapshots of every
grammar of the pool after every operation (independence of copies / pickles / update sources, read-only
queries); (M8) anchors.  See DESIGN.md section 3, C15.

A *case* is a history: a list of JSON-able operations applied to a pool of grammars ("slots"); slot 0 and 1
exist from the start, ``copy`` / ``deepcopy`` / ``pickle`` / ``file`` append a new slot and the history goes
on with all of them.  The same history is run in up to three "worlds" (JSON, simple, pydantic grammars), each
with its own model; a world skips the operations its grammar class cannot express.
"""

from __future__ import annotations

import copy as _copy
import json
import pickle
import random
import traceback
from pathlib import Path

import numpy as np

from vlib.harness import subseed
from vlib.ref import c15_grammar_model as rm

PID = "C15"
LEVEL = "exploration"
RULE = (
    "seeded generator of edit histories (5-30 operations out of update_from_names/types/data/schema, "
    "update(other, excluded, merge), restrict_to, rename_element, del, add_namespace, clear, copy, deepcopy, "
    "pickle, to_file+reload, defaults set/del/replace, required_names add/discard, and operations that must "
    "raise) on a pool of grammars, run in lock-step on JSONGrammar/SimpleGrammar/PydanticGrammar ('lockstep' "
    "histories, common operations and canonical types) or on JSONGrammar alone ('json' histories, all "
    "operations, merges, generated schemas, nested values); after every operation every grammar of the pool is "
    "compared with its dictionary model on names, required names, defaults and on the verdicts of a battery of "
    "data dictionaries (valid, required-only, one name missing, one wrong type, sub-type corners, extra name, "
    "empty, plus the battery of the previous step). A history is distinct by (kind, sequence of operation "
    "names with merge/exclusion flags and the kind of slot they hit) and non-trivial when it has >= 3 "
    "state-changing operations; plus every *.json grammar shipped under src/gemseo with generated valid data "
    "and single-fault mutations"
)
ASSUMPTIONS = [
    "jsonschema (Draft4Validator / Draft7Validator chosen from the '$schema' of to_json(), Draft 7 for the "
    "unversioned URI like fastjsonschema does) is the reference JSON-schema validator; 'format' is not asserted "
    "by the reference (optional in the specification) and format-only disagreements are observations",
    "the documented cast of JSONGrammar (ndarray -> list of real parts, complex -> real, path -> str, nested) is "
    "re-implemented in the reference model and applied before the reference validator",
    "a merge is decided only when both operands are plain typed fragments and at most one of them is an "
    "array/object; merges with an untyped operand, of two arrays, or of fragments with enum/minimum are observed",
    "sub-type corners between JSON and simple grammars (int for number, bool for integer, list for array, "
    "item types of arrays) and JSON 'number' -> Python complex in to_simple_grammar() are observations",
    "namespace maps are judged only for what the edit documents (add_namespace records both directions, update "
    "adds the other grammar's entries); stale entries after rename/delete/restrict are observations",
    "pydantic grammars: an element is required exactly when its model field has no default; "
    "required_names edits, merges and None types are not shared operations and are skipped there",
]
ANCHORS = [
    "gemseo.core.grammars.required_names:RequiredNames.add",
    "gemseo.core.grammars.required_names:RequiredNames.discard",
    "gemseo.core.grammars.defaults:Defaults.__setitem__",
    "gemseo.core.grammars.base_grammar:BaseGrammar.validate",
    "gemseo.core.grammars.base_grammar:BaseGrammar.update",
    "gemseo.core.grammars.base_grammar:BaseGrammar.restrict_to",
    "gemseo.core.grammars.base_grammar:BaseGrammar.rename_element",
    "gemseo.core.grammars.base_grammar:BaseGrammar.add_namespace",
    "gemseo.core.grammars.base_grammar:BaseGrammar.__copy__",
    "gemseo.core.grammars.base_grammar:BaseGrammar.__delitem__",
    "gemseo.core.grammars.json_grammar:JSONGrammar._validate",
    "gemseo.core.grammars.json_grammar:JSONGrammar._create_validator",
    "gemseo.core.grammars.json_grammar:JSONGrammar.__init_dependencies",
    "gemseo.core.grammars.json_grammar:JSONGrammar.update_from_schema",
    "gemseo.core.grammars.json_grammar:JSONGrammar.update_from_file",
    "gemseo.core.grammars.json_grammar:JSONGrammar.__setstate__",
    "gemseo.core.grammars.json_schema:MutableMappingSchemaBuilder.add_schema",
    "gemseo.core.grammars.simple_grammar:SimpleGrammar._validate",
    "gemseo.core.grammars.pydantic_grammar:PydanticGrammar._validate",
    "gemseo.core.namespaces:update_namespaces",
]
# about half of what seed 0 observes on the unchanged tree (thorough = quick scaled by the number of histories)
MIN_COUNTERS = {
    "quick": {
        "histories": 570, "state_comparisons": 43000, "contract_invariant_evaluations": 2600000,
        "verdicts_checked": 520000, "json:verdicts_checked": 260000, "simple:verdicts_checked": 140000,
        "pydantic:verdicts_checked": 120000, "verdicts_expected_accept": 150000, "verdicts_expected_reject": 340000,
        "previous_battery_verdicts_checked": 270000, "reference_validator_comparisons": 250000,
        "agreement_verdicts_compared": 98000, "read_only_queries": 185000, "namespace_checks": 1600,
        "illegal_ops_checked": 750, "shipped_files_loaded": 25, "shipped_verdicts_checked": 500, "op:copy": 550,
        "op:pickle": 550, "op:deepcopy": 250, "op:file": 80, "op:schema": 250, "op:update": 1300, "op:rename": 850,
        "op:del": 900, "op:restrict": 750, "op:ns": 500, "op:clear": 280, "directed_cases": 21,
    },
    "thorough": {
        "histories": 8142, "state_comparisons": 614285, "contract_invariant_evaluations": 37142857,
        "verdicts_checked": 7428571, "json:verdicts_checked": 3714285, "simple:verdicts_checked": 2000000,
        "pydantic:verdicts_checked": 1714285, "verdicts_expected_accept": 2142857,
        "verdicts_expected_reject": 4857142, "previous_battery_verdicts_checked": 3857142,
        "reference_validator_comparisons": 3571428, "agreement_verdicts_compared": 1400000,
        "read_only_queries": 2642857, "namespace_checks": 22857, "illegal_ops_checked": 10714,
        "shipped_files_loaded": 25, "shipped_verdicts_checked": 500, "op:copy": 7857, "op:pickle": 7857,
        "op:deepcopy": 3571, "op:file": 1142, "op:schema": 3571, "op:update": 18571, "op:rename": 12142,
        "op:del": 12857, "op:restrict": 10714, "op:ns": 7142, "op:clear": 4000, "directed_cases": 21,
    },
}
SHARD_TIMEOUT = {"quick": 900, "thorough": 3600}

CLS = {"json": "JSONGrammar", "simple": "SimpleGrammar", "pydantic": "PydanticGrammar"}
TYPES = {"int": int, "float": float, "str": str, "bool": bool, "ndarray": np.ndarray, "list": list,
         "tuple": tuple, "complex": complex, "none": None, "dict": dict}
COPY_OPS = ("copy", "deepcopy", "pickle", "file")
CHANGING = ("names", "types", "data", "schema", "update", "restrict", "rename", "del", "ns", "clear",
            "setdef", "deldef", "setdefs", "req", "unreq")


def shards(tier, seed):
    import os

    n = 16
    per = {"quick": 70, "thorough": 1000}[tier]
    # development aid only (deliberate breaks on a loaded machine): run a prefix of every shard's histories
    per = max(1, int(per * float(os.environ.get("VERIF_C15_SCALE", "1"))))
    return [{"seed": subseed(seed, "C15", i), "n_histories": per,
             "budget_s": {"quick": 700, "thorough": 3300}[tier]} for i in range(n)]


# --------------------------------------------------------------------------- value encoding
def dec(v):
    """Decode a JSON-able value description into the Python value handed to gemseo."""
    if isinstance(v, dict):
        if "nd" in v:
            return np.array(dec(v["nd"]), dtype={"float": float, "int": int, "complex": complex, "bool": bool,
                                                  "str": str}[v["dtype"]])
        if "tuple" in v:
            return tuple(dec(x) for x in v["tuple"])
        if "complex" in v:
            return complex(*v["complex"])
        if "map" in v:
            return {k: dec(x) for k, x in v["map"].items()}
        if "path" in v:
            return Path(v["path"])
        if "npf" in v:
            return np.float64(v["npf"])
        if "npi" in v:
            return np.int64(v["npi"])
        raise ValueError(f"unknown value tag {v}")
    if isinstance(v, list):
        return [dec(x) for x in v]
    return v


def enc(v):
    if isinstance(v, np.ndarray):
        k = v.dtype.kind
        dt = {"f": "float", "i": "int", "c": "complex", "b": "bool", "U": "str"}[k]
        if k == "c":
            return {"nd": [{"complex": [x.real, x.imag]} for x in v.ravel().tolist()], "dtype": dt} if v.ndim == 1 \
                else {"nd": _enc_nested_complex(v.tolist()), "dtype": dt}
        return {"nd": v.tolist(), "dtype": dt}
    if isinstance(v, np.floating):
        return {"npf": float(v)}
    if isinstance(v, np.integer):
        return {"npi": int(v)}
    if isinstance(v, tuple):
        return {"tuple": [enc(x) for x in v]}
    if isinstance(v, complex):
        return {"complex": [v.real, v.imag]}
    if isinstance(v, dict):
        return {"map": {k: enc(x) for k, x in v.items()}}
    if isinstance(v, Path):
        return {"path": str(v)}
    if isinstance(v, list):
        return [enc(x) for x in v]
    return v


def _enc_nested_complex(x):
    if isinstance(x, list):
        return [_enc_nested_complex(y) for y in x]
    return {"complex": [x.real, x.imag]}


def same_value(a, b) -> bool:
    if isinstance(a, np.ndarray) or isinstance(b, np.ndarray):
        return isinstance(a, np.ndarray) and isinstance(b, np.ndarray) and a.dtype == b.dtype and np.array_equal(a, b)
    if isinstance(a, dict) and isinstance(b, dict):
        return a.keys() == b.keys() and all(same_value(a[k], b[k]) for k in a)
    if isinstance(a, (list, tuple)) and isinstance(b, (list, tuple)):
        return type(a) is type(b) and len(a) == len(b) and all(same_value(x, y) for x, y in zip(a, b))
    return type(a) is type(b) and a == b


# --------------------------------------------------------------------------- (M2) contracts on the real classes
class InvariantBroken(Exception):
    """Raised by the icontract invariants attached to the real grammar classes."""


_CONTRACTS = {"installed": False, "evaluations": 0}


def _element_names(self):
    """Names of the elements read from the private storage (no public method, nothing refreshed)."""
    d = self.__dict__
    if "_JSONGrammar__schema_builder" in d:
        return d["_JSONGrammar__schema_builder"].properties
    if "_SimpleGrammar__names_to_types" in d:
        return d["_SimpleGrammar__names_to_types"]
    if "_PydanticGrammar__model" in d:
        return d["_PydanticGrammar__model"].model_fields
    return None


def _inv_required(self) -> bool:
    _CONTRACTS["evaluations"] += 1
    names = _element_names(self)
    req = self.__dict__.get("_required_names")
    return names is None or req is None or all(n in names for n in req)


def _inv_defaults(self) -> bool:
    names = _element_names(self)
    dflt = self.__dict__.get("_defaults")
    if names is None or dflt is None:
        return True
    try:
        data = dflt.__dict__["_Defaults__data"]
    except KeyError:
        return True
    return all(n in names for n in data)


def install_contracts(rep=None):
    """Attach ``required <= names`` and ``defaults <= names`` as class invariants of BaseGrammar (icontract), once.

    They are evaluated before/after every public method defined in the base class (update*, validate, restrict_to,
    rename_element, add_namespace, clear, copy, __delitem__, ...), i.e. also in the middle of compound edits.
    """
    if _CONTRACTS["installed"]:
        return
    _CONTRACTS["installed"] = True
    try:
        import icontract

        from gemseo.core.grammars.base_grammar import BaseGrammar

        icontract.invariant(_inv_required, "required names refer to existing elements",
                            error=lambda self: InvariantBroken("required"))(BaseGrammar)
        icontract.invariant(_inv_defaults, "defaults refer to existing elements",
                            error=lambda self: InvariantBroken("defaults"))(BaseGrammar)
        # validate() is called ~10^6 times by the batteries and is covered by the read-only clause: keep it unwrapped
        original = getattr(BaseGrammar.__dict__["validate"], "__wrapped__", None)
        if original is not None:
            BaseGrammar.validate = original
    except Exception as e:  # the harness then relies on its own evaluation of the same invariants
        _CONTRACTS["error"] = f"{type(e).__name__}: {e}"
        if rep is not None:
            rep.observe("icontract-not-installed", _CONTRACTS["error"])


# --------------------------------------------------------------------------- reference validator (jsonschema)
_REF_CACHE: dict[str, object] = {}


def reference_validator(schema_json: str):
    v = _REF_CACHE.get(schema_json)
    if v is None:
        from jsonschema import Draft7Validator
        from jsonschema.validators import validator_for

        schema = json.loads(schema_json)
        cls = validator_for(schema, default=Draft7Validator)
        if "$schema" in schema and "draft-0" not in schema["$schema"]:
            cls = Draft7Validator  # unversioned URI: fastjsonschema and we take draft 7
        v = (cls(schema), schema)
        if len(_REF_CACHE) > 2000:
            _REF_CACHE.clear()
        _REF_CACHE[schema_json] = v
    return v


# --------------------------------------------------------------------------- battery of data dictionaries
BAD_POOL = ["zz", 7, 2.5, True, None, {"q": 1}, ["zz"], np.array(["u"]), np.array([1.5])]
CORNERS = {
    "number": [7, True, 1 + 2j, np.float64(2.5), np.array(1.5), np.int64(3)],
    "integer": [True, 2.0, np.int64(3), 2.5],
    "array": [[1.5], (1.5, 2.5), np.array([1, 2]), np.array([[1.5]]), np.array([1 + 1j]), [], np.array([True]),
              np.array([]), [1.5, "zz"], np.array(["u"])],
    "string": [Path("p"), np.str_("w")],
    "boolean": [1, np.bool_(True)],
    "any": [None, {"q": 1}],
    "other": [7, [1.5], "zz", [1.5, "zz"], {"k": "zz"}, {"q": 1}],
}


def fragment_example(frag):
    if "enum" in frag:
        return frag["enum"][0]
    if "anyOf" in frag:
        return fragment_example(frag["anyOf"][0])
    t = frag.get("type")
    if isinstance(t, list):
        t = t[0]
    if t == "integer":
        return max(3, int(frag.get("minimum", 0)) + 1)
    if t == "number":
        return max(1.5, float(frag.get("minimum", 0)) + 1.0)
    if t == "string":
        return "file:///tmp/x.h5" if frag.get("format") == "uri" else "s"
    if t == "boolean":
        return True
    if t == "null":
        return None
    if t == "array":
        n = max(2, frag.get("minItems", 0))
        if "maxItems" in frag:
            n = min(n, frag["maxItems"])
        items = frag.get("items")
        if isinstance(items, dict):
            it = fragment_example(items)
            vals = [it + i if isinstance(it, (int, float)) and not isinstance(it, bool) and "enum" not in items else it
                    for i in range(n)]
            if vals and all(isinstance(x, float) for x in vals):
                return np.array(vals)
            if vals and all(isinstance(x, int) and not isinstance(x, bool) for x in vals):
                return np.array(vals, dtype=int)
            return vals
        return np.array([1.5 + i for i in range(n)])  # untyped array: the canonical value is a float ndarray
    if t == "object":
        props = frag.get("properties", {})
        return {k: fragment_example(props.get(k, {})) for k in frag.get("required", list(props))}
    return 1.5


PY_EXAMPLES = {int: 3, float: 1.5, str: "s", bool: True, np.ndarray: np.array([1.5, 2.5]), list: [1.5],
               tuple: (1.5,), complex: 1 + 2j, None: 1.5}


def good_values(spec):
    if isinstance(spec, rm.JSONSpec):
        return [fragment_example(a) for a in spec.alts]
    if spec.pytype in PY_EXAMPLES:
        return [PY_EXAMPLES[spec.pytype]]
    return [{"k": 1}]  # Mapping


def bad_values(spec, flavour):
    out = []
    for b in BAD_POOL:
        v = rm.cast(b) if flavour == "json" else b
        if spec.accepts(v) is False:
            out.append(b)
    return out


def build_battery(model, step, touched=(), prev_valid=None):
    """Data dictionaries derived from the current model state (deterministic given the step number).

    ``touched``: names the last operation dealt with (probed first); ``prev_valid``: the valid values of the previous
    step, re-submitted one at a time inside otherwise valid data (sharpest probe for a stale definition).
    """
    names = model.names
    first = [n for n in touched if n in model.elements]
    order = first + [n for n in names[step % max(1, len(names)):] + names[:step % max(1, len(names))] if n not in first]
    good = {n: good_values(model.elements[n]) for n in names}
    valid = {n: good[n][0] for n in names}
    bat = [("valid", valid), ("empty", {})]
    req = sorted(model.required)
    if set(req) != set(names):
        bat.append(("required-only", {n: valid[n] for n in req}))
    bat.append(("extra", dict(valid, **{"__extra__": "zz"})))
    for i, n in enumerate([n for n in order if n in model.required][:3]):
        bat.append(("missing", {m: v for m, v in valid.items() if m != n}))
    for i, n in enumerate(order[:4]):
        bad = bad_values(model.elements[n], model.flavour)
        if bad:
            bat.append(("wrong", dict(valid, **{n: bad[(step + i) % len(bad)]})))
        for alt in good[n][1:]:
            bat.append(("alt", dict(valid, **{n: alt})))
    if prev_valid:
        for n in [n for n in order if n in prev_valid and not same_value(prev_valid[n], valid[n])][:4]:
            bat.append(("old-value", dict(valid, **{n: prev_valid[n]})))
    for i, n in enumerate(order[:3]):
        kind = model.elements[n].kind()
        pool = CORNERS.get(kind, CORNERS["other"])
        for j in range(2):
            bat.append((f"corner:{kind}", dict(valid, **{n: pool[(step + i + j) % len(pool)]})))
    return bat


def touched_names(op, world=None):
    o = op["op"]
    if o == "names":
        return list(op["names"])
    if o in ("types", "data"):
        return list(op[o])
    if o == "schema":
        return list(op["schema"].get("properties", {}))
    if o == "rename":
        return [op["new"]]
    if o == "ns":
        return [SEPNAME(op)]
    if o == "update" and world is not None:
        m = world.slots[op["other"]].m
        return [n for n in (m.names if m is not None else []) if n not in op["excluded"]]
    return []


def real_verdict(g, data):
    """(accepted?, exception or None) of the real grammar."""
    from gemseo.core.grammars.errors import InvalidDataError

    try:
        g.validate(data)
        return True, None
    except InvalidDataError:
        return False, None
    except InvariantBroken:
        raise
    except Exception as e:  # noqa: BLE001
        return None, e


# --------------------------------------------------------------------------- worlds: real grammars + models
class Slot:
    def __init__(self, g, model, kind="root", parent=None, group=0):
        self.g = g
        self.m = model
        self.kind = kind          # root / copy / deepcopy / pickle / file
        self.parent = parent
        self.group = group        # slots related by shallow copies only share a group
        self.alive = True
        self.sync = True          # every operation aimed at this slot (and its sources) was applied
        self.prev_battery = []
        self.prev_valid = {}
        self.taint = set()        # mechanisms of already identified defects this grammar went through
        self.last_op = "init"


def _where(exc) -> str:
    """Innermost frame of the grammar package in the traceback: 'module.function'."""
    where = "?"
    for fr in traceback.extract_tb(exc.__traceback__):
        fn = fr.filename.replace("\\", "/")
        if "/gemseo/core/grammars/" in fn or fn.endswith("/gemseo/core/namespaces.py"):
            where = f"{Path(fn).stem}.{fr.name}"
    return where


def _through(exc, stem) -> bool:
    return any(Path(fr.filename).stem == stem for fr in traceback.extract_tb(exc.__traceback__))


def has_object(frag) -> bool:
    t = frag.get("type")
    return t == "object" or (isinstance(t, list) and "object" in t) or any(has_object(f) for f in frag.get("anyOf", ()))


def op_features(op) -> str:
    f = []
    if op.get("merge"):
        f.append("merge")
    if op.get("excluded"):
        f.append("excluded")
    if op["op"] == "data" and any(isinstance(v, dict) and "map" in v for v in op["data"].values()):
        f.append("nested")
    if op["op"] == "schema" and any(p.get("type") == "object" for p in op["schema"].get("properties", {}).values()):
        f.append("nested")
    return (":" + "+".join(f)) if f else ""


class World:
    def __init__(self, flavour, rep, case, scratch):
        self.fl = flavour
        self.rep = rep
        self.case = case
        self.scratch = scratch
        self.cls = CLS[flavour]
        self.slots: list[Slot] = []
        self.next_group = 0
        self.nfile = 0
        for i in range(2):
            self.slots.append(Slot(self.new_grammar(f"g{i}"), rm.GrammarModel(flavour), group=self._group()))
        pyd = case.get("pyd_fields")
        if pyd and flavour == "pydantic":
            self._init_pydantic(pyd)

    def _group(self):
        self.next_group += 1
        return self.next_group

    def new_grammar(self, name, **kw):
        if self.fl == "json":
            from gemseo.core.grammars.json_grammar import JSONGrammar as G
        elif self.fl == "simple":
            from gemseo.core.grammars.simple_grammar import SimpleGrammar as G
        else:
            from gemseo.core.grammars.pydantic_grammar import PydanticGrammar as G
        return G(name, **kw)

    def _init_pydantic(self, fields):
        """Slot 0 from a user model: fields with a default are optional, the others required."""
        from pydantic import create_model

        from gemseo.utils.pydantic_ndarray import NDArrayPydantic

        defs = {}
        m = self.slots[0].m
        for name, (tname, default) in fields.items():
            t = TYPES[tname]
            ann = NDArrayPydantic if t is np.ndarray else t
            if default is None:
                defs[name] = (ann, ...)
                m.required.add(name)
            else:
                defs[name] = (ann, dec(default))
                m.field_defaults.add(name)
                m.defaults[name] = dec(default)
            m.elements[name] = rm.PySpec(t, False)
        self.slots[0].g = self.new_grammar("g0", model=create_model("UserModel", **defs))
        self.slots[0].user_model = True

    # -- which operations a grammar class can express ------------------------------------------------
    def expressible(self, op) -> bool:
        o = op["op"]
        if self.fl == "json":
            return True
        if o in ("schema", "file"):
            return False
        if self.fl == "simple":
            return True
        # pydantic
        if o in ("req", "unreq") or op.get("merge"):
            return False
        if o == "types" and any(t in ("none", "complex", "dict") for t in op["types"].values()):
            return False
        if o == "data" and any(not isinstance(dec(v), (int, float, str, bool, np.ndarray)) for v in op["data"].values()):
            return False
        if o in ("pickle", "deepcopy") and getattr(self.slots[op["on"]], "user_model", False):
            return False
        return True

    # -- one operation on the real grammar / on the model ---------------------------------------------
    def _real(self, op, slot):
        g, o = slot.g, op["op"]
        if o == "names":
            g.update_from_names(list(op["names"]), merge=op["merge"])
        elif o == "types":
            g.update_from_types({n: TYPES[t] for n, t in op["types"].items()}, merge=op["merge"])
        elif o == "data":
            g.update_from_data({n: dec(v) for n, v in op["data"].items()}, merge=op["merge"])
        elif o == "schema":
            g.update_from_schema(_copy.deepcopy(op["schema"]), merge=op["merge"])
        elif o == "update":
            g.update(self.slots[op["other"]].g, excluded_names=list(op["excluded"]), merge=op["merge"])
        elif o == "restrict":
            g.restrict_to(list(op["names"]))
        elif o == "rename":
            g.rename_element(op["cur"], op["new"])
        elif o == "del":
            del g[op["name"]]
        elif o == "ns":
            g.add_namespace(op["name"], op["ns"])
        elif o == "clear":
            g.clear()
        elif o == "copy":
            return g.copy()
        elif o == "deepcopy":
            return _copy.deepcopy(g)
        elif o == "pickle":
            return pickle.loads(pickle.dumps(g))
        elif o == "file":
            self.nfile += 1
            path = Path(self.scratch) / f"c15_{id(self) % 100000}_{self.nfile}.json"
            g.to_file(path)
            new = self.new_grammar(g.name + "f", file_path=path)
            path.unlink()
            return new
        elif o == "setdef":
            g.defaults[op["name"]] = dec(op["value"])
        elif o == "deldef":
            del g.defaults[op["name"]]
        elif o == "setdefs":
            g.defaults = {n: dec(v) for n, v in op["data"].items()}
        elif o == "req":
            g.required_names.add(op["name"])
        elif o == "unreq":
            g.required_names.discard(op["name"])
        else:
            raise ValueError(f"unknown operation {o}")
        return None

    def _model(self, op, slot):
        m, o = slot.m, op["op"]
        if o == "names":
            m.update_from_names(op["names"], op["merge"])
        elif o == "types":
            m.update_from_types({n: TYPES[t] for n, t in op["types"].items()}, op["merge"])
        elif o == "data":
            m.update_from_data({n: dec(v) for n, v in op["data"].items()}, op["merge"])
        elif o == "schema":
            m.update_from_schema(op["schema"], op["merge"])
        elif o == "update":
            m.update(self.slots[op["other"]].m, op["excluded"], op["merge"])
        elif o == "restrict":
            m.restrict_to(op["names"])
        elif o == "rename":
            m.rename_element(op["cur"], op["new"])
        elif o == "del":
            m.delete(op["name"])
        elif o == "ns":
            m.add_namespace(op["name"], op["ns"])
        elif o == "clear":
            m.clear()
        elif o in ("copy", "deepcopy", "pickle"):
            return m.copy()
        elif o == "file":
            new = m.copy()
            new.defaults, new.to_ns, new.from_ns = {}, {}, {}
            return new
        elif o == "setdef":
            m.set_default(op["name"], dec(op["value"]))
        elif o == "deldef":
            m.del_default(op["name"])
        elif o == "setdefs":
            m.set_defaults({n: dec(v) for n, v in op["data"].items()})
        elif o == "req":
            m.require(op["name"])
        elif o == "unreq":
            m.unrequire(op["name"])
        return None

    # -- apply + judge -----------------------------------------------------------------------------------
    def violation(self, sig, clause, step, observed, expected, msg="", slot=None, kind=""):
        """Report; a slot that went through an already identified defect mechanism keeps that mechanism's signature."""
        if slot is not None and slot.taint:
            if self.fl == "pydantic":
                sig = "C15:PydanticGrammar:copy:model-shared-with-original"
            elif self.fl == "json" and kind == "verdict":
                sig = "C15:JSONGrammar:update-without-merge:" + "+".join(sorted(slot.taint))
        self.rep.violation(sig, clause, stored_case(self.case, failing_step=step, failing_world=self.fl),
                           observed=observed, expected=expected, msg=msg)

    def mechanisms(self, op):
        """Known defect mechanisms an operation may trigger (used only to name the signature of a later failure)."""
        if self.fl != "json" or op.get("merge"):
            return set()
        o, out = op["op"], set()

        def mixed(v):
            if isinstance(v, list):
                kinds = {json.dumps(rm.infer_fragment(x), sort_keys=True) for x in v}
                return len(kinds) > 1 or any(mixed(x) for x in v)
            if isinstance(v, dict):
                return any(mixed(x) for x in v.values())
            return False

        if o == "data":
            vals = [rm.cast(dec(v)) for v in op["data"].values()]
            if any(isinstance(v, dict) for v in vals[:-1]):
                out.add("nested-object-before-sibling")
            if any(mixed(v) for v in vals):
                out.add("mixed-array-keeps-last-item-type")
        elif o == "schema":
            frags = list(op["schema"].get("properties", {}).values())
            if any(has_object(f) for f in frags[:-1]):
                out.add("nested-object-before-sibling")
        elif o == "update":
            m = self.slots[op["other"]].m
            specs = [s for n, s in m.elements.items() if n not in op["excluded"]]
            if any(has_object(f) for s in specs[:-1] for f in s.alts):
                out.add("nested-object-before-sibling")
        return out

    def apply(self, step, op):
        rep = self.rep
        o = op["op"]
        tgt = op["on"]
        slot = self.slots[tgt] if tgt < len(self.slots) else None
        usable = (slot is not None and slot.alive and self.expressible(op)
                  and (o != "update" or self.slots[op["other"]].alive))
        if not usable:
            rep.count(f"{self.fl}:ops_skipped")
            if slot is not None:
                slot.sync = False
            if o in COPY_OPS:  # keep slot numbering identical in all worlds
                dead = Slot(None, None, kind=o, parent=tgt, group=self._group())
                dead.alive = dead.sync = False
                self.slots.append(dead)
            return
        if o == "update" and not self.slots[op["other"]].sync:
            slot.sync = False
        # the model first: it tells whether the operation is legal
        m_before = slot.m.copy()
        try:
            new_model = self._model(op, slot)
            expected_error = None
        except rm.ModelError as e:
            slot.m = m_before
            new_model, expected_error = None, e.kind
        real_error = None
        new_g = None
        mechs = self.mechanisms(op)
        try:
            new_g = self._real(op, slot)
        except InvariantBroken as e:
            self.violation(f"C15:{self.cls}:invariant:{e.args[0]}-refer-to-missing-elements:{o}",
                           "well-formed: required names and defaults refer to existing elements", step,
                           observed=f"class invariant broken inside operation {o}", expected="invariant holds", slot=slot)
            slot.alive = False
            real_error = e
        except Exception as e:  # noqa: BLE001
            real_error = e
        rep.count(f"{self.fl}:ops_applied")
        rep.count(f"op:{o}")
        slot.last_op = o
        if expected_error is None:
            slot.taint |= mechs
            if o == "update":
                slot.taint |= self.slots[op["other"]].taint
        if o in COPY_OPS:
            ns = Slot(new_g, new_model, kind=o, parent=tgt,
                      group=slot.group if o == "copy" else self._group())
            ns.sync = slot.sync
            ns.taint = set(slot.taint)
            ns.copy_lineage = o == "copy" or getattr(slot, "copy_lineage", False)
            if o == "copy" and self.fl == "pydantic":
                slot.taint.add("shared-model")
                ns.taint.add("shared-model")
            if hasattr(slot, "user_model"):
                ns.user_model = True
            if real_error is not None or new_g is None:
                ns.alive = False
            self.slots.append(ns)
        if expected_error is not None:
            rep.count("illegal_ops_checked")
            if real_error is None:
                rep.observe(f"{self.cls}:{o}:no-exception-where-{expected_error}-is-documented", op)
                self._well_formed(slot, step, op)  # a missing membership check shows up as a dangling name
                slot.alive = False                  # the model no longer describes this grammar
                return
            if not self._well_formed(slot, step, op):
                slot.alive = False
                return
            if not self._same_state(slot):
                rep.observe(f"{self.cls}:{o}:partial-edit-before-raising", op)
                slot.alive = False
                return
        elif real_error is not None and slot.alive:
            self.violation(self._exception_signature(op, slot, real_error),
                           "a legal edit raises", step,
                           observed=f"{type(real_error).__name__}: {real_error} (raised in {_where(real_error)})",
                           expected=f"operation {o} succeeds; model state {slot.m.describe()}", slot=slot)
            slot.alive = False
        self.judge_all(step, op, tgt, failed=expected_error is not None)
        if slot.alive:
            self.read_only(step, op, slot)

    def _exception_signature(self, op, slot, exc):
        where = _where(exc)
        # a shallow copy, and whatever is pickled / deep-copied / copied from it, carries required names bound to the
        # grammar the first copy was made from
        shared = getattr(slot, "copy_lineage", False)
        if shared and isinstance(exc, KeyError) and _through(exc, "required_names"):
            return "C15:BaseGrammar:copy:required-names-bound-to-original:KeyError"
        return f"C15:{self.cls}:{op['op']}:exception:{type(exc).__name__}@{where}{op_features(op)}"

    # -- observations of one real grammar -------------------------------------------------------------------
    @staticmethod
    def state(g):
        return {"names": list(g.keys()), "required": set(g.required_names), "defaults": dict(g.defaults),
                "to_ns": _copy.deepcopy(dict(g.to_namespaced)), "from_ns": _copy.deepcopy(dict(g.from_namespaced))}

    def _diff(self, slot):
        """Which of names / required / defaults differ between the real grammar and its model."""
        st, m = self.state(slot.g), slot.m
        what = []
        if sorted(st["names"]) != sorted(m.names):
            what.append("names")
        if st["required"] != m.required:
            what.append("required")
        if st["defaults"].keys() != m.defaults.keys() or any(
                not same_value(st["defaults"][k], m.defaults[k]) for k in m.defaults):
            what.append("defaults")
        return what, st

    def _same_state(self, slot):
        return not self._diff(slot)[0]

    def _well_formed(self, slot, step, op, other_edited=None) -> bool:
        """required <= names and defaults <= names; ``other_edited``: relation to the edited slot when this one was not."""
        self.rep.count("invariant_evaluations")
        o = op["op"]

        def sig(which):
            if other_edited is None:
                if which == "required" and getattr(slot, "copy_lineage", False):
                    # names added through the copy are checked against the grammar the copy was made from
                    return "C15:BaseGrammar:copy:required-names-bound-to-original:dangling"
                return f"C15:{self.cls}:invariant:{which}-refer-to-missing-elements:{o}"
            return f"C15:BaseGrammar:independence:{other_edited}:{which}-changed-by-edit-of-another-grammar"

        clause = "well-formed: required names and defaults refer to existing elements"
        try:
            st = self.state(slot.g)
        except InvariantBroken as e:  # the contract on the real class fired while the harness was reading the state
            self.violation(sig(e.args[0]), clause, step,
                           observed=f"class invariant on {e.args[0]} broken after operation {o}",
                           expected={"invariant": "holds", "op": op}, slot=slot)
            return False
        ok = True
        for what, names in (("required", st["required"]), ("defaults", set(st["defaults"]))):
            dangling = set(names) - set(st["names"])
            if dangling:
                ok = False
                self.violation(sig(what), clause, step, observed={"names": st["names"], what: sorted(names)},
                               expected={"invariant": f"{what} <= names", "op": op}, slot=slot)
        return ok

    def _relation(self, affected_idx, tgt, op):
        a, t = self.slots[affected_idx], self.slots[tgt]
        if a.group == t.group:
            return "copy"
        if op["op"] == "update" and op.get("other") == affected_idx:
            return "update-source"
        if a.parent == tgt:
            return a.kind
        if t.parent == affected_idx:
            return t.kind
        return "unrelated"

    def judge_all(self, step, op, tgt, failed=False):
        rep = self.rep
        o = op["op"]
        new_idx = len(self.slots) - 1 if o in COPY_OPS else None
        for idx, slot in enumerate(self.slots):
            if not slot.alive:
                continue
            edited = idx in (tgt, new_idx)
            if not self._well_formed(slot, step, op, None if edited else self._relation(idx, tgt, op)):
                slot.alive = False
                continue
            what, st = self._diff(slot)
            rep.count("state_comparisons")
            if what:
                w = "+".join(what)
                if edited:
                    lineage = ":new-slot" if idx == new_idx else ""
                    sig = f"C15:{self.cls}:{o}:{w}-differ-from-definition{lineage}{op_features(op)}"
                    lost = slot.m.required - st["required"]
                    if what == ["required"] and lost and not (st["required"] - slot.m.required):
                        if o == "schema" and lost <= set(op["schema"].get("required", ())):
                            sig = "C15:JSONGrammar:update_from_schema:required-of-schema-lost-after-earlier-update"
                        elif o == "file":
                            sig = "C15:JSONGrammar:to_json:required-names-not-exported"
                    clause = "names, required names and defaults after an edit"
                else:
                    rel = self._relation(idx, tgt, op)
                    owner = "BaseGrammar" if set(what) <= {"required", "defaults"} else self.cls
                    sig = f"C15:{owner}:independence:{rel}:{w}-changed-by-edit-of-another-grammar"
                    clause = "an edit of one grammar leaves the others unchanged (copy/pickle/update source)"
                self.violation(sig, clause, step,
                               observed={"slot": idx, "names": st["names"], "required": sorted(st["required"]),
                                         "defaults": sorted(st["defaults"])},
                               expected=dict(slot.m.describe(), slot=idx, edited_slot=tgt, op=op), slot=slot)
                slot.alive = False
                continue
            if not failed:
                self._judge_namespaces(step, op, idx, tgt, slot, st)
            self._judge_verdicts(step, op, idx, edited, tgt, slot)

    def _judge_namespaces(self, step, op, idx, tgt, slot, st):
        rep, m, o = self.rep, slot.m, op["op"]
        if idx == tgt and o == "ns" and SEPNAME(op) in m.elements:
            rep.count("namespace_checks")
            new = SEPNAME(op)
            if st["to_ns"].get(op["name"]) != new or st["from_ns"].get(new) != op["name"]:
                self.violation(f"C15:{self.cls}:add_namespace:maps-not-updated", "add_namespace records both maps", step,
                               observed={"to": st["to_ns"], "from": st["from_ns"]},
                               expected={"to": {op["name"]: new}, "from": {new: op["name"]}})
        if idx == tgt and o == "update" and self.slots[op["other"]].m.elements:
            other = self.slots[op["other"]].m
            rep.count("namespace_checks")
            for which, real_map, other_map in (("to_namespaced", st["to_ns"], other.to_ns),
                                               ("from_namespaced", st["from_ns"], other.from_ns)):
                for k, v in other_map.items():
                    have = real_map.get(k)
                    have = [have] if isinstance(have, str) else list(have or [])
                    want = [v] if isinstance(v, str) else list(v)
                    if not set(want) <= set(have):
                        self.violation(f"C15:{self.cls}:update:namespaces-not-propagated:{which}",
                                       "update adds the namespaces of the other grammar", step,
                                       observed={which: real_map}, expected={k: v})
                        return
        if st["to_ns"] != m.to_ns or st["from_ns"] != m.from_ns:
            rep.observe(f"namespace-maps-differ-from-model-after:{slot.last_op}",
                        {"real": [st["to_ns"], st["from_ns"]], "model": [m.to_ns, m.from_ns]})
        stale = [k for k in st["from_ns"] if k not in st["names"]]
        if stale:
            rep.observe(f"namespace-map-entry-for-missing-element-after:{slot.last_op}", {"from_namespaced": st["from_ns"],
                                                                                      "names": st["names"]})

    def _judge_verdicts(self, step, op, idx, edited, tgt, slot):
        rep, m, g = self.rep, slot.m, slot.g
        if edited:
            new_bat = build_battery(m, step, touched_names(op, self) if idx == tgt else (), slot.prev_valid)
            battery = new_bat + [("prev", d) for _, d in slot.prev_battery[:8]]
            slot.prev_battery = new_bat[:16]
            slot.prev_valid = new_bat[0][1]
        else:  # untouched grammar: its previous battery must keep its verdicts
            battery = list(slot.prev_battery[:8])
        ref = None
        if self.fl == "json":
            try:
                js = g.to_json()
                ref, schema = reference_validator(js)
            except Exception as e:  # noqa: BLE001
                self.violation(f"C15:JSONGrammar:to_json:exception:{type(e).__name__}@{_where(e)}", "to_json works", step,
                               observed=f"{type(e).__name__}: {e}", expected="a JSON schema")
        verdicts = []
        for tag, data in battery:
            expected = m.accepts(data)
            got, exc = real_verdict(g, data)
            verdicts.append(got)
            if exc is not None:
                if expected is None:
                    rep.observe(f"{self.cls}:validate-raises-{type(exc).__name__}-on-corner:{tag}", repr(data)[:200])
                    continue
                self.violation(f"C15:{self.cls}:validate:exception:{type(exc).__name__}@{_where(exc)}", "validate decides",
                               step, observed=f"{type(exc).__name__}: {exc}", expected=expected, msg=repr(data)[:300], slot=slot)
                slot.alive = False
                return
            rep.count("verdicts_checked")
            rep.count(f"{self.fl}:verdicts_checked")
            if tag == "prev" or not edited:
                rep.count("previous_battery_verdicts_checked")
            if expected is None:
                rep.count("verdicts_undecided_by_statement")
                u = m.union_accepts(data)
                if u is not None and u != got:
                    rep.observe(f"{self.cls}:undecided-corner:grammar-{'accepts' if got else 'rejects'}-where-union-of-"
                                f"definitions-{'accepts' if u else 'rejects'}:{tag}",
                                {"data": enc_data(data), "specs": m.describe()["specs"]})
            else:
                rep.count("verdicts_expected_accept" if expected else "verdicts_expected_reject")
                if got != expected:
                    kind = "missing-name" if (m.required - set(data)) else "type"
                    direction = "accepts-invalid" if got else "rejects-valid"
                    if edited:
                        sig = f"C15:{self.cls}:{slot.last_op}:verdict:{direction}:{kind}{op_features(op) if idx == tgt else ''}"
                        clause = "validation reflects the current definition"
                    else:
                        sig = (f"C15:{self.cls}:independence:{self._relation(idx, tgt, op)}:"
                               f"verdict-changed-by-edit-of-another-grammar:{direction}:{kind}")
                        clause = "an edit of one grammar leaves the validation of the others unchanged"
                    self.violation(sig, clause, step,
                                   observed={"slot": idx, "data": enc_data(data), "accepted": got, "tag": tag},
                                   expected={"accepted": expected, "definition": m.describe(), "op": op}, slot=slot, kind="verdict")
                    slot.alive = False
                    return
            if ref is not None and rm.json_native(rm.cast(data)):
                r = ref.is_valid(rm.cast(data))
                rep.count("reference_validator_comparisons")
                if r != got:
                    self._reference_mismatch(step, op, slot, schema, data, got, r, tag)
        slot.verdicts = verdicts

    def _reference_mismatch(self, step, op, slot, schema, data, got, r, tag):
        cast = rm.cast(data)
        props = schema.get("properties", {})
        if any("format" in p and isinstance(cast.get(n), str) for n, p in props.items()):
            self.rep.observe("JSONGrammar:format-asserted-by-grammar-not-by-reference", {"data": enc_data(data)})
            return
        if set(schema.get("required", [])) != set(slot.g.required_names):
            sig = "C15:JSONGrammar:to_json:required-names-not-exported"
        else:
            sig = (f"C15:JSONGrammar:validate-vs-reference:{'accepts' if got else 'rejects'}-where-reference-"
                   f"{'accepts' if r else 'rejects'}:{tag.split(':')[0]}")
        self.violation(sig, "JSON grammars accept exactly what a reference JSON-schema validator accepts on to_json()",
                       step, observed={"grammar_accepts": got, "data": enc_data(data),
                                       "required_names": sorted(slot.g.required_names)},
                       expected={"reference_accepts": r, "to_json": schema})

    # -- read-only queries --------------------------------------------------------------------------------------
    def light(self, g):
        st = self.state(g)
        out = [st["names"], sorted(st["required"]), sorted(st["defaults"]), repr(sorted(st["to_ns"].items())),
               repr(sorted(st["from_ns"].items())), [enc(v) if not isinstance(v, dict) else enc_data(v)
                                                      for _, v in sorted(st["defaults"].items())]]
        if self.fl == "json":
            out.append(g.to_json())
        return out

    def read_only(self, step, op, slot):
        rep, g, m = self.rep, slot.g, slot.m
        battery = slot.prev_battery
        valid = battery[0][1] if battery else {}
        queries = [
            ("keys", lambda: (list(g.keys()), list(g.names), list(g.names_without_namespace), len(g), "zz" in g)),
            ("required_names", lambda: (set(g.required_names), len(g.required_names), str(g.required_names))),
            ("defaults", lambda: (dict(g.defaults), repr(g.defaults), g.defaults.copy())),
            ("items", lambda: [(k, g[k]) for k in g]),
            ("has_names", lambda: g.has_names(list(m.names)[:2])),
            ("validate", lambda: (real_verdict(g, valid), real_verdict(g, {}), g.validate({"__x__": object()}, raise_exception=False))),
            ("repr", lambda: (repr(g), str(g), g._repr_html_())),
            ("copy", lambda: g.copy()),
        ]
        if self.fl in ("json", "pydantic"):
            queries.insert(3, ("schema", lambda: g.schema))
        if self.fl == "json":
            queries.insert(4, ("to_json", lambda: (g.to_json(), g.to_json(indent=2))))
        if not getattr(slot, "user_model", False):
            queries.append(("pickle.dumps", lambda: pickle.dumps(g)))
        queries.append(("to_simple_grammar", lambda: g.to_simple_grammar()))
        try:
            before = self.light(g)
            for name, q in queries:
                try:
                    q()
                except InvariantBroken:
                    raise
                except Exception as e:  # noqa: BLE001
                    rep.observe(f"{self.cls}:read-only-query-raises:{name}:{type(e).__name__}", str(e)[:200])
                rep.count("read_only_queries")
                after = self.light(g)
                if after != before:
                    self.violation(f"C15:{self.cls}:read-only:{name}:changes-the-grammar", "read-only queries never change "
                                   "the grammar", step, observed=after, expected=before, slot=slot)
                    slot.alive = False
                    return
            verdicts = [real_verdict(g, d)[0] for _, d in battery] 
            want = getattr(slot, "verdicts", None)
            if want is not None and verdicts != want[:len(verdicts)]:
                self.violation(f"C15:{self.cls}:read-only:verdicts-change-after-queries", "read-only queries never change "
                               "the grammar", step, observed=verdicts, expected=want[:len(verdicts)], slot=slot)
                slot.alive = False
        except InvariantBroken as e:
            self.violation(f"C15:{self.cls}:invariant:{e.args[0]}-refer-to-missing-elements:read-only", "well-formed",
                           step, observed="class invariant broken by a read-only query", expected="holds", slot=slot)
            slot.alive = False


def stored_case(case, **extra):
    """Witness form of a history: the operations as one JSON string (the harness truncates deeply nested values)."""
    out = {k: v for k, v in case.items() if k != "ops"}
    out["n_ops"] = len(case["ops"])
    out["ops_json"] = json.dumps(case["ops"])
    out.update(extra)
    return out


def SEPNAME(op):
    return op["ns"] + rm.SEP + op["name"]


def enc_data(data):
    out = {}
    for k, v in data.items():
        try:
            out[k] = enc(v)
        except Exception:  # noqa: BLE001
            out[k] = repr(v)
    return out


# --------------------------------------------------------------------------- running one history
def case_signature(case):
    return (case["kind"], tuple((o["op"], bool(o.get("merge")), bool(o.get("excluded")), o["on"] > 1) for o in case["ops"]))


def agreement(step, wj, ws, rep, case):
    """JSON and simple grammars built by the same operations agree where both definitions decide."""
    for idx in range(min(len(wj.slots), len(ws.slots))):
        sj, ss = wj.slots[idx], ws.slots[idx]
        if not (sj.alive and ss.alive and sj.sync and ss.sync):
            continue
        if sj.m.names != ss.m.names or sj.m.required != ss.m.required:
            rep.count("agreement_skipped_definitions_differ")
            continue
        for tag, data in sj.prev_battery[:12]:
            ej, es = sj.m.accepts(data), ss.m.accepts(data)
            vj, vs = real_verdict(sj.g, data)[0], real_verdict(ss.g, data)[0]
            if ej is not None and ej == es:
                rep.count("agreement_verdicts_compared")
                if vj != vs:
                    rep.violation(f"C15:agreement:json-vs-simple:{tag.split(':')[0]}",
                                  "JSON and simple grammars agree on the definitions both can express",
                                  stored_case(case, failing_step=step), observed={"json": vj, "simple": vs, "data": enc_data(data)},
                                  expected={"both": ej, "definition": sj.m.describe()})
                    sj.alive = False
                    break
            elif vj != vs:
                rep.count("agreement_corners_observed")
                rep.observe(f"json-vs-simple-differ-on-subtype-corner:{tag}",
                            {"data": enc_data(data), "json": vj, "simple": vs, "kinds": sj.m.kinds()})


def observe_to_simple(wj, rep):
    """to_simple_grammar() of a JSON grammar vs the JSON grammar itself (outside the statement: observed)."""
    for slot in wj.slots:
        if not slot.alive or not slot.m.elements:
            continue
        try:
            sg = slot.g.to_simple_grammar()
        except Exception as e:  # noqa: BLE001
            rep.observe(f"JSONGrammar.to_simple_grammar-raises:{type(e).__name__}", slot.m.describe()["specs"])
            continue
        rep.count("to_simple_grammar_conversions")
        kinds = slot.m.kinds()
        for tag, data in slot.prev_battery[:6]:
            vj, vs = real_verdict(slot.g, data)[0], real_verdict(sg, data)[0]
            if vj != vs:
                rep.observe(f"to_simple_grammar-verdict-differs:json-{'accepts' if vj else 'rejects'}:{tag}",
                            {"data": enc_data(data), "kinds": kinds, "simple_types": {k: repr(v) for k, v in sg.items()}})


def run_history(case, rep):
    install_contracts(rep)
    scratch = rep.spec.get("scratch") or "."
    worlds = {fl: World(fl, rep, case, scratch) for fl in case["flavours"]}
    for step, op in enumerate(case["ops"]):
        for w in worlds.values():
            w.apply(step, op)
        if "json" in worlds and "simple" in worlds:
            agreement(step, worlds["json"], worlds["simple"], rep, case)
    if "json" in worlds:
        observe_to_simple(worlds["json"], rep)
    changing = sum(1 for o in case["ops"] if o["op"] in CHANGING)
    rep.case(case_signature(case), changing >= 3)
    rep.count("histories")
    rep.count(f"histories:{case['kind']}")
    rep.count("contract_invariant_evaluations", _CONTRACTS["evaluations"])
    _CONTRACTS["evaluations"] = 0
    for fl, w in worlds.items():
        rep.count(f"{fl}:slots_dropped_after_divergence", sum(1 for s in w.slots if s.g is not None and not s.alive))


# --------------------------------------------------------------------------- history generator
NAME_POOL = ["a", "b", "c", "d", "e", "x", "y", "z", "u1", "v2"]
NS_POOL = ["n1", "n2"]
CANON_TYPES = ["int", "float", "str", "bool", "ndarray", "none"]
JSON_TYPES = [*CANON_TYPES, "list", "tuple", "complex"]
FRAGMENTS = [
    {"type": "integer"}, {"type": "number"}, {"type": "string"}, {"type": "boolean"},
    {"type": "array", "items": {"type": "number"}}, {"type": "array", "items": {"type": "integer"}},
    {"type": "array", "items": {"type": "string"}}, {"type": "array"},
    {"type": "array", "items": {"type": "number"}, "minItems": 1, "maxItems": 3},
    {"type": "number", "minimum": 0}, {"type": "integer", "minimum": 1}, {"type": "string", "enum": ["u", "v"]},
    {"type": "object", "properties": {"k": {"type": "integer"}}, "required": ["k"]},
    {"type": "object", "properties": {"k": {"type": "string"}, "m": {"type": "number"}}, "required": ["m"]},
    {}, {"type": ["integer", "string"]},
    {"anyOf": [{"type": "integer"}, {"type": "array", "items": {"type": "number"}}]},
]


def gen_value(rng, kind):
    r = rng.random()
    if kind == "lockstep":
        c = rng.randrange(6)
    else:
        c = rng.randrange(13)
    if c == 0:
        return rng.randrange(-5, 50)
    if c == 1:
        return round(rng.uniform(-3, 3), 2) + 0.005
    if c == 2:
        return rng.choice(["s", "t", "uv"])
    if c == 3:
        return r < 0.5
    if c == 4:
        return {"nd": [round(rng.uniform(-2, 2), 2) for _ in range(rng.randrange(1, 4))], "dtype": "float"}
    if c == 5:
        return {"nd": [rng.randrange(9) for _ in range(rng.randrange(1, 4))], "dtype": "int"}
    if c == 6:
        return [1.5, 2.5][: rng.randrange(0, 3)]
    if c == 7:
        return rng.choice([[1, "s"], ["s", "t"], [1, 2.5], [[1.5], [2.5]]])
    if c == 8:
        return {"tuple": [1.5, 2.5]}
    if c == 9:
        return {"map": rng.choice([{"k": 1}, {"k": "s", "m": 2.5}, {"k": {"map": {"q": True}}}])}
    if c == 10:
        return {"complex": [1.0, 2.0]}
    if c == 11:
        return {"nd": [{"complex": [1.0, 1.0]}], "dtype": "complex"}
    return {"npf": 2.5}


def gen_history(rng: random.Random, kind: str):
    lock = kind == "lockstep"
    shadow = [rm.GrammarModel("json"), rm.GrammarModel("json")]
    n_ops = rng.randrange(5, 31)
    p_merge = 0.04 if lock else 0.25
    ops = []
    weights = {"names": 14, "types": 12, "data": 12, "update": 10, "restrict": 5, "rename": 6, "del": 6, "ns": 4,
               "clear": 2, "copy": 4, "deepcopy": 2, "pickle": 4, "setdef": 6, "deldef": 2, "setdefs": 2, "req": 4,
               "unreq": 6, "illegal": 4}
    if not lock:
        weights.update(schema=9, file=3)
    keys, w = list(weights), list(weights.values())

    def some_names(k=None):
        k = k or rng.randrange(1, 4)
        return rng.sample(NAME_POOL, k)

    while len(ops) < n_ops:
        on = rng.randrange(len(shadow))
        m = shadow[on]
        o = rng.choices(keys, w)[0] if len(ops) >= 2 else rng.choice(["names", "types", "data"])
        merge = rng.random() < p_merge
        names = m.names
        op = None
        if o in COPY_OPS:
            if len(shadow) < 6:
                op = {"op": o, "on": on}
        elif o == "names":
            op = {"op": "names", "on": on, "names": some_names(), "merge": merge}
        elif o == "types":
            pool = CANON_TYPES if lock else JSON_TYPES
            op = {"op": "types", "on": on, "types": {n: rng.choice(pool) for n in some_names()}, "merge": merge}
        elif o == "data":
            op = {"op": "data", "on": on, "data": {n: gen_value(rng, kind) for n in some_names()}, "merge": merge}
        elif o == "schema":
            props = {n: _copy.deepcopy(rng.choice(FRAGMENTS)) for n in some_names(rng.randrange(1, 5))}
            schema = {"type": "object", "properties": props}
            req = [n for n in props if rng.random() < 0.5]
            if req or rng.random() < 0.2:
                schema["required"] = req
            if rng.random() < 0.4:
                schema["$schema"] = "http://json-schema.org/draft-04/schema"
            op = {"op": "schema", "on": on, "schema": schema, "merge": merge}
        elif o == "update":
            other = rng.choice([i for i in range(len(shadow)) if i != on])
            onames = shadow[other].names
            excl = [n for n in onames if rng.random() < 0.4] if rng.random() < 0.4 else []
            if excl and rng.random() < 0.3:
                excl.append("nope")
            op = {"op": "update", "on": on, "other": other, "excluded": excl, "merge": merge}
        elif o == "restrict" and names:
            op = {"op": "restrict", "on": on, "names": [n for n in names if rng.random() < 0.6]}
        elif o == "rename" and names:
            fresh = [n for n in NAME_POOL + ["r1", "r2", "r3"] if n not in names]
            op = {"op": "rename", "on": on, "cur": rng.choice(names), "new": rng.choice(fresh)}
        elif o == "del" and names:
            op = {"op": "del", "on": on, "name": rng.choice(names)}
        elif o == "ns":
            plain = [n for n in names if rm.SEP not in n]
            if plain:
                op = {"op": "ns", "on": on, "name": rng.choice(plain), "ns": rng.choice(NS_POOL)}
        elif o == "clear":
            op = {"op": "clear", "on": on}
        elif o == "setdef" and names:
            op = {"op": "setdef", "on": on, "name": rng.choice(names), "value": gen_value(rng, "lockstep")}
        elif o == "deldef" and m.defaults:
            op = {"op": "deldef", "on": on, "name": rng.choice(sorted(m.defaults))}
        elif o == "setdefs" and names:
            op = {"op": "setdefs", "on": on, "data": {n: gen_value(rng, "lockstep") for n in names if rng.random() < 0.5}}
        elif o == "req" and names:
            op = {"op": "req", "on": on, "name": rng.choice(names)}
        elif o == "unreq" and names:
            op = {"op": "unreq", "on": on, "name": rng.choice(names + ["nope"])}
        elif o == "illegal":
            c = rng.randrange(6)
            if c == 0:
                op = {"op": "req", "on": on, "name": "nope"}
            elif c == 1:
                op = {"op": "setdef", "on": on, "name": "nope", "value": 1.5}
            elif c == 2:
                op = {"op": "restrict", "on": on, "names": [*names[:1], "nope"]}
            elif c == 3:
                op = {"op": "del", "on": on, "name": "nope"}
            elif c == 4:
                op = {"op": "rename", "on": on, "cur": "nope", "new": "r9"}
            else:
                spaced = [n for n in names if rm.SEP in n]
                if spaced:
                    op = {"op": "ns", "on": on, "name": spaced[0], "ns": "n3"}
        if op is None:
            continue
        ops.append(op)
        # keep the shadow in step (only used to generate meaningful operations)
        try:
            w_ = _ShadowWorld(shadow)
            new = World._model(w_, op, w_.slots[on])
            if new is not None:
                shadow.append(new)
        except rm.ModelError:
            pass
    flavours = ["json", "simple", "pydantic"] if lock else ["json"]
    return {"kind": kind, "flavours": flavours, "ops": ops}


class _ShadowSlot:
    def __init__(self, m):
        self.m = m


class _ShadowWorld:
    def __init__(self, models):
        self.slots = [_ShadowSlot(m) for m in models]


# --------------------------------------------------------------------------- directed cases (DESIGN.md corners)
def directed_cases():
    A = {"nd": [1.0], "dtype": "float"}
    all3 = ["json", "simple", "pydantic"]
    out = []

    def case(name, flavours, ops, **kw):
        out.append(dict({"kind": "directed:" + name, "flavours": flavours, "ops": ops}, **kw))

    # copy: the copy must be independent (required names, new elements, deletions)
    case("copy-discard-required", all3, [{"op": "names", "on": 0, "names": ["a", "b"], "merge": False},
                                         {"op": "setdef", "on": 0, "name": "b", "value": A},
                                         {"op": "copy", "on": 0}, {"op": "unreq", "on": 2, "name": "a"}])
    case("copy-new-element", all3, [{"op": "names", "on": 0, "names": ["a", "b"], "merge": False},
                                    {"op": "copy", "on": 0}, {"op": "names", "on": 2, "names": ["c"], "merge": False}])
    case("copy-edit-original", all3, [{"op": "names", "on": 0, "names": ["a", "b"], "merge": False},
                                      {"op": "copy", "on": 0}, {"op": "unreq", "on": 0, "name": "b"},
                                      {"op": "del", "on": 0, "name": "a"}])
    case("copy-delete-in-copy", all3, [{"op": "names", "on": 0, "names": ["a", "b"], "merge": False},
                                       {"op": "copy", "on": 0}, {"op": "del", "on": 2, "name": "a"},
                                       {"op": "rename", "on": 2, "cur": "b", "new": "r1"}])
    case("copy-then-clear-original", all3, [{"op": "names", "on": 0, "names": ["a", "b"], "merge": False},
                                            {"op": "copy", "on": 0}, {"op": "clear", "on": 0},
                                            {"op": "names", "on": 0, "names": ["x"], "merge": False},
                                            {"op": "req", "on": 2, "name": "x"}])
    for how in ("deepcopy", "pickle"):
        case(f"{how}-independent", all3, [{"op": "names", "on": 0, "names": ["a", "b"], "merge": False},
                                          {"op": "setdef", "on": 0, "name": "b", "value": A}, {"op": how, "on": 0},
                                          {"op": "unreq", "on": 2, "name": "a"},
                                          {"op": "names", "on": 2, "names": ["c"], "merge": False},
                                          {"op": "del", "on": 0, "name": "a"}])
    # staleness of the compiled validator / cached schema after each kind of edit
    case("stale-validator", all3, [{"op": "types", "on": 0, "types": {"a": "int", "b": "str", "c": "float"}, "merge": False},
                                   {"op": "types", "on": 0, "types": {"a": "str"}, "merge": False},
                                   {"op": "rename", "on": 0, "cur": "b", "new": "r1"},
                                   {"op": "del", "on": 0, "name": "c"},
                                   {"op": "names", "on": 0, "names": ["x", "y"], "merge": False},
                                   {"op": "restrict", "on": 0, "names": ["x", "a"]},
                                   {"op": "unreq", "on": 0, "name": "x"}, {"op": "req", "on": 0, "name": "x"},
                                   {"op": "ns", "on": 0, "name": "x", "ns": "n1"}, {"op": "clear", "on": 0}])
    # update without merge from data holding a nested mapping followed by a sibling
    case("nested-value-then-sibling", ["json"], [{"op": "types", "on": 0, "types": {"a": "int", "z": "int", "b": "int"},
                                                  "merge": False},
                                                 {"op": "data", "on": 0, "data": {"z": {"map": {"k": 1}}, "a": "s", "b": "t"},
                                                  "merge": False}])
    case("mixed-array-from-data", ["json"], [{"op": "data", "on": 0, "data": {"a": [1, "s"], "b": [1, 2.5]}, "merge": False}])
    s1 = {"type": "object", "properties": {"a": {"type": "integer"}}, "required": ["a"]}
    s2 = {"type": "object", "properties": {"c": {"type": "integer"}}, "required": ["c"]}
    case("two-schemas", ["json"], [{"op": "schema", "on": 0, "schema": s1, "merge": False},
                                   {"op": "schema", "on": 0, "schema": s2, "merge": False}])
    case("names-then-schema", ["json"], [{"op": "names", "on": 0, "names": ["x"], "merge": False},
                                         {"op": "schema", "on": 0, "schema": s2, "merge": False}])
    case("types-only-to-json", ["json"], [{"op": "types", "on": 0, "types": {"x": "int"}, "merge": False},
                                          {"op": "file", "on": 0}])
    case("pickle-then-edit", ["json"], [{"op": "names", "on": 0, "names": ["a", "b"], "merge": False},
                                        {"op": "pickle", "on": 0}, {"op": "unreq", "on": 2, "name": "a"},
                                        {"op": "schema", "on": 2, "schema": s2, "merge": False},
                                        {"op": "file", "on": 2}])
    case("merge-typed", ["json"], [{"op": "types", "on": 0, "types": {"a": "int", "b": "bool", "c": "int"}, "merge": False},
                                   {"op": "types", "on": 0, "types": {"a": "str", "b": "int", "c": "float"}, "merge": True},
                                   {"op": "names", "on": 0, "names": ["a"], "merge": True}])
    case("merge-untyped", ["json"], [{"op": "types", "on": 0, "types": {"a": "list", "b": "none"}, "merge": False},
                                     {"op": "names", "on": 0, "names": ["a"], "merge": True},
                                     {"op": "types", "on": 0, "types": {"b": "int"}, "merge": True}])
    case("update-merge-exclude", ["json", "simple"], [
        {"op": "types", "on": 0, "types": {"a": "int", "b": "str"}, "merge": False},
        {"op": "types", "on": 1, "types": {"a": "str", "c": "bool", "d": "float"}, "merge": False},
        {"op": "unreq", "on": 1, "name": "c"}, {"op": "setdef", "on": 1, "name": "c", "value": True},
        {"op": "setdef", "on": 1, "name": "d", "value": 2.5},
        {"op": "update", "on": 0, "other": 1, "excluded": ["d"], "merge": False},
        {"op": "update", "on": 0, "other": 1, "excluded": [], "merge": True}])
    case("namespaces", all3, [{"op": "names", "on": 0, "names": ["x", "y"], "merge": False},
                              {"op": "names", "on": 1, "names": ["x"], "merge": False},
                              {"op": "ns", "on": 0, "name": "x", "ns": "n1"}, {"op": "ns", "on": 1, "name": "x", "ns": "n2"},
                              {"op": "update", "on": 0, "other": 1, "excluded": [], "merge": False},
                              {"op": "rename", "on": 0, "cur": "n1:x", "new": "r1"},
                              {"op": "del", "on": 0, "name": "n2:x"}, {"op": "ns", "on": 0, "name": "r1", "ns": "n1"}])
    case("number-to-simple", ["json", "simple"], [{"op": "types", "on": 0, "types": {"x": "float", "i": "int"}, "merge": False},
                                                  {"op": "data", "on": 1, "data": {"x": 2.505}, "merge": False}])
    # pydantic user models: required exactly when the field has no default
    case("pydantic-user-model", ["pydantic"], [{"op": "copy", "on": 0},
                                               {"op": "names", "on": 0, "names": ["n"], "merge": False},
                                               {"op": "del", "on": 0, "name": "i"},
                                               {"op": "rename", "on": 0, "cur": "f", "new": "r1"},
                                               {"op": "restrict", "on": 0, "names": ["r1", "n"]}],
         pyd_fields={"i": ["int", None], "f": ["float", 1.5], "s": ["str", "s"], "a": ["ndarray", None], "b": ["bool", None]})
    case("pydantic-user-model-update", ["pydantic"], [{"op": "types", "on": 1, "types": {"q": "int"}, "merge": False},
                                                      {"op": "update", "on": 1, "other": 0, "excluded": ["s"], "merge": False},
                                                      {"op": "update", "on": 0, "other": 1, "excluded": [], "merge": False}],
         pyd_fields={"i": ["int", None], "f": ["float", 1.5], "s": ["str", "s"]})
    return out


# --------------------------------------------------------------------------- clause 7: shipped JSON grammars
def shipped_files():
    import gemseo

    root = Path(gemseo.__file__).parent
    return root, sorted(p for p in root.rglob("*.json"))


def mutate_property(frag, good):
    """Single-fault values for one property of a shipped schema."""
    out = [("wrong-type", b) for b in ("zz", 7, None, {"q": 1}, True, [1.5], np.array(["u"]))]
    if frag.get("type") == "array":
        lst = rm.cast(good)
        if "minItems" in frag and frag["minItems"] > 0:
            out.append(("too-short", lst[: frag["minItems"] - 1]))
        if "maxItems" in frag:
            out.append(("too-long", lst + lst[:1] * (frag["maxItems"] + 1 - len(lst))))
        out.append(("bad-item", [*lst[:-1], "zz"] if lst else ["zz"]))
        out.append(("ndarray-int", np.arange(len(lst))))
        out.append(("nested-array", [lst]))
    if "enum" in frag:
        out.append(("not-in-enum", "definitely-not-a-member"))
    if "minimum" in frag:
        out.append(("below-minimum", frag["minimum"] - 1))
        out.append(("at-minimum", frag["minimum"]))
        out.append(("at-minimum-float", float(frag["minimum"])))
    if frag.get("type") == "integer":
        out.append(("float-for-integer", 2.5))
    if frag.get("type") == "string" and "format" in frag:
        out.append(("format", "not a uri"))
    return out


def run_shipped(rep, only=None):
    from gemseo.core.grammars.json_grammar import JSONGrammar
    from jsonschema import Draft4Validator, Draft7Validator

    root, files = shipped_files()
    for path in files:
        rel = str(path.relative_to(root))
        if only is not None and rel != only:
            continue
        case = {"kind": "shipped", "file": rel}
        raw = json.loads(path.read_text())
        props = raw.get("properties", {})
        try:
            g = JSONGrammar(path.stem, file_path=path)
        except Exception as e:  # noqa: BLE001
            rep.violation(f"C15:shipped:load:exception:{type(e).__name__}", "every shipped schema loads", case,
                          observed=f"{type(e).__name__}: {e}", expected="a grammar")
            continue
        rep.case(("shipped", rel), True)
        rep.count("shipped_files_loaded")
        if set(g.keys()) != set(props) or set(g.required_names) != set(raw.get("required", [])):
            rep.violation("C15:shipped:load:names-or-required-differ-from-file", "loaded grammar = file", case,
                          observed={"names": sorted(g.keys()), "required": sorted(g.required_names)},
                          expected={"names": sorted(props), "required": sorted(raw.get("required", []))})
            continue
        ref_cls = Draft4Validator if "draft-04" in raw.get("$schema", "") else Draft7Validator
        ref_file = ref_cls(raw)
        ref_json, exported = reference_validator(g.to_json())
        valid = {n: fragment_example(p) for n, p in props.items()}
        datas = [("valid", None, valid), ("empty", None, {}),
                 ("required-only", None, {n: valid[n] for n in raw.get("required", [])}),
                 ("extra", None, dict(valid, __extra__="zz"))]
        for n in raw.get("required", []):
            datas.append(("missing", n, {k: v for k, v in valid.items() if k != n}))
        for n, p in props.items():
            for tag, bad in mutate_property(p, valid[n]):
                datas.append((tag, n, dict(valid, **{n: bad})))
        for tag, name, data in datas:
            got, exc = real_verdict(g, data)
            if exc is not None:
                rep.violation(f"C15:shipped:validate:exception:{type(exc).__name__}", "validate decides",
                              dict(case, tag=tag, name=name), observed=f"{type(exc).__name__}: {exc}")
                continue
            c = rm.cast(data)
            r_file, r_json = ref_file.is_valid(c), ref_json.is_valid(c)
            rep.count("shipped_verdicts_checked")
            rep.count("shipped_expected_accept" if r_file else "shipped_expected_reject")
            if tag == "valid" and not r_file:
                rep.inconclusive(f"harness: generated 'valid' data rejected by the reference for {rel}")
            if tag == "format" or (name and "format" in props.get(name, {}) and isinstance(c.get(name), str)):
                if got != r_file:
                    rep.observe("shipped:format-asserted-by-grammar-not-by-reference", {"file": rel, "value": c.get(name)})
                continue
            if got != r_file:
                rep.violation(f"C15:shipped:validate-vs-reference-on-file:{'accepts' if got else 'rejects'}:{tag}",
                              "shipped schema: grammar accepts exactly what the reference accepts",
                              dict(case, tag=tag, name=name), observed={"grammar": got, "data": enc_data(data)},
                              expected={"reference_on_file_schema": r_file})
            elif got != r_json:
                sig = ("C15:JSONGrammar:to_json:required-names-not-exported"
                       if set(exported.get("required", [])) != set(g.required_names)
                       else f"C15:shipped:validate-vs-reference-on-to_json:{tag}")
                rep.violation(sig, "grammar accepts exactly what the reference accepts on to_json()",
                              dict(case, tag=tag, name=name), observed={"grammar": got, "data": enc_data(data)},
                              expected={"reference_on_to_json": r_json, "to_json": exported})


# --------------------------------------------------------------------------- entry points
def run_shard(spec, rep):
    rng = random.Random(spec["seed"])
    install_contracts(rep)
    if spec.get("shard", 0) == 0:
        for case in directed_cases():
            run_history(case, rep)
            rep.count("directed_cases")
        run_shipped(rep)
    for i in range(spec["n_histories"]):
        if rep.time_left() < 0:
            rep.count("stopped_on_time_budget")
            break
        case = gen_history(rng, "lockstep" if i % 2 else "json")
        run_history(case, rep)
        if i < 2:
            rep.sample({"case": {"kind": case["kind"], "ops": case["ops"][:8], "n_ops": len(case["ops"])},
                        "note": "history run against the dictionary model, the reference validator and the invariants"})


def replay(case, rep):
    install_contracts(rep)
    if case.get("kind") == "shipped":
        run_shipped(rep, only=case["file"])
        return
    case = {k: v for k, v in case.items() if k not in ("failing_step", "failing_world", "n_ops")}
    if "ops_json" in case:
        case["ops"] = json.loads(case.pop("ops_json"))
    run_history(case, rep)
