"""C17 — MDO formulations are equivalent views of the same problem.

Monitors: (M4) closed-form coupled solution / total derivatives / partials of generated systems
(``vlib.gen.systems``), differential twins (MDF vs IDF vs DisciplinaryOpt built on fresh copies of the same
disciplines), an independent reference optimum (scipy SLSQP on the closed form), (M8) anchors.
See DESIGN.md section 3, C17.

Clauses (names used in counters and violation records):
  value        objective / constraint values of every formulation equal the closed form at (x, y*(x))
  consistency  IDF consistency constraints vanish at y*(x); their Jacobian is the derivative of their value
  derivative   dF_MDF/dx == dF_IDF/dx - dF_IDF/dy (dC/dy)^-1 dC/dx == closed-form total derivative;
               IDF partial Jacobians equal the closed-form partials (also off y*)
  disciplinary DisciplinaryOpt == MDF == closed form when there is no strong coupling
  space        design-space contents of each formulation; IDF refuses a space without a coupling
  start        IDF(start_at_equilibrium=True): coupling targets of the design space == y*(x0), design variables
               untouched, consistency constraints zero and functions == closed form at that start point
  optimum      SLSQP reaches the reference optimum of a strictly convex problem in every formulation
               (f_opt within 1e-6 relative, x_opt within 2e-3 relative)
"""

from __future__ import annotations

import copy

import numpy as np

from vlib.gen import c17_systems as cs
from vlib.gen.systems import CoupledSystem
from vlib.gen.systems import random_system
from vlib.harness import subseed

PID = "C17"
LEVEL = "exploration"
RULE = (
    "seeded generator over coupled systems (1-4 disciplines, coupling graph ring/two_scc/tail_head/dense/"
    "feed-forward/single, linear or tanh couplings, self-coupled or not, coupling sizes 1-3, optionally two "
    "spec disciplines executed by one gemseo discipline = several output couplings), objective and 0-3 "
    "constraints chosen among the f_i / y_i outputs (eq/ineq, value, positive), design-space variable order "
    "(natural or shuffled, couplings given or not, one local variable left out, one unused variable), main MDA "
    "(MDAChain with inner Jacobi/Gauss-Seidel/Newton-Raphson, or these directly on one-SCC systems), "
    "normalize_constraints in {F,T} (both built for every system), IDF(start_at_equilibrium=True) from consistent or "
    "inconsistent initial coupling targets (70% of the systems), IDF(n_processes=2, threads) (25%), a second MDF with "
    "MDAJacobi / MDAGaussSeidel as non-chained main MDA on graphs with weak couplings and a space holding all "
    "couplings (75% of those systems), MDA settings "
    "use_lu_fact / warm_start, 3 design points (current/interior/on bounds) "
    "plus one off-equilibrium point; optimisation cases: linear couplings + strictly convex quadratic objective, "
    "convex constraints, SLSQP per formulation against an independent reference optimum. A case is distinct by "
    "that tuple of shape features (not by coefficients) and non-trivial when the system has at least one coupling "
    "read by a discipline or more than one discipline"
)
ASSUMPTIONS = [
    "the closed-form solution / derivatives of vlib.gen.systems are exact (linear: numpy.linalg.solve; tanh: "
    "Gauss-Seidel to 1e-15 on a contraction with row-sum norm <= 0.8)",
    "MDA settings tolerance=1e-12, max_mda_iter=300, linear_solver_tolerance=1e-14 make the MDF values accurate "
    "to well below the 1e-8 / 1e-6 comparison tolerances on these contractive systems",
    "the documented form (G(x,y)-y)/|ub-lb| of the consistency constraints is only observed; the verdict demands "
    "what the statement says: zero at y*, Jacobian = derivative of the value, reduced derivative = total derivative",
    "an optimisation that stops on its iteration budget is inconclusive for the optimum clause only",
    "optimum clause: feasibility tolerances 1e-9 so that the reported optimum is the converged point; f_opt is "
    "compared within 1e-6*max(1,|f|) and x_opt (and IDF's couplings) within 2e-3*max(1,|x|), the distance that the f "
    "tolerance implies for a strongly convex objective of modulus 1 (with an active quadratic constraint and the 1e-9 "
    "feasibility tolerance correct runs differ by up to 2e-5 in x while agreeing to 1e-10 in f)",
]
ANCHORS = [
    "gemseo.formulations.mdf:MDF._update_design_space",
    "gemseo.formulations.mdf:MDF._remove_couplings_from_ds",
    "gemseo.formulations.idf:IDF._update_design_space",
    "gemseo.formulations.idf:IDF._build_constraints",
    "gemseo.formulations.idf:IDF._get_normalization_factor",
    "gemseo.formulations.disciplinary_opt:DisciplinaryOpt._filter_design_space",
    "gemseo.formulations.base_formulation:BaseFormulation.get_x_mask_x_swap_order",
    "gemseo.formulations.base_formulation:BaseFormulation.unmask_x_swap_order",
    "gemseo.formulations.base_formulation:BaseFormulation.mask_x_swap_order",
    "gemseo.formulations.base_formulation:BaseFormulation._remove_unused_variables",
    "gemseo.formulations.base_formulation:BaseFormulation._build_objective_from_disc",
    "gemseo.formulations.base_mdo_formulation:BaseMDOFormulation.add_constraint",
    "gemseo.core.mdo_functions.function_from_discipline:FunctionFromDiscipline._func_to_wrap",
    "gemseo.core.mdo_functions.function_from_discipline:FunctionFromDiscipline._jac_to_wrap",
    "gemseo.core.mdo_functions.function_from_discipline:FunctionFromDiscipline._input_mask",
    "gemseo.core.mdo_functions.discipline_adapter:DisciplineAdapter._func_to_wrap",
    "gemseo.core.mdo_functions.discipline_adapter:DisciplineAdapter._jac_to_wrap",
    "gemseo.core.mdo_functions.discipline_adapter:DisciplineAdapter._convert_jacobian_to_array",
    "gemseo.core.mdo_functions.discipline_adapter:DisciplineAdapter.__create_discipline_input_data",
    "gemseo.core.mdo_functions.consistency_constraint:ConsistencyConstraint._func_to_wrap",
    "gemseo.core.mdo_functions.consistency_constraint:ConsistencyConstraint._jac_to_wrap",
]
MIN_COUNTERS = {
    "quick": {"value_oracle_evaluations": 9800, "value_MDF": 2900, "value_IDF": 5800, "value_DisciplinaryOpt": 1000,
              "derivative_oracle_evaluations": 9800, "derivative_MDF": 2900, "derivative_IDF": 5800,
              "derivative_DisciplinaryOpt": 1000, "consistency_oracle_evaluations": 2700,
              "consistency_jacobian_vs_value_checked": 1900, "off_equilibrium_oracle_evaluations": 1800,
              "space_oracle_evaluations": 1500, "mask_roundtrip_checked": 1500, "idf_missing_coupling_refused": 400,
              "mdf_idf_points_compared": 1350, "mdf_disciplinaryopt_points_compared": 450,
              "optimum_oracle_evaluations": 150, "optimum_MDF": 45, "optimum_IDF": 85, "optimum_DisciplinaryOpt": 12,
              "idf_started_at_equilibrium": 300, "idf_started_at_equilibrium_feed_forward": 75,
              "idf_started_at_equilibrium_single_scc": 170, "idf_started_at_equilibrium_multi_scc": 35,
              "idf_started_at_equilibrium_from_consistent_targets": 90,
              "idf_started_at_equilibrium_from_inconsistent_targets": 220,
              "idf_start_point_oracle_evaluations": 1000, "idf_parallel_cases": 110,
              "mdf_non_chained_mda_with_weak_couplings": 130, "mdf_non_chained_mda_with_weak_couplings_MDAJacobi": 90,
              "mdf_non_chained_mda_with_weak_couplings_MDAGaussSeidel": 40,
              "mdf_non_chained_mda_with_weak_couplings_feed_forward": 80,
              "mdf_non_chained_mda_with_weak_couplings_multi_scc": 50},
    "thorough": {"value_oracle_evaluations": 139000, "value_MDF": 41000, "value_IDF": 82000,
                 "value_DisciplinaryOpt": 14500, "derivative_oracle_evaluations": 139000, "derivative_MDF": 41000,
                 "derivative_IDF": 82000, "derivative_DisciplinaryOpt": 14500, "consistency_oracle_evaluations": 38000,
                 "consistency_jacobian_vs_value_checked": 27000, "off_equilibrium_oracle_evaluations": 25500,
                 "space_oracle_evaluations": 21000, "mask_roundtrip_checked": 21000,
                 "idf_missing_coupling_refused": 5800, "mdf_idf_points_compared": 19000,
                 "mdf_disciplinaryopt_points_compared": 6500, "optimum_oracle_evaluations": 1250, "optimum_MDF": 380,
                 "optimum_IDF": 750, "optimum_DisciplinaryOpt": 130,
                 "idf_started_at_equilibrium": 4500, "idf_started_at_equilibrium_feed_forward": 1150,
                 "idf_started_at_equilibrium_single_scc": 2400, "idf_started_at_equilibrium_multi_scc": 600,
                 "idf_started_at_equilibrium_from_consistent_targets": 1350,
                 "idf_started_at_equilibrium_from_inconsistent_targets": 3100,
                 "idf_start_point_oracle_evaluations": 14000, "idf_parallel_cases": 1650,
                 "mdf_non_chained_mda_with_weak_couplings": 1800, "mdf_non_chained_mda_with_weak_couplings_MDAJacobi": 1200,
                 "mdf_non_chained_mda_with_weak_couplings_MDAGaussSeidel": 550,
                 "mdf_non_chained_mda_with_weak_couplings_feed_forward": 1100,
                 "mdf_non_chained_mda_with_weak_couplings_multi_scc": 700},
}
SHARD_TIMEOUT = {"quick": 400, "thorough": 2400}

VALUE_TOL = 1e-8
CONS_TOL = 1e-9
JAC_TOL = 1e-6
PARTIAL_TOL = 1e-9
OPT_F_TOL = 1e-6   # relative tolerance on f_opt
OPT_X_TOL = 2e-3   # on x_opt: what f_opt within 1e-6 implies for a strongly convex objective (modulus 1): sqrt(2e-6)
MDA_SETTINGS = {"tolerance": 1e-12, "max_mda_iter": 300, "linear_solver_tolerance": 1e-14}
INNER = ["MDAJacobi", "MDAGaussSeidel", "MDANewtonRaphson"]


def shards(tier, seed):
    n = 16
    per = {"quick": 56, "thorough": 800}[tier]
    opt = {"quick": 6, "thorough": 50}[tier]
    return [{"seed": subseed(seed, PID, i), "n_cases": per, "n_opt": opt,
             "budget_s": {"quick": 330, "thorough": 1800}[tier]} for i in range(n)]


# =========================================================================== generation
def _pick(rng, seq):
    return seq[int(rng.integers(len(seq)))]


def gen_system(rng, force):
    """Return (spec, family)."""
    family = force.get("family") or _pick(rng, ["std", "std", "std", "std", "dag", "dag", "single"])
    nonlinear = force.get("nonlinear", bool(rng.random() < 0.5))
    L = float(_pick(rng, [0.2, 0.5, 0.8]))
    if family == "std":
        n = force.get("n") or int(rng.integers(2, 5))
        kind = force.get("graph") or _pick(rng, ["ring", "ring", "two_scc", "tail_head", "dense"])
        spec = random_system(rng, n=n, kind=kind, nonlinear=nonlinear, L=L,
                             self_coupled=force.get("self_coupled", bool(rng.random() < 0.2)))
    elif family == "dag":
        n = force.get("n") or int(rng.integers(2, 5))
        edges = cs.dag_edges(rng, n)
        if force.get("self_coupled", bool(rng.random() < 0.1)):
            edges.add((int(rng.integers(n)),) * 2)
        spec = cs.build_system(rng, n, edges, nonlinear, L, kind="dag")
    else:
        edges = {(0, 0)} if force.get("self_coupled", bool(rng.random() < 0.5)) else set()
        spec = cs.build_system(rng, 1, edges, nonlinear, L, p_f=1.0, kind="single")
    cs.ensure_f(rng, spec)
    return spec, family


def _function_candidates(rng, system):
    """Lists of output names computed by ONE spec discipline."""
    out = []
    for d in system.discs:
        y = d["y"][0]
        if "f" in d:
            f = d["f"][0]
            out += [[f], [f], [y], [y, f] if rng.random() < 0.5 else [f, y]]
        else:
            out += [[y]]
    return out


def gen_space(rng, system, force, lin_range=None):
    """Design-space description: order, bounds, current values."""
    names = list(system.independent)
    fixed = []
    zs = [n for n in names if n != "x"]
    if zs and force.get("fixed", rng.random() < 0.15):
        fixed = [_pick(rng, zs)]
        names = [n for n in names if n not in fixed]
    couplings = sorted(system.read_couplings)
    unused = force.get("unused", rng.random() < 0.15)
    order = names + couplings + (["w"] if unused else [])
    shuffled = force.get("shuffle", rng.random() < 0.5)
    if shuffled:
        order = [order[i] for i in rng.permutation(len(order))]
    bounds, current = {}, {}
    for nm in order:
        s = 2 if nm == "w" else system.sizes[nm]
        if nm.startswith("y"):
            r0 = 3.0 if lin_range is None else float(lin_range)
            lb = np.round(rng.uniform(-r0 - 3.0, -r0, s), 2)
            ub = np.round(rng.uniform(r0, r0 + 3.0, s), 2)
        else:
            lb = np.round(rng.uniform(-2.0, -0.5, s), 2)
            ub = np.round(rng.uniform(0.5, 2.0, s), 2)
        bounds[nm] = [lb.tolist(), ub.tolist()]
        current[nm] = np.round(lb + (ub - lb) * rng.uniform(0.2, 0.8, s), 3).tolist()
    defaults = {nm: np.round(rng.uniform(-0.5, 0.5, system.sizes[nm]), 3).tolist() for nm in fixed}
    return {"order": order, "bounds": bounds, "current": current, "fixed": defaults, "shuffled": bool(shuffled),
            "with_couplings_for_mdf": bool(force.get("mdf_gets_couplings", rng.random() < 0.6))}


def gen_groups(rng, system, force):
    n = len(system.discs)
    groups = [[i] for i in range(n)]
    pairs = cs.nonadjacent_pairs(system)
    if pairs and force.get("merge", rng.random() < 0.3):
        a, b = _pick(rng, pairs)
        groups = [[i] for i in range(n) if i not in (a, b)]
        groups.insert(min(a, len(groups)), [a, b] if rng.random() < 0.5 else [b, a])
    return groups


def gen_mda(rng, grouping, force):
    if "mda" in force:
        return dict(force["mda"])
    inner = _pick(rng, INNER)
    if grouping.one_scc() and rng.random() < 0.5:
        return {"main": inner, "inner": None, "chain_linearize": False}
    return {"main": "MDAChain", "inner": inner, "chain_linearize": bool(rng.random() < 0.3)}


def gen_pointwise_case(rng, force=None):
    force = force or {}
    spec, family = gen_system(rng, force)
    system = CoupledSystem(spec)
    groups = gen_groups(rng, system, force)
    grouping = cs.Grouping(system, groups)
    space = gen_space(rng, system, force)
    design = [n for n in space["order"] if n in system.independent]
    cands = _function_candidates(rng, system)
    if "objective_of" in force:
        d0 = system.discs[force["objective_of"]]
        objective = [d0["f"][0]] if "f" in d0 else [d0["y"][0]]
    else:
        objective = _pick(rng, [c for c in cands if c[0].startswith("f")] or cands)
    constraints = []
    used = [tuple(objective)]
    for _ in range(force.get("n_constraints", int(rng.integers(0, 4)))):
        names = _pick(rng, cands)
        if tuple(names) in used:
            continue
        used.append(tuple(names))
        ctype = "ineq" if rng.random() < 0.6 else "eq"
        constraints.append({"names": names, "type": ctype,
                            "value": 0.0 if rng.random() < 0.4 else float(np.round(rng.uniform(-1, 1), 2)),
                            "positive": bool(ctype == "ineq" and rng.random() < 0.4)})
    degenerate = force.get("degenerate", rng.random() < 0.06)
    if not degenerate:
        # every design variable must influence at least one function (otherwise the problem is degenerate)
        for _ in range(8):
            fnames = set(objective) | {n for c in constraints for n in c["names"]}
            missing = [v for v in design if v not in grouping.influences(design, fnames)]
            if not missing:
                break
            reader = next(d for d in system.discs if missing[0] in [nm for nm, _ in d["inputs"]])
            names = [reader["y"][0]]
            if tuple(names) in used:
                names = [reader["f"][0]] if "f" in reader and (reader["f"][0],) not in used else None
            if names is None:
                break
            used.append(tuple(names))
            constraints.append({"names": names, "type": "ineq", "value": float(np.round(rng.uniform(-1, 1), 2)),
                                "positive": False})
    # design points
    points = [{"kind": "current", "x": {n: space["current"][n] for n in design}}]
    inter, onb = {}, {}
    for nm in design:
        lb, ub = (np.array(b) for b in space["bounds"][nm])
        inter[nm] = np.round(lb + (ub - lb) * rng.uniform(0.05, 0.95, lb.size), 3).tolist()
        v = lb + (ub - lb) * rng.uniform(0.05, 0.95, lb.size)
        for j in range(lb.size):
            r = rng.random()
            if r < 0.35:
                v[j] = lb[j]
            elif r < 0.7:
                v[j] = ub[j]
        onb[nm] = np.round(v, 3).tolist()
    points += [{"kind": "interior", "x": inter}, {"kind": "on_bounds", "x": onb}]
    perturb = {nm: (rng.choice([-1, 1], system.sizes[nm]) * np.round(rng.uniform(0.05, 0.5, system.sizes[nm]), 3)).tolist()
               for nm in system.read_couplings}
    order = list(range(len(groups)))
    if rng.random() < 0.5:
        order = [int(i) for i in rng.permutation(len(groups))]
    # options of the formulations that must not change the problem
    idf_options = {"start_at_equilibrium": bool(force.get("start_at_equilibrium", rng.random() < 0.7)),
                   "sae_normalize": bool(rng.random() < 0.5),
                   "coupling_start": force.get("coupling_start") or ("consistent" if rng.random() < 0.3 else "inconsistent"),
                   "parallel": bool(force.get("parallel", rng.random() < 0.25)),
                   "parallel_normalize": bool(rng.random() < 0.5)}
    mda_options = {"use_lu_fact": bool(rng.random() < 0.3), "warm_start": bool(rng.random() < 0.3)}
    mdf_direct_mda = force.get("mdf_direct_mda", _pick(rng, ["MDAJacobi", "MDAGaussSeidel", "MDAJacobi", None]))
    # the coupling bounds must contain y*(x0) (IDF writes it into the design space when started at equilibrium);
    # "consistent": the user already gives y*(x0) as initial coupling values
    fixed = {k: np.array(v, dtype=float) for k, v in space["fixed"].items()}
    sol0 = system.solve(dict({n: np.array(space["current"][n], dtype=float) for n in design}, **fixed))
    for nm in system.read_couplings:
        lb, ub = (np.array(b, dtype=float) for b in space["bounds"][nm])
        lb = np.minimum(lb, np.floor(sol0[nm] - 1.0))
        ub = np.maximum(ub, np.ceil(sol0[nm] + 1.0))
        space["bounds"][nm] = [lb.tolist(), ub.tolist()]
        if idf_options["coupling_start"] == "consistent":
            space["current"][nm] = sol0[nm].tolist()
    return {"kind": "pointwise", "idf_options": idf_options, "mda_options": mda_options, "mdf_direct_mda": mdf_direct_mda, "family": family, "spec": spec, "groups": groups, "order": order, "space": space,
            "objective": objective, "constraints": constraints, "mda": gen_mda(rng, grouping, force),
            "points": points, "perturb": perturb, "sparse": bool(force.get("sparse", rng.random() < 0.15)),
            "degenerate": bool(degenerate)}


def gen_opt_case(rng, force=None):
    """Strictly convex problem: linear couplings, quadratic objective reading every variable, convex constraints."""
    force = dict(force or {})
    force.setdefault("nonlinear", False)
    force.setdefault("unused", False)
    force.setdefault("fixed", False)
    family = force.get("family") or _pick(rng, ["std", "std", "dag"])
    force["family"] = family
    spec, family = gen_system(rng, force)
    for d in spec["disciplines"]:  # convex quadratic non-coupling outputs
        if "f" in d:
            d["q"] = float(np.round(rng.uniform(0.2, 1.0), 3))
    n0 = spec["n"]
    cs.add_convex_objective(rng, spec, q=1.0)
    system = CoupledSystem(spec)
    groups = [[i] for i in range(spec["n"])]
    grouping = cs.Grouping(system, groups)
    space = gen_space(rng, system, force, lin_range=40.0)
    design = [n for n in space["order"] if n in system.independent]
    # a feasible interior point fixes the constraint levels
    feas = {}
    for nm in design:
        lb, ub = (np.array(b) for b in space["bounds"][nm])
        feas[nm] = lb + (ub - lb) * rng.uniform(0.2, 0.8, lb.size)
    sol = system.solve(feas)
    constraints = []
    used = []
    n_con = force.get("n_constraints", int(rng.integers(1, 4)))
    for k in range(n_con):
        d = system.discs[int(rng.integers(n0))]
        on_coupling = force.get("constraint_on_coupling", rng.random() < 0.6) if k == 0 else rng.random() < 0.5
        if on_coupling or "f" not in d:
            names, linear = [d["y"][0]], True
        else:
            names, linear = [d["f"][0]], False
        if tuple(names) in used:
            continue
        used.append(tuple(names))
        val_at = np.concatenate([sol[nm] for nm in names])
        r = rng.random()
        if linear and r < 0.2:
            con = {"names": names, "type": "eq", "positive": False, "level": "at_feasible_point"}
            # an equality constraint on a vector coupling would over-determine small problems: scalar couplings only
            if val_at.size > 1 or any(c["type"] == "eq" for c in constraints):
                con["type"] = "ineq"
        else:
            con = {"names": names, "type": "ineq", "level": "margin",
                   "positive": bool(force.get("positive", linear and r < 0.5)) if k == 0 else bool(linear and r < 0.5)}
        if con["type"] == "eq":
            value = float(val_at[0])
        elif con["positive"]:
            value = float(np.min(val_at) - rng.uniform(0.02, 0.5))
        else:
            value = float(np.max(val_at) + rng.uniform(0.02, 0.5))
        if k == 0 and force.get("zero_value", rng.random() < 0.3):
            # shift the discipline constant so that the chosen level is exactly zero: "y_i <= 0"
            key = "c" if names[0].startswith("y") else "d"
            d[key] = (np.array(d[key]) - value).tolist()
            value = 0.0
        con["value"] = float(np.round(value, 6)) if value != 0.0 else 0.0
        constraints.append(con)
    system = CoupledSystem(spec)
    case = {"kind": "opt", "family": family, "spec": spec, "groups": groups, "order": list(range(len(groups))),
            "space": space, "objective": [f"f{n0}"], "constraints": constraints,
            "mda": gen_mda(rng, grouping, force), "feasible_point": {k: v.tolist() for k, v in feas.items()},
            "sparse": False, "degenerate": False, "max_iter": 150,
            "start_at_equilibrium": bool(rng.random() < 0.3)}
    return case


def case_signature(case):
    spec = case["spec"]
    system = CoupledSystem(spec)
    grouping = cs.Grouping(system, case["groups"])
    sp = case["space"]
    return (case["kind"], case["family"], spec["kind"], spec["n"], spec["nonlinear"],
            tuple(len(g) for g in case["groups"]), bool(grouping.has_strong_coupling()),
            any(a == b for a, b in system.edges), case["mda"]["main"], case["mda"]["inner"],
            case["mda"]["chain_linearize"], case["sparse"], sp["shuffled"], bool(sp["fixed"]), "w" in sp["order"],
            sp["with_couplings_for_mdf"], len(case["objective"]),
            tuple((len(c["names"]), c["names"][0][0], c["type"], c["positive"], c["value"] == 0.0)
                  for c in case["constraints"]),
            tuple(sorted(system.sizes[c] for c in system.read_couplings)), case["degenerate"],
            tuple(sorted(case.get("idf_options", {}).items())), tuple(sorted(case.get("mda_options", {}).items())),
            case.get("mdf_direct_mda"))


# =========================================================================== building the real objects
class Ctx:
    """Everything derived from a case that the oracle needs (harness side)."""

    def __init__(self, case):
        self.case = case
        self.system = CoupledSystem(case["spec"])
        self.grouping = cs.Grouping(self.system, case["groups"])
        sp = case["space"]
        self.design = [n for n in sp["order"] if n in self.system.independent]
        self.couplings = sorted(self.system.read_couplings)
        self.fixed = {k: np.array(v, dtype=float) for k, v in sp["fixed"].items()}
        self.functions = [{"role": "objective", "names": case["objective"], "value": 0.0, "positive": False,
                           "type": "obj"}]
        for c in case["constraints"]:
            self.functions.append({"role": "constraint", "names": c["names"], "value": c["value"],
                                   "positive": c["positive"], "type": c["type"]})
        self.function_outputs = sorted({n for f in self.functions for n in f["names"]})

    def disciplines(self, order=None):
        order = self.case["order"] if order is None else order
        if all(len(g) == 1 for g in self.case["groups"]):
            idx = [self.case["groups"][g][0] for g in order]
            return self.system.make_disciplines(order=idx, sparse=self.case["sparse"], defaults=self.fixed)
        return cs.make_grouped_disciplines(self.system, self.case["groups"], order=order,
                                           sparse=self.case["sparse"], defaults=self.fixed)

    def design_space(self, names):
        from gemseo.algos.design_space import DesignSpace

        sp = self.case["space"]
        ds = DesignSpace()
        for nm in names:
            lb, ub = sp["bounds"][nm]
            ds.add_variable(nm, len(lb), lower_bound=np.array(lb), upper_bound=np.array(ub),
                            value=np.array(sp["current"][nm]))
        return ds

    def inputs(self, x):
        out = {k: np.array(v, dtype=float) for k, v in x.items()}
        out.update(self.fixed)
        return out

    def ref_function(self, f, data):
        v = np.concatenate([np.atleast_1d(data[n]) for n in f["names"]])
        if f["role"] == "constraint":
            v = v - f["value"]
            if f["positive"]:
                v = -v
        return v

    def ref_sign(self, f):
        return -1.0 if (f["role"] == "constraint" and f["positive"]) else 1.0


def formulation_args(ctx, which, normalize=None, space_names=None, start_at_equilibrium=False, n_processes=1,
                     direct_mda=None):
    """(class name, fresh disciplines, objective, fresh design space, settings) of one formulation of the case."""
    case = ctx.case
    sp = case["space"]
    if space_names is None:
        if which == "IDF" or sp["with_couplings_for_mdf"]:
            space_names = list(sp["order"])
        else:
            space_names = [n for n in sp["order"] if n not in ctx.couplings]
    ds = ctx.design_space(space_names)
    objective = case["objective"][0] if len(case["objective"]) == 1 else list(case["objective"])
    if which == "MDF" and direct_mda:
        # a non-chained main MDA on a graph with weak couplings; disciplines listed along the data flow (listing them
        # against it is the C06 finding for Gauss-Seidel); the given space contains ALL couplings, strong and weak
        settings = dict(MDA_SETTINGS)
        settings.update(case.get("mda_options", {}))
        return (which, ctx.disciplines(order=ctx.grouping.data_flow_order()), objective, ctx.design_space(list(sp["order"])),
                {"main_mda_name": direct_mda, "main_mda_settings": settings})
    if which == "MDF":
        mda = case["mda"]
        settings = dict(MDA_SETTINGS)
        settings.update(case.get("mda_options", {}))
        if mda["main"] == "MDAChain":
            settings.update(inner_mda_name=mda["inner"], chain_linearize=mda["chain_linearize"],
                            inner_mda_settings={"linear_solver_tolerance": 1e-14})
        return which, ctx.disciplines(), objective, ds, {"main_mda_name": mda["main"], "main_mda_settings": settings}
    if which == "IDF":
        kw = {"normalize_constraints": bool(normalize)}
        if start_at_equilibrium:
            eq = dict(MDA_SETTINGS, inner_mda_name=case["mda"]["inner"] or case["mda"]["main"])
            kw.update(start_at_equilibrium=True, mda_chain_settings_for_start_at_equilibrium=eq)
        if n_processes > 1:
            kw.update(n_processes=int(n_processes), use_threading=True)
        return which, ctx.disciplines(), objective, ds, kw
    return which, ctx.disciplines(order=ctx.grouping.topological_order()), objective, ds, {}


def _add_constraints(target, case):
    for c in case["constraints"]:
        names = c["names"][0] if len(c["names"]) == 1 else list(c["names"])
        target.add_constraint(names, constraint_type=c["type"], value=c["value"], positive=c["positive"])


def build_formulation(ctx, which, **kw):
    """Instantiate the formulation class directly; returns (formulation, number of built-in constraints)."""
    from gemseo.formulations.disciplinary_opt import DisciplinaryOpt
    from gemseo.formulations.idf import IDF
    from gemseo.formulations.mdf import MDF

    name, disciplines, objective, ds, settings = formulation_args(ctx, which, **kw)
    form = {"MDF": MDF, "IDF": IDF, "DisciplinaryOpt": DisciplinaryOpt}[name](disciplines, objective, ds, **settings)
    n_builtin = len(form.optimization_problem.constraints)
    _add_constraints(form, ctx.case)
    return form, n_builtin


def build_scenario(ctx, which, **kw):
    """The same through the public scenario API."""
    from gemseo import create_scenario

    name, disciplines, objective, ds, settings = formulation_args(ctx, which, **kw)
    scenario = create_scenario(disciplines, objective, ds, formulation_name=name, **settings)
    n_builtin = len(scenario.formulation.optimization_problem.constraints)
    _add_constraints(scenario, ctx.case)
    return scenario, n_builtin


def functions_of(form, n_builtin):
    p = form.optimization_problem
    cons = list(p.constraints)
    return [p.objective] + cons[n_builtin:], cons[:n_builtin]


def vec(names, data):
    parts = [np.atleast_1d(np.asarray(data[n], dtype=float)) for n in names]
    return np.concatenate(parts) if parts else np.zeros(0)


def col_slices(names, sizes):
    out, o = {}, 0
    for n in names:
        out[n] = slice(o, o + sizes[n])
        o += sizes[n]
    return out, o


def features(case, ctx):
    f = []
    if ctx.grouping.has_strong_coupling():
        f.append("strong")
    elif ctx.couplings:
        f.append("weak-only")
    else:
        f.append("uncoupled")
    if any(len(g) > 1 for g in case["groups"]):
        f.append("multi-coupling-discipline")
    if any(a == b for a, b in ctx.system.edges):
        f.append("self-coupled")
    return "+".join(f)


# =========================================================================== oracle: pointwise
def _exc(e):
    return f"{type(e).__name__}: {str(e)[:300]}"


def run_pointwise_case(case, rep):
    ctx = Ctx(case)
    system, grouping = ctx.system, ctx.grouping
    sizes = dict(system.sizes, w=2)
    feat = features(case, ctx)
    rep.case(case_signature(case), nontrivial=bool(ctx.couplings) or len(system.discs) > 1)
    fnames = ctx.function_outputs
    influencing = grouping.influences(ctx.design, set(fnames))
    uninfluential = [v for v in ctx.design if v not in influencing]
    coupling_free = not grouping.functions_depend_on_a_coupling(set(fnames))
    shared_strong = grouping.strong_coupling_read_by_another_strong_group()

    # ---------------------------------------------------------------- construction
    forms = {}
    opts = case.get("idf_options", {})
    norm_of = {"IDF[norm]": True, "IDF[raw]": False, "IDF[sae]": bool(opts.get("sae_normalize", True)),
               "IDF[par]": bool(opts.get("parallel_normalize", True))}
    wanted = [("MDF", "MDF", {}), ("IDF[norm]", "IDF", {"normalize": True}), ("IDF[raw]", "IDF", {"normalize": False})]
    if opts.get("start_at_equilibrium", False):
        wanted.append(("IDF[sae]", "IDF", {"normalize": norm_of["IDF[sae]"], "start_at_equilibrium": True}))
    if opts.get("parallel", False):
        wanted.append(("IDF[par]", "IDF", {"normalize": norm_of["IDF[par]"], "n_processes": 2}))
    if not grouping.has_strong_coupling():
        wanted.append(("DisciplinaryOpt", "DisciplinaryOpt", {}))
    direct = case.get("mdf_direct_mda")
    if direct and graph_class(ctx) in ("feed_forward", "multi_scc"):
        wanted.append(("MDF[direct]", "MDF", {"direct_mda": direct}))
    for key, which, kw in wanted:
        try:
            forms[key] = build_formulation(ctx, which, **kw)
        except Exception as e:
            opt_tag = {"IDF[sae]": "start_at_equilibrium:", "IDF[par]": "n_processes=2:"}.get(key, "")
            rep.violation(f"C17:{which}:construction:{opt_tag}exception:{type(e).__name__}:{feat}", "construction", case,
                          observed=_exc(e), expected="a formulation for a valid system")
    if not forms:
        return

    # ---------------------------------------------------------------- clause: design-space contents
    sp = case["space"]
    expected_design = set(ctx.design)
    for key, (form, _) in forms.items():
        names = list(form.design_space.variable_names)
        rep.count("space_oracle_evaluations")
        if key.startswith("IDF"):
            need = expected_design | set(ctx.couplings)
            ok = need <= set(names) <= need | {"w"}
            if "w" in names:
                rep.observe("IDF keeps a design variable that is no discipline input", {"names": names})
        else:
            need = expected_design
            ok = set(names) == need
        if len(set(names)) != len(names):
            ok = False
        if not ok:
            what = "couplings-left" if set(names) & set(ctx.couplings) and not key.startswith("IDF") else "contents"
            rep.violation(f"C17:{key.split('[')[0]}:design-space:{what}", "space", case,
                          observed=names, expected=sorted(need))
            continue
        bad = [n for n in names if form.design_space.get_size(n) != sizes[n]]
        if bad:
            rep.violation(f"C17:{key.split('[')[0]}:design-space:sizes", "space", case,
                          observed={n: form.design_space.get_size(n) for n in names}, expected={n: sizes[n] for n in names})
        given = [n for n in sp["order"] if n in names]
        if names != given:
            rep.observe("formulation reorders the design variables", {"form": key, "given": given, "got": names})
        if form.get_optim_variable_names() != names:
            rep.violation(f"C17:{key.split('[')[0]}:design-space:optim-variable-names", "space", case,
                          observed=form.get_optim_variable_names(), expected=names)
        # mask / unmask layout for names in design-space order (the way the formulations use them)
        xs = np.arange(1.0, 1.0 + sum(sizes[n] for n in names))
        sl, _ = col_slices(names, sizes)
        sub = [n for i, n in enumerate(names) if i % 2 == 0]
        try:
            masked = form.mask_x_swap_order(sub, xs)
            back = form.unmask_x_swap_order(sub, masked)
            exp_m = np.concatenate([xs[sl[n]] for n in sub])
            exp_b = np.zeros_like(xs)
            for n in sub:
                exp_b[sl[n]] = xs[sl[n]]
            rep.count("mask_roundtrip_checked")
            if not (np.array_equal(masked, exp_m) and np.array_equal(back, exp_b)):
                rep.violation(f"C17:{key.split('[')[0]}:mask-layout", "space", case,
                              observed={"masked": masked, "unmasked": back}, expected={"masked": exp_m, "unmasked": exp_b})
        except Exception as e:
            rep.violation(f"C17:{key.split('[')[0]}:mask-layout:exception:{type(e).__name__}", "space", case, observed=_exc(e))

    # IDF must refuse a space that lacks a coupling
    if ctx.couplings:
        strong = grouping.strong_couplings()
        pool = strong or ctx.couplings
        drop = pool[len(case["spec"]["disciplines"]) % len(pool)]
        try:
            build_formulation(ctx, "IDF", normalize=True, space_names=[n for n in sp["order"] if n != drop])
        except ValueError as e:
            rep.count("idf_missing_coupling_refused")
            if "coupling" not in str(e):
                rep.observe("IDF refuses a missing coupling with another message", _exc(e))
        except Exception as e:
            rep.violation(f"C17:IDF:missing-coupling:exception:{type(e).__name__}", "space", case, observed=_exc(e),
                          expected="ValueError naming the missing coupling variables")
        else:
            if drop in strong:
                rep.violation("C17:IDF:missing-strong-coupling-accepted", "space", case,
                              observed=f"IDF built without {drop} in the design space", expected="ValueError")
            else:
                rep.observe("IDF accepts a space without a weak coupling", {"dropped": drop})

    # ---------------------------------------------------------------- clause: IDF started at equilibrium
    if "IDF[sae]" in forms:
        check_start_at_equilibrium(case, ctx, forms["IDF[sae]"], rep, sizes)
    if "IDF[par]" in forms:
        rep.count("idf_parallel_cases")
    if "MDF[direct]" in forms:
        rep.count("mdf_non_chained_mda_with_weak_couplings")
        rep.count(f"mdf_non_chained_mda_with_weak_couplings_{direct}")
        rep.count(f"mdf_non_chained_mda_with_weak_couplings_{graph_class(ctx)}")

    # ---------------------------------------------------------------- per design point
    jac_broken = set()
    for ip, pt in enumerate(case["points"]):
        inputs = ctx.inputs(pt["x"])
        tot, sol = system.total_derivatives(inputs, of=fnames, wrt=ctx.design)
        if system.residual(sol) > 1e-12:
            rep.count("reference_not_converged")
            continue
        for key, (form, n_builtin) in forms.items():
            fam = key.split("[")[0]
            names = list(form.design_space.variable_names)
            if not set(names) <= set(sol) | {"w"}:
                continue  # design-space violation already reported
            data = dict(sol, w=np.array(sp["current"].get("w", [0.0, 0.0])))
            x = vec(names, data)
            sl, ntot = col_slices(names, sizes)
            funcs, consistency = functions_of(form, n_builtin)
            dcols = np.concatenate([np.arange(sl[n].start, sl[n].stop) for n in ctx.design]) if ctx.design else np.zeros(0, int)
            ycols = np.concatenate([np.arange(sl[n].start, sl[n].stop) for n in names if n in ctx.couplings]) \
                if key.startswith("IDF") and ctx.couplings else np.zeros(0, int)

            # ---- clause: consistency constraints vanish at y*
            C = None
            if key.startswith("IDF"):
                try:
                    cvals = [np.atleast_1d(c.evaluate(x.copy())) for c in consistency]
                    C = np.vstack([np.atleast_2d(c.jac(x.copy())) for c in consistency]) if consistency else np.zeros((0, ntot))
                except Exception as e:
                    rep.violation(f"C17:IDF:consistency:exception:{type(e).__name__}:{feat}", "consistency", case,
                                  observed=_exc(e))
                    continue
                rep.count("consistency_oracle_evaluations")
                worst = max([float(np.max(np.abs(v))) for v in cvals], default=0.0)
                n_rows = sum(v.size for v in cvals)
                n_y = sum(sizes[c] for c in ctx.couplings)
                if n_rows != n_y or C.shape != (n_y, ntot):
                    rep.violation(f"C17:IDF:consistency:count:{feat}", "consistency", case,
                                  observed={"rows": n_rows, "jac_shape": list(C.shape)},
                                  expected={"rows": n_y, "jac_shape": [n_y, ntot]})
                    C = None
                elif worst > CONS_TOL:
                    rep.violation(f"C17:IDF:consistency:non-zero-at-equilibrium:{feat}", "consistency", case,
                                  observed={"point": pt["kind"], "values": cvals}, expected="|C| <= 1e-9 at y*(x)")

            # ---- clauses: value, derivative
            for k, (f, g) in enumerate(zip(ctx.functions, funcs)):
                role = f["role"]
                ref_v = ctx.ref_function(f, sol)
                scale = max(1.0, float(np.max(np.abs(ref_v))))
                try:
                    v = np.atleast_1d(g.evaluate(x.copy()))
                except Exception as e:
                    rep.violation(f"C17:{fam}:value:exception:{type(e).__name__}:{feat}", "value", case, observed=_exc(e),
                                  expected=ref_v)
                    continue
                rep.count("value_oracle_evaluations")
                rep.count(f"value_{fam}")
                if v.shape != ref_v.shape or float(np.max(np.abs(v - ref_v))) > VALUE_TOL * scale:
                    if fam == "MDF" and v.shape == ref_v.shape and not _mda_converged(form):
                        # an MDA that did not reach its tolerance is C06's business, not a formulation defect
                        rep.count("mdf_point_skipped_mda_not_converged")
                        jac_broken.add((key, k))
                        continue
                    rep.violation(f"C17:{fam}:value-differs-from-closed-form:{role}:{feat}", "value", case,
                                  observed={"point": pt["kind"], "function": f["names"], "value": v},
                                  expected={"value": ref_v, "variables": names})
                    continue
                # total derivative (closed form)
                s = ctx.ref_sign(f)
                ref_J = s * np.vstack([np.hstack([tot[o][w] for w in ctx.design]) if ctx.design
                                       else np.zeros((sizes[o], 0)) for o in f["names"]])
                jscale = max(1.0, float(np.max(np.abs(ref_J))) if ref_J.size else 1.0)
                if (key, k) in jac_broken:
                    continue
                try:
                    J = np.atleast_2d(np.asarray(g.jac(x.copy()), dtype=float))
                except Exception as e:
                    msg = str(e)
                    if (fam == "MDF" and isinstance(e, ValueError) and uninfluential
                            and "Failed to determine the size of input variable" in msg):
                        sig = "C17:MDF:jac:ValueError:design-variable-influences-no-function"
                    elif fam == "MDF" and isinstance(e, IndexError) and ctx.couplings and coupling_free:
                        sig = "C17:MDF:jac:IndexError:no-function-depends-on-a-coupling"
                    elif fam == "MDF" and shared_strong and isinstance(e, (ValueError, KeyError, IndexError)):
                        sig = f"C17:MDF:jac:strong-coupling-read-by-another-strong-group:{type(e).__name__}"
                    else:
                        sig = f"C17:{fam}:jac:exception:{type(e).__name__}:{feat}"
                    rep.violation(sig, "derivative", case, observed=_exc(e),
                                  expected={"d/d" + ",".join(ctx.design): ref_J, "uninfluential_variables": uninfluential,
                                            "no_function_depends_on_a_coupling": coupling_free})
                    jac_broken.add((key, k))
                    continue
                if J.shape != (ref_v.size, ntot):
                    rep.violation(f"C17:{fam}:jac-shape:{role}:{feat}", "derivative", case,
                                  observed=list(J.shape), expected=[ref_v.size, ntot])
                    continue
                rep.count("derivative_oracle_evaluations")
                rep.count(f"derivative_{fam}")
                if key.startswith("IDF"):
                    # partials against the closed form
                    ref_P = s * exact_partials(ctx, f, sol, names, sl, ntot)
                    if float(np.max(np.abs(J - ref_P), initial=0.0)) > PARTIAL_TOL * max(1.0, float(np.max(np.abs(ref_P), initial=0.0))):
                        rep.violation(f"C17:IDF:partial-jacobian-differs-from-closed-form:{role}:{feat}", "derivative", case,
                                      observed={"point": pt["kind"], "function": f["names"], "jac": J},
                                      expected={"jac": ref_P, "variables": names})
                        continue
                    if C is None:
                        continue
                    if ycols.size:
                        Cy, Cx = C[:, ycols], C[:, dcols]
                        if np.linalg.cond(Cy) > 1e10:
                            rep.violation(f"C17:IDF:consistency:singular-dC/dy:{feat}", "derivative", case,
                                          observed={"cond": float(np.linalg.cond(Cy))}, expected="invertible dC/dy")
                            C = None
                            continue
                        red = J[:, dcols] - J[:, ycols] @ np.linalg.solve(Cy, Cx)
                    else:
                        red = J[:, dcols]
                    total = red
                    what = "reduced-derivative-differs-from-total-derivative"
                else:
                    total = J[:, dcols]
                    what = "total-derivative-differs-from-closed-form"
                    if fam == "MDF" and shared_strong:
                        what = "jac:strong-coupling-read-by-another-strong-group:wrong-value"
                if float(np.max(np.abs(total - ref_J), initial=0.0)) > JAC_TOL * jscale:
                    sig = f"C17:{fam}:{what}" if what.endswith("wrong-value") else f"C17:{fam}:{what}:{role}:{feat}"
                    rep.violation(sig, "derivative", case,
                                  observed={"point": pt["kind"], "function": f["names"], "d/dx": total},
                                  expected={"d/dx": ref_J, "design_variables": ctx.design})
                if "w" in names and float(np.max(np.abs(J[:, sl["w"]]), initial=0.0)) != 0.0:
                    rep.violation(f"C17:{fam}:non-zero-derivative-wrt-unused-variable", "derivative", case,
                                  observed=J[:, sl["w"]], expected=0.0)

        # ---- pairwise agreement is implied by agreement with the closed form; count it for the evidence
        if "MDF" in forms and any(k.startswith("IDF") for k in forms):
            rep.count("mdf_idf_points_compared")
        if "MDF" in forms and "DisciplinaryOpt" in forms:
            rep.count("mdf_disciplinaryopt_points_compared")

        # ---------------------------------------------------------------- off-equilibrium point (IDF only)
        if ip == 1 and ctx.couplings:
            off = dict(sol)
            for nm in ctx.couplings:
                off[nm] = sol[nm] + np.array(case["perturb"][nm])
            off_out = {}
            for d in system.discs:
                off_out.update(system.eval_disc(d, off))
            for key, (form, n_builtin) in forms.items():
                if not key.startswith("IDF"):
                    continue
                names = list(form.design_space.variable_names)
                if not set(names) <= set(sol) | {"w"}:
                    continue
                data = dict(off, w=np.array(sp["current"].get("w", [0.0, 0.0])))
                x = vec(names, data)
                sl, ntot = col_slices(names, sizes)
                funcs, consistency = functions_of(form, n_builtin)
                normalized = norm_of[key]
                # functions off y*: plain discipline outputs at (x, y)
                for f, g in zip(ctx.functions, funcs):
                    try:
                        v = np.atleast_1d(g.evaluate(x.copy()))
                        J = np.atleast_2d(np.asarray(g.jac(x.copy()), dtype=float))
                    except Exception as e:
                        rep.violation(f"C17:IDF:off-equilibrium:exception:{type(e).__name__}:{feat}", "value", case,
                                      observed=_exc(e))
                        continue
                    ref_v = ctx.ref_function(f, off_out)
                    ref_P = ctx.ref_sign(f) * exact_partials(ctx, f, off, names, sl, ntot)
                    rep.count("off_equilibrium_oracle_evaluations")
                    if v.shape != ref_v.shape or float(np.max(np.abs(v - ref_v))) > VALUE_TOL * max(1.0, float(np.max(np.abs(ref_v)))):
                        rep.violation(f"C17:IDF:value-differs-from-closed-form:off-equilibrium:{f['role']}:{feat}", "value",
                                      case, observed={"function": f["names"], "value": v}, expected={"value": ref_v, "variables": names})
                    elif J.shape != ref_P.shape or float(np.max(np.abs(J - ref_P), initial=0.0)) > PARTIAL_TOL * max(1.0, float(np.max(np.abs(ref_P), initial=0.0))):
                        rep.violation(f"C17:IDF:partial-jacobian-differs-from-closed-form:off-equilibrium:{f['role']}:{feat}",
                                      "derivative", case, observed={"function": f["names"], "jac": J},
                                      expected={"jac": ref_P, "variables": names})
                # consistency constraints: Jacobian is the derivative of the value (central differences on gemseo's
                # own value); documented form only observed
                for c in consistency:
                    try:
                        v0 = np.atleast_1d(c.evaluate(x.copy()))
                        J = np.atleast_2d(np.asarray(c.jac(x.copy()), dtype=float))
                        h = 1e-6
                        fd = np.zeros((v0.size, ntot))
                        for j in range(ntot):
                            e = np.zeros(ntot)
                            e[j] = h
                            fd[:, j] = (np.atleast_1d(c.evaluate(x + e)) - np.atleast_1d(c.evaluate(x - e))) / (2 * h)
                    except Exception as e:
                        rep.violation(f"C17:IDF:consistency:exception:{type(e).__name__}:{feat}", "consistency", case,
                                      observed=_exc(e))
                        continue
                    rep.count("consistency_jacobian_vs_value_checked")
                    if J.shape != fd.shape or float(np.max(np.abs(J - fd))) > 1e-6 * max(1.0, float(np.max(np.abs(fd)))):
                        tag = "normalized" if normalized else "raw"
                        rep.violation(f"C17:IDF:consistency:jacobian-is-not-the-derivative-of-the-value:{tag}", "consistency",
                                      case, observed={"constraint": c.name, "jac": J, "value": v0},
                                      expected={"central_differences_of_the_value": fd, "variables": names})
                    outs = [o for o in (getattr(c, "output_names", None) or []) if o in system.sizes]
                    if outs and sum(sizes[o] for o in outs) == v0.size:
                        doc = np.concatenate([off_out[o] - off[o] for o in outs])
                        if normalized:
                            doc = doc / np.concatenate([np.abs(np.array(sp["bounds"][o][1]) - np.array(sp["bounds"][o][0])) for o in outs])
                        rep.count("consistency_documented_form_compared")
                        if float(np.max(np.abs(v0 - doc))) > 1e-10 * max(1.0, float(np.max(np.abs(doc)))):
                            rep.observe("IDF consistency constraint differs from the documented (G(x,y)-y)/|ub-lb|",
                                        {"constraint": c.name, "value": v0, "documented": doc})
    rep.count("pointwise_cases")
    if uninfluential:
        rep.count("cases_with_a_design_variable_influencing_no_function")
    if coupling_free and ctx.couplings:
        rep.count("cases_where_no_function_depends_on_a_coupling")
    if shared_strong:
        rep.count("cases_with_a_strong_coupling_read_by_another_strong_group")


def graph_class(ctx):
    if not ctx.couplings:
        return "uncoupled"
    if not ctx.grouping.has_strong_coupling():
        return "feed_forward"
    return "single_scc" if ctx.grouping.one_scc() else "multi_scc"


def check_start_at_equilibrium(case, ctx, built, rep, sizes):
    """IDF(start_at_equilibrium=True): the coupling targets of the design space are y*(x0), the design variables are
    untouched, the consistency constraints vanish and the functions equal the closed form (hence MDF's) there."""
    form, n_builtin = built
    system = ctx.system
    sp = case["space"]
    klass = graph_class(ctx)
    start = case.get("idf_options", {}).get("coupling_start", "inconsistent")
    x0 = {n: sp["current"][n] for n in ctx.design}
    sol0 = system.solve(ctx.inputs(x0))
    if system.residual(sol0) > 1e-12:
        rep.count("reference_not_converged")
        return
    rep.count("idf_started_at_equilibrium")
    rep.count(f"idf_started_at_equilibrium_{klass}")
    rep.count(f"idf_started_at_equilibrium_from_{start}_targets")
    cur = form.design_space.get_current_value(as_dict=True)
    bad = {}
    for c in ctx.couplings:
        if c not in cur or np.asarray(cur[c]).shape != sol0[c].shape or \
                float(np.max(np.abs(cur[c] - sol0[c]))) > 1e-8 * max(1.0, float(np.max(np.abs(sol0[c])))):
            bad[c] = {"got": cur.get(c), "given": sp["current"][c], "expected": sol0[c]}
    if bad:
        rep.violation(f"C17:IDF:start_at_equilibrium:coupling-targets-not-at-the-multidisciplinary-solution:{klass}",
                      "consistency", case, observed=bad,
                      expected="current value of every coupling target == y*(x0) within 1e-8 relative")
        return
    moved = [v for v in ctx.design if not np.array_equal(np.asarray(cur[v]), np.asarray(sp["current"][v]))]
    if moved:
        rep.violation(f"C17:IDF:start_at_equilibrium:design-variables-changed:{klass}", "space", case,
                      observed={v: cur[v] for v in moved}, expected={v: sp["current"][v] for v in moved})
        return
    x = form.design_space.get_current_value()
    funcs, consistency = functions_of(form, n_builtin)
    try:
        worst = max([float(np.max(np.abs(np.atleast_1d(c.evaluate(x.copy()))))) for c in consistency], default=0.0)
        vals = [np.atleast_1d(g.evaluate(x.copy())) for g in funcs]
    except Exception as e:
        rep.violation(f"C17:IDF:start_at_equilibrium:exception:{type(e).__name__}:{klass}", "value", case, observed=_exc(e))
        return
    rep.count("idf_start_point_oracle_evaluations", 1 + len(funcs))
    if worst > 1e-8:
        rep.violation(f"C17:IDF:start_at_equilibrium:consistency-non-zero-at-the-start-point:{klass}", "consistency", case,
                      observed=worst, expected="|C| <= 1e-8 at the design-space current value")
    for f, v in zip(ctx.functions, vals):
        ref_v = ctx.ref_function(f, sol0)
        if v.shape != ref_v.shape or float(np.max(np.abs(v - ref_v))) > VALUE_TOL * max(1.0, float(np.max(np.abs(ref_v)))):
            rep.violation(f"C17:IDF:start_at_equilibrium:value-at-the-start-point-differs-from-closed-form:{klass}", "value",
                          case, observed={"function": f["names"], "value": v}, expected={"value": ref_v})
            break


def _mda_converged(form):
    """Whether the MDA of an MDF formulation reports a residual below 1e3 * its tolerance (True when unknown)."""
    try:
        res = float(form.mda.normed_residual)
    except Exception:
        return True
    return not (res > 1e3 * MDA_SETTINGS["tolerance"])


def exact_partials(ctx, f, data, names, sl, ntot):
    """Closed-form partial Jacobian of the outputs ``f['names']`` of ONE spec discipline wrt the vector ``names``."""
    system = ctx.system
    rows = []
    for o in f["names"]:
        d = next(dd for dd in system.discs if dd["y"][0] == o or ("f" in dd and dd["f"][0] == o))
        part = system.partials_disc(d, data)[o]
        row = np.zeros((system.sizes[o], ntot))
        for nm, J in part.items():
            if nm in sl:
                row[:, sl[nm]] = J
        rows.append(row)
    return np.vstack(rows)


# =========================================================================== oracle: optimum
def reference_optimum(ctx):
    """Optimum of the reduced (MDF-like) problem on the closed form, by scipy's SLSQP from two starts."""
    from scipy.optimize import minimize

    case, system = ctx.case, ctx.system
    design = ctx.design
    sizes = system.sizes
    sl, n = col_slices(design, sizes)
    lb = np.concatenate([case["space"]["bounds"][v][0] for v in design])
    ub = np.concatenate([case["space"]["bounds"][v][1] for v in design])
    outs = ctx.function_outputs
    cache = {}

    def both(xv):
        key = xv.tobytes()
        if key not in cache:
            cache.clear()
            inputs = ctx.inputs({v: xv[sl[v]] for v in design})
            tot, sol = system.total_derivatives(inputs, of=outs, wrt=design)
            cache[key] = (tot, sol)
        return cache[key]

    def val(f, xv):
        return ctx.ref_function(f, both(xv)[1])

    def jac(f, xv):
        tot = both(xv)[0]
        return ctx.ref_sign(f) * np.vstack([np.hstack([tot[o][w] for w in design]) for o in f["names"]])

    obj = ctx.functions[0]
    cons = []
    for f in ctx.functions[1:]:
        if f["type"] == "eq":
            cons.append({"type": "eq", "fun": lambda xv, f=f: val(f, xv), "jac": lambda xv, f=f: jac(f, xv)})
        else:  # gemseo: g <= 0 ; scipy: fun >= 0
            cons.append({"type": "ineq", "fun": lambda xv, f=f: -val(f, xv), "jac": lambda xv, f=f: -jac(f, xv)})
    starts = [vec(design, case["feasible_point"]), vec(design, case["space"]["current"])]
    sols = []
    for x0 in starts:
        r = minimize(lambda xv: float(val(obj, xv)[0]), x0, jac=lambda xv: jac(obj, xv)[0], method="SLSQP",
                     bounds=list(zip(lb, ub)), constraints=cons, options={"ftol": 1e-15, "maxiter": 500})
        if not r.success:
            return None
        sols.append(r)
    if float(np.max(np.abs(sols[0].x - sols[1].x))) > 1e-7 or abs(sols[0].fun - sols[1].fun) > 1e-10:
        return None
    xv = sols[0].x
    sol = both(xv)[1]
    # feasibility of the reference
    for f in ctx.functions[1:]:
        v = ctx.ref_function(f, sol)
        if (f["type"] == "eq" and np.max(np.abs(v)) > 1e-8) or (f["type"] != "eq" and np.max(v) > 1e-8):
            return None
    return {"x": {v: xv[sl[v]] for v in design}, "f": float(sols[0].fun), "sol": sol}


class _OptWatchdog(BaseException):
    """Raised by the per-run wall-clock watchdog (BaseException: gemseo must not convert it into a result)."""


class _opt_watchdog:  # noqa: N801
    def __init__(self, seconds):
        self.seconds = seconds

    def __enter__(self):
        import signal
        import threading

        self.active = threading.current_thread() is threading.main_thread()
        if self.active:
            def _raise(signum, frame):
                raise _OptWatchdog

            self.old = signal.signal(signal.SIGALRM, _raise)
            signal.setitimer(signal.ITIMER_REAL, self.seconds)
        return self

    def __exit__(self, *exc):
        import signal

        if self.active:
            signal.setitimer(signal.ITIMER_REAL, 0.0)
            signal.signal(signal.SIGALRM, self.old)
        return False


def run_opt_case(case, rep):
    ctx = Ctx(case)
    system, grouping = ctx.system, ctx.grouping
    feat = features(case, ctx)
    rep.case(case_signature(case), True)
    ref = reference_optimum(ctx)
    if ref is None:
        rep.count("opt_reference_unreliable")
        return
    # couplings bounds must contain the reference optimum (they do by construction: +-40); skip otherwise
    for c in ctx.couplings:
        lb, ub = (np.array(b) for b in case["space"]["bounds"][c])
        if np.any(ref["sol"][c] < lb + 0.5) or np.any(ref["sol"][c] > ub - 0.5):
            rep.count("opt_reference_outside_coupling_bounds")
            return
    rep.count("opt_cases")
    wanted = [("MDF", None), ("IDF", True), ("IDF", False)]
    if not grouping.has_strong_coupling():
        wanted.append(("DisciplinaryOpt", None))
    for which, norm in wanted:
        key = which if norm is None else f"IDF[{'norm' if norm else 'raw'}]"
        duplicate = False
        try:
            scenario, n_builtin = build_scenario(ctx, which, normalize=norm,
                                                 start_at_equilibrium=which == "IDF" and case["start_at_equilibrium"])
            form = scenario.formulation
            cnames = [c.name for c in form.optimization_problem.constraints]
            duplicate = len(set(cnames)) != len(cnames)
            with _opt_watchdog(90.0):
                scenario.execute(algo_name="SLSQP", max_iter=case["max_iter"], ftol_rel=1e-14, ftol_abs=1e-14,
                                 xtol_rel=1e-14, xtol_abs=1e-14, eq_tolerance=1e-9, ineq_tolerance=1e-9)
            res = scenario.optimization_result
        except _OptWatchdog:
            # SciPy's SLSQP can loop for ever re-evaluating recorded points (no new iteration, so no budget stop):
            # that is not a verdict on the formulations; the case is inconclusive for the optimum clause only.
            rep.count("opt_watchdog_fired")
            rep.observe("optimisation aborted by the per-run watchdog (inconclusive for the optimum clause)", {"form": key})
            continue
        except Exception as e:
            tag = "duplicate-constraint-names" if duplicate else feat
            rep.violation(f"C17:opt:{which}:exception:{type(e).__name__}:{tag}", "optimum", case, observed=_exc(e),
                          expected={"x_opt": ref["x"], "f_opt": ref["f"]})
            continue
        n_iter = len(form.optimization_problem.database)
        if n_iter >= case["max_iter"] or "aximum" in str(res.message):
            rep.count("opt_stopped_on_budget")
            rep.observe("optimisation stopped on its budget (inconclusive for the optimum clause)", {"form": key})
            continue
        rep.count("optimum_oracle_evaluations")
        rep.count(f"optimum_{which}")
        tag = "duplicate-constraint-names" if duplicate else "plain"
        if res.f_opt is None or res.x_opt is None or len(res.x_opt) == 0:
            # with duplicate constraint names this is one more symptom of the recorded mechanism: same signature
            what = "optimum-differs-from-reference" if duplicate else "no-optimum-returned"
            rep.violation(f"C17:opt:{which}:{what}:{tag}", "optimum", case,
                          observed={"form": key, "x_opt": None, "f_opt": None, "message": str(res.message), "is_feasible": bool(res.is_feasible),
                                    "iterations": n_iter, "constraint_names": cnames},
                          expected={"x_opt": ref["x"], "f_opt": ref["f"]})
            continue
        xo = res.x_opt_as_dict
        dx = max(float(np.max(np.abs(np.asarray(xo[v]) - ref["x"][v]) / np.maximum(1.0, np.abs(ref["x"][v])))) for v in ctx.design)
        df = abs(float(res.f_opt) - ref["f"]) / max(1.0, abs(ref["f"]))
        dy = 0.0
        if which == "IDF":
            dy = max([float(np.max(np.abs(np.asarray(xo[c]) - ref["sol"][c]) / np.maximum(1.0, np.abs(ref["sol"][c]))))
                      for c in ctx.couplings], default=0.0)
        if df > OPT_F_TOL or max(dx, dy) > OPT_X_TOL:
            rep.violation(f"C17:opt:{which}:optimum-differs-from-reference:{tag}", "optimum", case,
                          observed={"form": key, "x_opt": xo, "f_opt": float(res.f_opt), "message": str(res.message),
                                    "is_feasible": bool(res.is_feasible), "iterations": n_iter, "constraint_names": cnames},
                          expected={"x_opt": ref["x"], "f_opt": ref["f"],
                                    "couplings": {c: ref["sol"][c] for c in ctx.couplings}})


# =========================================================================== directed cases
def directed_cases():
    out = []
    mk = lambda seed: np.random.default_rng(seed)  # noqa: E731
    chain_j = {"main": "MDAChain", "inner": "MDAJacobi", "chain_linearize": False}
    # 1. two strongly coupled disciplines, shuffled space, couplings of sizes drawn, every inner MDA
    for i, inner in enumerate(INNER):
        out.append(gen_pointwise_case(mk(100 + i), {"family": "std", "graph": "ring", "n": 2, "self_coupled": False,
                                                    "shuffle": True, "degenerate": False, "merge": False,
                                                    "mda": {"main": "MDAChain", "inner": inner, "chain_linearize": bool(i % 2)}}))
        out.append(gen_pointwise_case(mk(110 + i), {"family": "std", "graph": "ring", "n": 3, "self_coupled": False,
                                                    "degenerate": False, "merge": False,
                                                    "mda": {"main": inner, "inner": None, "chain_linearize": False}}))
    # 2. one gemseo discipline with two output couplings (ring of 4, opposite disciplines merged)
    for i in range(3):
        out.append(gen_pointwise_case(mk(120 + i), {"family": "std", "graph": "ring", "n": 4, "self_coupled": False,
                                                    "merge": True, "degenerate": False, "mda": chain_j}))
    # 3. self-coupled discipline, single and inside a ring
    out.append(gen_pointwise_case(mk(130), {"family": "single", "self_coupled": True, "degenerate": False, "mda": chain_j}))
    out.append(gen_pointwise_case(mk(131), {"family": "std", "graph": "ring", "n": 2, "self_coupled": True,
                                            "degenerate": False, "merge": False, "mda": chain_j}))
    # 4. feed-forward systems (DisciplinaryOpt), with an unused variable and a fixed local variable
    for i in range(3):
        out.append(gen_pointwise_case(mk(140 + i), {"family": "dag", "n": 3, "self_coupled": False, "unused": True,
                                                    "degenerate": False, "mda": chain_j}))
    out.append(gen_pointwise_case(mk(150), {"family": "single", "self_coupled": False, "degenerate": False, "mda": chain_j}))
    # 5. objective of an upstream discipline only: a design variable influences no function
    out.append(gen_pointwise_case(mk(160), {"family": "std", "graph": "tail_head", "n": 4, "self_coupled": False,
                                            "degenerate": True, "n_constraints": 0, "objective_of": 0,
                                            "merge": False, "mda": chain_j}))
    # 6. IDF(start_at_equilibrium=True) on feed-forward, single-SCC and multi-SCC systems, from inconsistent and
    #    from consistent initial coupling targets; IDF with n_processes=2 (threads)
    k = 0
    for fam, extra in (("dag", {"n": 3}), ("dag", {"n": 2}), ("std", {"graph": "ring", "n": 3}),
                       ("std", {"graph": "two_scc", "n": 4}), ("std", {"graph": "tail_head", "n": 4})):
        for start in ("inconsistent", "consistent"):
            out.append(gen_pointwise_case(mk(170 + k), dict(extra, family=fam, self_coupled=False, degenerate=False,
                                                            merge=False, start_at_equilibrium=True, coupling_start=start,
                                                            parallel=bool(k % 2), mda=chain_j)))
            k += 1
    # 7. MDF with a non-chained main MDA on graphs with weak couplings, design space containing all the couplings
    k = 0
    for fam, extra in (("std", {"graph": "tail_head", "n": 4}), ("std", {"graph": "two_scc", "n": 3}),
                       ("std", {"graph": "two_scc", "n": 4}), ("dag", {"n": 3})):
        for main in ("MDAJacobi", "MDAGaussSeidel"):
            out.append(gen_pointwise_case(mk(190 + k), dict(extra, family=fam, self_coupled=False, degenerate=False,
                                                            merge=False, mdf_direct_mda=main, parallel=False,
                                                            start_at_equilibrium=False, mda=chain_j)))
            k += 1
    return out


def directed_opt_cases():
    out = []
    chain_j = {"main": "MDAChain", "inner": "MDAJacobi", "chain_linearize": False}
    # constraint "y_i <= 0" on a coupling (default name) next to IDF's consistency constraint on the same coupling
    out.append(gen_opt_case(np.random.default_rng(200), {"family": "std", "graph": "ring", "n": 2, "self_coupled": False,
                                                         "constraint_on_coupling": True, "zero_value": True,
                                                         "positive": False, "n_constraints": 1, "mda": chain_j}))
    out.append(gen_opt_case(np.random.default_rng(201), {"family": "dag", "n": 3, "self_coupled": False, "mda": chain_j}))
    return out


# =========================================================================== entry points
def run_case(case, rep):
    if case["kind"] == "opt":
        run_opt_case(case, rep)
    else:
        run_pointwise_case(case, rep)


def run_shard(spec, rep):
    rng = np.random.default_rng(spec["seed"])
    if spec.get("shard", 0) == 0:
        for case in directed_cases():
            run_case(case, rep)
            rep.count("directed_cases")
    if spec.get("shard", 0) == 1:
        for case in directed_opt_cases():
            run_case(case, rep)
            rep.count("directed_cases")
    for i in range(spec["n_cases"]):
        if rep.time_left() < 0:
            rep.count("stopped_on_time_budget")
            break
        case = gen_pointwise_case(rng)
        run_case(case, rep)
        if i < 1:
            rep.sample({"case": _brief(case), "note": "pointwise case: MDF / IDF[norm] / IDF[raw] / DisciplinaryOpt vs closed form"})
    for i in range(spec["n_opt"]):
        if rep.time_left() < 0:
            rep.count("stopped_on_time_budget")
            break
        case = gen_opt_case(rng)
        run_case(case, rep)
        if i < 1:
            rep.sample({"case": _brief(case), "note": "optimisation case: SLSQP per formulation vs reference optimum"})


def _brief(case):
    c = copy.deepcopy(case)
    c["spec"] = {"n": case["spec"]["n"], "kind": case["spec"]["kind"], "nonlinear": case["spec"]["nonlinear"],
                 "disciplines": [{"name": d["name"], "inputs": d["inputs"], "y": d["y"], "f": d.get("f")}
                                 for d in case["spec"]["disciplines"]]}
    return c


def replay(case, rep):
    run_case(case, rep)
