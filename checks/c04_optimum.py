"""C04 — the reported optimum is the best point of the recorded history.

Monitors: (M4) independent selection rule ``vlib/ref/c04_optimum.py`` judging, for a generated database
attached to a real ``OptimizationProblem``: ``problem.optimum``, ``OptimizationResult.from_optimization_problem``
(``MultiObjectiveOptimizationResult`` + ``ParetoFront`` for vector objectives), ``history.feasible_points``,
``history.check_design_point_is_feasible`` for every key and ``history.last_point``; (M3) the same judgement
from a ``Database`` store listener during real driver runs ("at any time"); (M8) anchors.
Workload: exhaustive presence/feasibility *patterns* of 2-point histories (6^6 cell patterns x 4 constraint-type
pairs x min/max x standardised or not), random histories, directed corners.  See DESIGN.md section 3, C04.
"""

from __future__ import annotations

import itertools
import math

import numpy as np

from vlib.harness import subseed
from vlib.ref import c04_optimum as ref

PID = "C04"
LEVEL = "exploration"
RULE = (
    "(a) pattern enumeration: histories of 2 points x (objective, constraint 1, constraint 2); every cell is one of "
    "{missing, satisfied, exactly on the tolerance, slightly violated, strongly violated, NaN} (objective cells: "
    "missing, 4 ordered values, NaN), for the 4 ordered pairs of constraint types and the 4 modes "
    "(min/max x standardised or original objective) - all 4*4*6^6 in thorough, a sample stratified by "
    "(type pair, mode, cells of point 0) in quick; (b) seeded random histories: 1-12 points, 0-3 scalar/vector "
    "constraints of both types, missing/NaN values, ties, boundary values, split stores, random tolerances, scalar "
    "or 2-3-dimensional objectives; (c) directed corners; (d) real driver runs judged at every database store. "
    "A case is distinct by its presence/feasibility/ranking shape (not by its numbers) and non-trivial when at least "
    "one recorded point would be a wrong answer (the acceptable set is a strict subset of the recorded points)"
)
ASSUMPTIONS = [
    "a point is feasible iff every constraint has a recorded value and g<=tol_ineq, |h|<=tol_eq component-wise (NaN fails)",
    "a point with missing constraint values has no defined violation measure; only the sum over its recorded values is "
    "used, as a lower bound, and only against fully evaluated points",
    "vector objectives are ranked by their Euclidean norm (what the code documents); reported objective may be the "
    "recorded vector or its norm",
    "ties may be resolved either way; a missing or NaN objective is not an objective value and ranks after every value: "
    "a feasible point without usable objective is acceptable only if no feasible point has one",
    "Database (storage) is trusted; it is not the module under judgement",
]
ANCHORS = [
    "gemseo.algos.optimization_history:OptimizationHistory.feasible_points",
    "gemseo.algos.optimization_history:OptimizationHistory.check_design_point_is_feasible",
    "gemseo.algos.optimization_history:OptimizationHistory.__get_best_infeasible_point",
    "gemseo.algos.optimization_history:OptimizationHistory.optimum",
    "gemseo.algos.optimization_history:OptimizationHistory.last_point",
    "gemseo.core.mdo_functions.collections.constraints:Constraints.is_point_feasible",
    "gemseo.core.mdo_functions.collections.constraints:Constraints.is_constraint_satisfied",
    "gemseo.algos.optimization_result:OptimizationResult.from_optimization_problem",
    "gemseo.algos.multiobjective_optimization_result:MultiObjectiveOptimizationResult._get_additional_fields",
    "gemseo.algos.pareto.pareto_front:ParetoFront.from_optimization_problem",
    "gemseo.algos.pareto.utils:compute_pareto_optimal_points",
]
MIN_COUNTERS = {
    "quick": {"patterns_enumerated": 40000, "optimum_judged": 70000, "result_judged": 60000,
              "branch_feasible": 30000, "branch_infeasible": 35000, "selection_nontrivial": 45000,
              "infeasible_partial_histories": 18000, "feasible_without_usable_objective": 9000,
              "feasible_nan_objective_before_finite": 550, "feasible_missing_objective_before_finite": 2300,
              "bitwise_twin_histories": 6000, "later_bitwise_twin_is_the_only_acceptable_one": 1300,
              "earlier_bitwise_twin_is_the_only_acceptable_one": 1300, "optimum_index_judged_with_bitwise_twins": 5800,
              "feasibility_checks_full_points": 200000, "random_histories": 48000, "pareto_fronts_judged": 1800,
              "live_store_events_judged": 900, "maximize_cases": 35000, "original_objective_sign_restored": 13000},
    # thorough claims the complete pattern space: every one of the 746 496 patterns must have been judged
    "thorough": {"patterns_enumerated": 746496, "optimum_judged": 850000, "result_judged": 700000,
                 "branch_feasible": 350000, "branch_infeasible": 400000, "selection_nontrivial": 500000,
                 "infeasible_partial_histories": 200000, "feasible_without_usable_objective": 100000,
                 "feasible_nan_objective_before_finite": 6000, "feasible_missing_objective_before_finite": 24000,
                 "bitwise_twin_histories": 60000, "later_bitwise_twin_is_the_only_acceptable_one": 13000,
                 "earlier_bitwise_twin_is_the_only_acceptable_one": 13000, "optimum_index_judged_with_bitwise_twins": 58000,
                 "feasibility_checks_full_points": 2000000, "random_histories": 480000, "pareto_fronts_judged": 18000,
                 "live_store_events_judged": 5000, "maximize_cases": 400000, "original_objective_sign_restored": 150000},
}
SHARD_TIMEOUT = {"quick": 900, "thorough": 6000}  # caps only; nominal wall is ~30 s / ~4 min

N_SHARDS = 16
N_CELL = 6
N_PATTERNS = N_CELL ** 6  # 46656
TYPE_PAIRS = [("ineq", "ineq"), ("ineq", "eq"), ("eq", "ineq"), ("eq", "eq")]
MODES = [(True, True), (True, False), (False, True), (False, False)]  # (minimize, standardized)
PATTERN_SPACE = len(TYPE_PAIRS) * len(MODES) * N_PATTERNS  # 746496
GRAD = "@"


def shards(tier, seed):
    n_random = {"quick": 6000, "thorough": 60000}[tier]
    n_live = {"quick": 2, "thorough": 12}[tier]
    return [{"seed": subseed(seed, PID, i), "n_random": n_random, "n_live": n_live, "n_shards": N_SHARDS,
             "budget_s": {"quick": 800, "thorough": 5400}[tier]} for i in range(N_SHARDS)]


def coverage_extra(tier, counters):
    done = counters.get("patterns_enumerated", 0)
    return {
        "exhaustive": bool(tier == "thorough" and done == PATTERN_SPACE),
        "exhaustive_space": f"2-point presence/feasibility patterns: {PATTERN_SPACE} "
                            f"(4 type pairs x 4 objective modes x 6^6 cell patterns); enumerated {done}",
    }


# --------------------------------------------------------------------------- JSON-safe values
def enc(v):
    """None / float / nested list with 'nan' strings (JSON-safe and replayable)."""
    if v is None:
        return None
    if isinstance(v, (list, tuple, np.ndarray)):
        return [enc(u) for u in (v.tolist() if isinstance(v, np.ndarray) else v)]
    v = float(v)
    return "nan" if v != v else v


def dec(v):
    if v is None:
        return None
    if isinstance(v, list):
        return np.array([dec(u) for u in v], dtype=float)
    if isinstance(v, str):
        return float(v)
    return float(v)


# --------------------------------------------------------------------------- pattern -> history case
OBJ_LEVELS = {1: -3.0, 2: -0.5, 3: 0.75, 4: 4.0}  # original objective values (to minimise or maximise)
TOL_INEQ, TOL_EQ = 0.25, 0.5
SLIGHT = 2.0 ** -10


def cell_value(ctype, j, code):
    """Value of constraint number j (0/1) for a cell code 1..5."""
    tol = TOL_INEQ if ctype == "ineq" else TOL_EQ
    mag = {1: tol - 1.0 if ctype == "ineq" else 0.5 * tol, 2: tol, 3: tol + SLIGHT, 4: tol + 2.0 + j}[code] \
        if code != 5 else float("nan")
    # equality constraints: violated / boundary values are negative so that a forgotten abs() shows
    return mag if ctype == "ineq" else -mag


def pattern_case(pair_i, mode_i, pat):
    types = TYPE_PAIRS[pair_i]
    minimize, standardized = MODES[mode_i]
    cells = []
    p = pat
    for _ in range(6):
        cells.append(p % N_CELL)
        p //= N_CELL
    cells = cells[::-1]  # [f0, c0_0, c1_0, f1, c0_1, c1_1]
    xs = [[1.0, 2.0], [2.0, 1.0]]
    points = []
    for i in range(2):
        fc, cc = cells[3 * i], cells[3 * i + 1: 3 * i + 3]
        if fc == 0:
            f = None
        elif fc == 5:
            f = "nan"
        else:
            f = OBJ_LEVELS[fc] if minimize else -OBJ_LEVELS[fc]  # stored value is the standardised one
        c, g, c_as = {}, {}, {}
        for j in range(2):
            name = f"c{j}"
            if cc[j] == 0:
                c[name] = None
                continue
            c[name] = enc([cell_value(types[j], j, cc[j])])
            c_as[name] = "float" if (pat + i + j) % 3 == 0 else "array"
            if (pat + i + j) % 2 == 0:
                g[name] = [[0.5 * (i + 1), -1.0 * (j + 1)]]
        points.append({"x": xs[i], "f": f, "f_as": "array" if (pat + i) % 2 else "float", "c": c, "g": g, "c_as": c_as})
    return {
        "kind": "history", "origin": "pattern", "pattern": [pair_i, mode_i, pat], "cells": cells,
        "meta": {"n_x": 2, "minimize": minimize, "standardized": standardized, "tol_ineq": TOL_INEQ, "tol_eq": TOL_EQ,
                 "obj_dim": 1, "constraints": [["c0", types[0], 1], ["c1", types[1], 1]]},
        "points": points, "steps": None,
    }


# --------------------------------------------------------------------------- random histories
def gen_history(rng, n_x=None):
    # n_x is fixed per shard (it plays no role in the selection rule) to keep the number of distinct real problems
    # to build small: every ProblemFunction allocates a multiprocessing lock, which is slow on a loaded machine
    r_nx = int(rng.integers(1, 4))
    n_x = r_nx if n_x is None else n_x
    n_pts = int(rng.choice([1, 1, 2, 2, 3, 3, 4, 5, 6, 8, 10, 12]))
    n_con = int(rng.choice([0, 1, 1, 2, 2, 3]))
    obj_dim = 1 if rng.random() < 0.9 else int(rng.integers(2, 4))
    tol_ineq = float(rng.choice([0.0, 1e-4, 0.25, 10.0 ** rng.uniform(-6, 0)]))
    tol_eq = float(rng.choice([0.0, 1e-2, 0.5, 10.0 ** rng.uniform(-6, 0)]))
    cons = [[f"c{j}", str(rng.choice(["ineq", "eq"])), int(rng.choice([1, 1, 2, 3]))] for j in range(n_con)]
    p_miss_c = float(rng.choice([0.0, 0.0, 0.15, 0.4]))
    p_miss_f = float(rng.choice([0.0, 0.0, 0.2, 0.5]))
    p_nan_f = float(rng.choice([0.0, 0.0, 0.0, 0.15, 1.0]))
    p_nan_c = float(rng.choice([0.0, 0.0, 0.05]))
    p_viol = float(rng.choice([0.0, 0.1, 0.3, 0.6, 1.0]))
    tie_obj = rng.random() < 0.5

    def comp(ctype):
        tol = tol_ineq if ctype == "ineq" else tol_eq
        r = rng.random()
        if r < p_nan_c:
            return float("nan")
        if rng.random() < p_viol:
            k = int(rng.integers(4))
            mag = [float(np.nextafter(tol, np.inf)), tol + SLIGHT, tol + float(rng.integers(1, 4)),
                   tol + float(np.round(rng.uniform(0.01, 5.0), 3))][k]
            if mag == 0.0:  # nextafter(0) is subnormal and fine, keep it
                mag = float(np.nextafter(0.0, 1.0))
        else:
            k = int(rng.integers(3))
            mag = [tol, tol * float(rng.uniform(0, 1)), tol - float(np.round(rng.uniform(0.0, 3.0), 3))][k]
            if ctype == "eq" and mag < 0:
                mag = tol * 0.5
        if ctype == "eq":
            return mag if rng.random() < 0.5 else -mag
        return mag

    xs = set()
    points = []
    for _ in range(n_pts):
        while True:
            x = tuple(float(v) for v in np.round(rng.uniform(-5, 5, n_x), 2))
            if x not in xs:
                xs.add(x)
                break
        if rng.random() < p_miss_f:
            f = None
        else:
            if tie_obj:
                fv = rng.integers(-3, 4, obj_dim).astype(float)
            else:
                fv = np.round(rng.normal(0, 3, obj_dim), 4)
            fv = np.where(rng.random(obj_dim) < p_nan_f, np.nan, fv) if p_nan_f < 1.0 else np.full(obj_dim, np.nan)
            f = enc(fv) if obj_dim > 1 else enc(fv[0])
        c, g, c_as = {}, {}, {}
        for name, ctype, dim in cons:
            if rng.random() < p_miss_c:
                c[name] = None
                continue
            c[name] = enc([comp(ctype) for _ in range(dim)])
            c_as[name] = "float" if dim == 1 and rng.random() < 0.3 else "array"
            if rng.random() < 0.5:
                g[name] = np.round(rng.normal(0, 1, (dim, n_x)), 3).tolist()
        points.append({"x": list(x), "f": f, "f_as": "float" if rng.random() < 0.5 else "array", "c": c, "g": g,
                       "c_as": c_as})
    if n_pts > 1 and rng.random() < 0.15:
        # two recorded points equal by value but bitwise distinct (0.0 / -0.0 component), in either order; their
        # objective / constraint values stay the independent ones generated above
        i, j = sorted(int(v) for v in rng.choice(n_pts, size=2, replace=False))
        k = int(rng.integers(n_x))
        base = list(points[i]["x"])
        base[k] = 0.0
        if not any(q is not points[i] and q is not points[j] and list(q["x"]) == base for q in points):
            neg = list(base)
            neg[k] = -0.0
            first_negative = bool(rng.random() < 0.5)
            points[i]["x"], points[j]["x"] = (neg, base) if first_negative else (base, neg)
    steps = None
    if n_pts > 1 and rng.random() < 0.3:
        # split stores: constraints first for everybody, then objective / gradients in a shuffled second pass
        steps = [[i, "c"] for i in range(n_pts)]
        second = [[i, "f"] for i in range(n_pts)]
        order = rng.permutation(n_pts)
        steps += [second[int(k)] for k in order]
    return {
        "kind": "history", "origin": "random",
        "meta": {"n_x": n_x, "minimize": bool(rng.random() < 0.5), "standardized": bool(rng.random() < 0.5),
                 "tol_ineq": tol_ineq, "tol_eq": tol_eq, "obj_dim": obj_dim, "constraints": cons},
        "points": points, "steps": steps,
    }


# --------------------------------------------------------------------------- real problem construction
_PROBLEMS: dict = {}


def get_problem(meta):
    """A real, pre-processed OptimizationProblem for this meta (cached per shard; the database is cleared)."""
    # the declared dimension of a constraint function plays no role in what is judged here: not part of the key
    key = (meta["n_x"], meta["minimize"], meta["standardized"], meta["obj_dim"],
           tuple((c[0], c[1]) for c in meta["constraints"]))
    prob = _PROBLEMS.get(key)
    if prob is None:
        from gemseo.algos.design_space import DesignSpace
        from gemseo.algos.optimization_problem import OptimizationProblem
        from gemseo.core.mdo_functions.mdo_function import MDOFunction

        ds = DesignSpace()
        ds.add_variable("x", meta["n_x"], lower_bound=-10.0, upper_bound=10.0, value=0.0)
        prob = OptimizationProblem(ds, use_standardized_objective=meta["standardized"])
        k = meta["obj_dim"]
        prob.objective = MDOFunction(lambda x, k=k: np.zeros(k) if k > 1 else 0.0, "f", dim=k)
        if not meta["minimize"]:
            prob.minimize_objective = False
        for name, ctype, dim in meta["constraints"]:
            prob.add_constraint(MDOFunction(lambda x, d=dim: np.zeros(d), name, dim=dim), constraint_type=ctype)
        prob.preprocess_functions()  # as every driver does (gives the functions their call counters)
        if len(_PROBLEMS) > 3000:
            _PROBLEMS.clear()
        _PROBLEMS[key] = prob
    prob.tolerances.inequality = meta["tol_ineq"]
    prob.tolerances.equality = meta["tol_eq"]
    prob.database.clear()
    return prob


def decode_history(case):
    """History in the reference's format (numpy values) from the JSON case."""
    hist = []
    for p in case["points"]:
        hist.append({"x": np.array(p["x"], dtype=float), "f": dec(p["f"]),
                     "c": {k: dec(v) for k, v in p["c"].items()},
                     "g": {k: np.array(v, dtype=float) for k, v in p.get("g", {}).items()}})
    return hist


def load_history(prob, case, hist):
    """Store the generated history in the real database (standardised objective name, '@' gradients)."""
    fname = prob.standardized_objective_name
    db = prob.database

    def values(i, which):
        p, h = case["points"][i], hist[i]
        out = {}
        if which in ("all", "f") and h["f"] is not None:
            f = h["f"]
            if np.ndim(f) == 0:
                f = float(f) if p.get("f_as") == "float" else np.array([f])
            out[fname] = f
        if which in ("all", "c"):
            for name, v in h["c"].items():
                if v is None:
                    continue
                out[name] = float(v[0]) if (p.get("c_as", {}).get(name) == "float" and v.size == 1) else v.copy()
        if which in ("all", "f"):
            for name, g in h["g"].items():
                out[GRAD + name] = g.copy()
        return out

    if case.get("steps"):
        for i, which in case["steps"]:
            db.store(hist[i]["x"].copy(), values(i, which))
    else:
        for i in range(len(hist)):
            db.store(hist[i]["x"].copy(), values(i, "all"))


# --------------------------------------------------------------------------- judgement
def _missing_before_violation(point, constraints, tol_i, tol_e):
    """Mechanism feature: a missing constraint value is listed before a recorded, unsatisfied one."""
    seen_missing = False
    for name, ctype in constraints:
        v = point["c"].get(name)
        if v is None:
            seen_missing = True
        elif seen_missing and not ref.satisfied(ctype, v, tol_i, tol_e):
            return True
    return False


def _prefix_measure(point, constraints, tol_i, tol_e):
    """Measure summed over the constraints listed before the first missing value (classifier only)."""
    total = 0.0
    for name, ctype in constraints:
        v = point["c"].get(name)
        if v is None:
            break
        if not ref.satisfied(ctype, v, tol_i, tol_e):
            total += ref.violation_term(ctype, v, tol_i, tol_e)
    return total


def judge(prob, hist, constraints, flags, rep, case, *, count=True, multi=False):
    """Judge everything the real problem reports for the recorded history ``hist``.

    ``constraints``: [(name, type)] in listing order; ``flags``: dict(minimize, standardized, tol_ineq, tol_eq).
    Returns the reference analysis.
    """
    tol_i, tol_e = flags["tol_ineq"], flags["tol_eq"]
    an = ref.Analysis(hist, constraints, tol_i, tol_e)
    n = len(hist)
    feasible_branch = an.any_feasible
    no_usable = feasible_branch and not an.usable
    mode = ("min" if flags["minimize"] else "max") + ("-std" if flags["standardized"] else "-orig")
    partial = "all-full" if an.all_full else "partial"
    if count:
        rep.count("branch_feasible" if feasible_branch else "branch_infeasible")
        if not feasible_branch and not an.all_full:
            rep.count("infeasible_partial_histories")
        if no_usable:
            rep.count("feasible_without_usable_objective")
        if len(an.acceptable | an.tolerated) < n:
            rep.count("selection_nontrivial")
        if not flags["minimize"]:
            rep.count("maximize_cases")
        twins = ref.value_twins(hist)
        if twins:
            rep.count("bitwise_twin_histories")
            if any(j in an.acceptable and i not in an.acceptable for i, j in twins):
                rep.count("later_bitwise_twin_is_the_only_acceptable_one")
            if any(i in an.acceptable and j not in an.acceptable for i, j in twins):
                rep.count("earlier_bitwise_twin_is_the_only_acceptable_one")
        # a feasible point without comparable objective recorded *before* a feasible point with a finite one
        first_usable = min(an.usable) if an.usable else None
        if first_usable is not None:
            early = [i for i in an.incomparable if i < first_usable]
            if any(hist[i]["f"] is not None for i in early):
                rep.count("feasible_nan_objective_before_finite")
            if any(hist[i]["f"] is None for i in early):
                rep.count("feasible_missing_objective_before_finite")
            if an.incomparable:
                rep.count("feasible_incomparable_and_finite_objectives")

    def viol(sig, clause, observed, expected, msg=""):
        rep.violation(sig, clause, case, observed=observed, expected=expected, msg=msg)

    # ---- 1. problem.optimum
    sol = None
    try:
        sol = prob.optimum
    except Exception as e:  # a non-empty history: the property promises a reported solution
        viol(f"C04:optimum:exception:{type(e).__name__}:{'feasible' if feasible_branch else 'infeasible'}-branch",
             "a solution is reported for a non-empty history", f"{type(e).__name__}: {e}", "a Solution")
    r = None
    if sol is not None:
        if count:
            rep.count("optimum_judged")
        r = ref.find_point(hist, sol.design)
        if r is None:
            if no_usable:
                viol("C04:no-feasible-point-has-objective", "the reported point is a feasible recorded point",
                     {"design": sol.design, "objective": sol.objective, "is_feasible": sol.is_feasible},
                     {"acceptable_points": sorted(an.acceptable)},
                     "feasible points exist, none has a usable (recorded, non-NaN) objective: optimum reports a design "
                     "vector that is not in the history")
            else:
                viol(f"C04:optimum:reported-point-not-recorded:{'feasible' if feasible_branch else 'infeasible'}-branch",
                     "the reported point is a recorded point", {"design": sol.design}, {"recorded": [p["x"] for p in hist]})
        else:
            _judge_selection(an, r, hist, constraints, tol_i, tol_e, feasible_branch, mode, partial, viol, rep,
                             "optimum", prob)
            if bool(sol.is_feasible) != an.feasible[r] or bool(sol.is_feasible) != feasible_branch:
                viol(f"C04:optimum:feasibility-flag:{'feasible' if feasible_branch else 'infeasible'}-branch",
                     "feasibility flag is that of the reported point", bool(sol.is_feasible),
                     {"point_feasible": an.feasible[r], "a_feasible_point_exists": feasible_branch})
            if not ref.same_objective(sol.objective, hist[r]["f"]):
                viol(f"C04:optimum:objective-not-recorded-at-point:{mode}", "reported objective is the recorded one",
                     sol.objective, {"point": r, "recorded_standardized": hist[r]["f"]})
            _judge_values(sol.constraints, sol.constraint_jacobian, hist[r], constraints, viol, "optimum", r)

    # ---- 2. OptimizationResult.from_optimization_problem
    res = None
    try:
        if multi:
            from gemseo.algos.multiobjective_optimization_result import MultiObjectiveOptimizationResult as Res
        else:
            from gemseo.algos.optimization_result import OptimizationResult as Res
        res = Res.from_optimization_problem(prob)
    except Exception as e:
        if no_usable and isinstance(e, KeyError) and r is None and sol is not None:
            viol("C04:no-feasible-point-has-objective:result-raises-KeyError",
                 "the history index is that of the reported point", f"{type(e).__name__}: {e}", "an OptimizationResult",
                 "consequence of the empty design vector reported by optimum")
        elif multi and sol is not None and r is not None and _pareto_raises(prob):
            # the scalar part is judged above; a failure inside ParetoFront is outside the statement
            rep.observe(f"pareto-front-construction-raises:{type(e).__name__}", {"case": case, "error": str(e)[:200]})
        else:
            viol(f"C04:result:exception:{type(e).__name__}:{'feasible' if feasible_branch else 'infeasible'}-branch",
                 "a result is assembled for a non-empty history", f"{type(e).__name__}: {e}", "an OptimizationResult")
    if res is not None:
        if count:
            rep.count("result_judged")
        rr = ref.find_point(hist, res.x_opt)
        if rr is None:
            viol("C04:result:reported-point-not-recorded", "x_opt is a recorded point", {"x_opt": res.x_opt},
                 {"recorded": [p["x"] for p in hist]})
        else:
            if rr != r:  # otherwise already judged through optimum
                _judge_selection(an, rr, hist, constraints, tol_i, tol_e, feasible_branch, mode, partial, viol, rep,
                                 "result", prob)
            if res.optimum_index != rr:
                oi = res.optimum_index
                twin = isinstance(oi, (int, np.integer)) and 0 <= oi < n and (min(oi, rr), max(oi, rr)) in ref.value_twins(hist)
                viol("C04:result:optimum_index" + (":value-equal-bitwise-distinct-point" if twin else ""),
                     "history index is that of the reported point (database position; keys compared bitwise)",
                     {"optimum_index": oi, "recorded_there": hist[oi] if isinstance(oi, (int, np.integer)) and 0 <= oi < n else None},
                     {"position_of_x_opt": rr, "recorded_there": hist[rr]})
            elif count and ref.value_twins(hist):
                rep.count("optimum_index_judged_with_bitwise_twins")
            if bool(res.is_feasible) != an.feasible[rr]:
                viol("C04:result:feasibility-flag", "feasibility flag is that of the reported point",
                     bool(res.is_feasible), an.feasible[rr])
            restore = (not flags["minimize"]) and (not flags["standardized"])
            if count and restore and hist[rr]["f"] is not None:
                rep.count("original_objective_sign_restored")
            if not ref.same_objective(res.f_opt, hist[rr]["f"], -1.0 if restore else 1.0):
                viol(f"C04:result:f_opt-not-recorded-at-point:{mode}", "f_opt is the recorded objective (sign restored "
                     "iff maximisation and original objective)", res.f_opt,
                     {"point": rr, "recorded_standardized": hist[rr]["f"], "sign_restored": restore})
            _judge_values(res.constraint_values, res.constraints_grad, hist[rr], constraints, viol, "result", rr)
        if multi:
            _judge_pareto(getattr(res, "pareto_front", None), an, hist, feasible_branch, viol, rep, case, count)

    # ---- 3. the feasible-point filter and the violation measure, point by point
    h = prob.history
    try:
        fx, _ = h.feasible_points
        got = [ref.find_point(hist, x) for x in fx]
        want = [i for i in range(n) if an.feasible[i]]
        if count:
            rep.count("feasible_points_judged")
        if sorted(got, key=lambda v: (v is None, v)) != want:  # order is not part of the statement
            extra = [i for i in got if i not in want]
            what = "infeasible-point-listed" if extra else "feasible-point-dropped"
            viol(f"C04:feasible_points:{what}", "feasible_points is the set of feasible recorded points", got, want)
    except Exception as e:
        viol(f"C04:feasible_points:exception:{type(e).__name__}", "feasible_points", f"{type(e).__name__}: {e}", None)
    for i, p in enumerate(hist):
        try:
            flag, meas = h.check_design_point_is_feasible(p["x"])
        except Exception as e:
            viol(f"C04:check_design_point_is_feasible:exception:{type(e).__name__}", "violation measure",
                 f"{type(e).__name__}: {e}", None)
            continue
        lb = an.measure_lb[i]
        close = (meas == lb) or (math.isfinite(lb) and abs(meas - lb) <= ref.RTOL_MEASURE * lb)
        if an.full[i]:
            if count:
                rep.count("feasibility_checks_full_points")
            if bool(flag) != an.feasible[i]:
                viol("C04:check_design_point_is_feasible:flag:full-point", "feasibility of a fully evaluated point",
                     {"point": i, "flag": bool(flag)}, an.feasible[i])
            elif not close:
                viol("C04:check_design_point_is_feasible:measure:full-point",
                     "documented violation measure of a fully evaluated point", {"point": i, "measure": meas}, lb)
        else:
            if count:
                rep.count("feasibility_checks_partial_points")
            if not close:
                rep.observe("check_design_point_is_feasible:partial-point:measure-differs-from-sum-over-recorded-values",
                            {"point": p, "reported": meas, "sum_over_recorded": lb})

    # ---- 4. last point
    try:
        lp = h.last_point
        last = _last_index(case, n)
        if count:
            rep.count("last_point_judged")
        li = ref.find_point(hist, lp.design)
        if li != last:
            viol("C04:last_point:not-the-last-recorded-point", "last_point", li, last)
        else:
            if bool(lp.is_feasible) != an.feasible[last]:
                viol("C04:last_point:feasibility-flag", "feasibility flag is that of the point", bool(lp.is_feasible),
                     an.feasible[last])
            if not ref.same_objective(lp.objective, hist[last]["f"]):
                viol("C04:last_point:objective", "objective is the recorded one", lp.objective, hist[last]["f"])
            _judge_values(lp.constraints, lp.constraint_jacobian, hist[last], constraints, viol, "last_point", last)
    except Exception as e:
        viol(f"C04:last_point:exception:{type(e).__name__}", "last_point", f"{type(e).__name__}: {e}", None)
    return an


def _last_index(case, n):
    """Index (in generation order) of the point recorded last = last *new* key of the database."""
    steps = case.get("steps") if isinstance(case, dict) else None
    if not steps:
        return n - 1
    seen = []
    for i, _ in steps:
        if i not in seen:
            seen.append(i)
    return seen[-1]


def db_order(case, n):
    """Position in the database (0-based) of each generated point."""
    steps = case.get("steps")
    if not steps:
        return list(range(n))
    seen = []
    for i, _ in steps:
        if i not in seen:
            seen.append(i)
    return seen


def _judge_selection(an, r, hist, constraints, tol_i, tol_e, feasible_branch, mode, partial, viol, rep, who, prob):
    if r in an.acceptable:
        return
    if r in an.incomparable:
        # feasible, but its objective is missing or NaN while a feasible point with a finite objective exists: a
        # missing/NaN objective is not an objective value and ranks after every value (see notes/C04.md)
        kind = "missing" if hist[r]["f"] is None else "nan"
        viol(f"C04:{who}:best-feasible:reported-point-has-no-comparable-objective:{kind}",
             "no feasible recorded point with an objective value has a strictly smaller standardised objective",
             {"point": r, "recorded_standardized_objective": hist[r]["f"]},
             {"acceptable_points": sorted(an.acceptable), "best_standardized_objective": an.best_key},
             "a feasible point with a finite objective is recorded; the reported feasible point has none")
        return
    if feasible_branch:
        if not an.feasible[r]:
            viol(f"C04:{who}:best-feasible:reported-point-is-not-feasible", "the reported point is feasible",
                 {"point": r, "constraints": hist[r]["c"]}, {"feasible_points": [i for i in range(an.n) if an.feasible[i]]})
        else:
            viol(f"C04:{who}:best-feasible:strictly-better-feasible-point-exists:{mode}",
                 "no feasible recorded point has a strictly smaller standardised objective",
                 {"point": r, "standardized_objective": an.keys[r]},
                 {"acceptable_points": sorted(an.acceptable), "best_standardized_objective": an.best_key})
    else:
        # narrow mechanism test: the reported point is exactly what a measure that stops at the first missing
        # constraint value would select (and that truncation hides a recorded violation of the reported point)
        prefix = [_prefix_measure(p, constraints, tol_i, tol_e) for p in hist]
        lowest = min(prefix)
        explained = prefix[r] <= lowest * (1 + ref.RTOL_MEASURE) if math.isfinite(lowest) else True
        try:  # ... and the real code's own measure of the reported point is that truncated sum
            own = float(prob.history.check_design_point_is_feasible(hist[r]["x"])[1])
            explained = explained and (own == prefix[r] or abs(own - prefix[r]) <= ref.RTOL_MEASURE * abs(prefix[r]))
        except Exception:
            explained = False
        if explained and _missing_before_violation(hist[r], constraints, tol_i, tol_e):
            sig = f"C04:{who}:least-infeasible:missing-constraint-value-hides-later-violation"
            msg = ("the reported point has a missing constraint value listed before a recorded violated one; its "
                   "recorded violations alone exceed the measure of a fully evaluated point")
        else:
            sig, msg = f"C04:{who}:least-infeasible:larger-measure-than-a-fully-evaluated-point:{partial}", ""
        viol(sig, "the reported point has minimal constraint-violation measure",
             {"point": r, "measure_lower_bound": an.measure_lb[r], "constraints": hist[r]["c"]},
             {"acceptable_points": sorted(an.acceptable), "min_measure_of_fully_evaluated_points": an.full_min}, msg)


def _judge_values(cvals, cgrads, point, constraints, viol, who, idx):
    for name, _ in constraints:
        got = None if cvals is None else cvals.get(name)
        if not ref.same_value(got, point["c"].get(name)):
            viol(f"C04:{who}:constraint-value-not-recorded-at-point", "constraint values are those recorded for the point",
                 {name: got}, {"point": idx, name: point["c"].get(name)})
            break
    for name, _ in constraints:
        got = None if cgrads is None else cgrads.get(name)
        if not ref.same_value(got, point["g"].get(name)):
            viol(f"C04:{who}:constraint-gradient-not-recorded-at-point", "gradients are those recorded for the point",
                 {name: got}, {"point": idx, name: point["g"].get(name)})
            break


def _pareto_raises(prob):
    from gemseo.algos.pareto.pareto_front import ParetoFront

    try:
        ParetoFront.from_optimization_problem(prob)
    except Exception:
        return True
    return False


def _judge_pareto(front, an, hist, feasible_branch, viol, rep, case, count):
    if front is None:
        if feasible_branch:
            rep.observe("pareto-front-absent-although-feasible", None)
        return
    if count:
        rep.count("pareto_fronts_judged")
    nd = ref.non_dominated_feasible(hist, an.feasible)
    cand = [i for i in range(len(hist)) if an.feasible[i] and hist[i]["f"] is not None
            and not np.isnan(np.atleast_1d(hist[i]["f"])).any()]
    reported = []
    for xo, fo in zip(np.atleast_2d(front.x_optima), np.atleast_2d(front.f_optima)):
        i = ref.find_point(hist, xo)
        if count:
            rep.count("pareto_points_judged")
        if i is None:
            viol("C04:pareto:reported-point-not-recorded", "Pareto points are recorded points", {"x": xo}, None)
            continue
        reported.append(i)
        if hist[i]["f"] is None or not ref.same_value(fo, hist[i]["f"]):
            viol("C04:pareto:objective-not-recorded-at-point", "Pareto objective values are the recorded ones", fo,
                 {"point": i, "recorded": hist[i]["f"]})
            continue
        dom = [j for j in cand if j != i and ref.dominates(hist[j]["f"], hist[i]["f"])]
        if dom:
            viol("C04:pareto:reported-point-dominated-by-feasible-point", "no reported Pareto point is dominated by a "
                 "feasible one", {"point": i, "f": hist[i]["f"]}, {"dominated_by": dom, "f": [hist[j]["f"] for j in dom]})
        if not an.feasible[i]:
            rep.observe("pareto:reported-point-is-not-feasible", {"point": i})
    missing = [i for i in nd if i not in reported]
    if missing:
        # outside the statement (it only forbids dominated reported points): equal objective vectors are both dropped
        rep.observe("pareto:non-dominated-feasible-point-not-reported", {"case": case, "missing": missing})


# --------------------------------------------------------------------------- running one generated case
def shape_signature(case, an):
    """Shape of a case: presence / satisfaction pattern and objective ranking, not its numbers."""
    meta = case["meta"]
    pts = []
    keys = [k for k in an.keys if k is not None]
    order = {v: i for i, v in enumerate(sorted(set(keys)))}
    for i, p in enumerate(case["points"]):
        pts.append((None if an.keys[i] is None else order[an.keys[i]], p["f"] is None, an.feasible[i], an.full[i],
                    tuple(v is None for v in p["c"].values())))
    return (case.get("origin"), meta["minimize"], meta["standardized"], meta["obj_dim"],
            tuple((c[1], c[2]) for c in meta["constraints"]), tuple(pts), bool(case.get("steps")),
            tuple(case.get("pattern", ())))


def run_history_case(case, rep, *, count=True):
    meta = case["meta"]
    hist = decode_history(case)
    prob = get_problem(meta)
    load_history(prob, case, hist)
    order = db_order(case, len(hist))
    if order != list(range(len(hist))):
        # the reference indexes points by their position in the database
        hist = [hist[i] for i in order]
        case = dict(case, points=[case["points"][i] for i in order],
                    steps=[[order.index(i), w] for i, w in case["steps"]])
    constraints = [(c[0], c[1]) for c in meta["constraints"]]
    an = judge(prob, hist, constraints, meta, rep, case, count=count, multi=meta["obj_dim"] > 1)
    nontrivial = len(an.acceptable | an.tolerated) < len(hist)
    rep.case(shape_signature(case, an), nontrivial)
    return an


# --------------------------------------------------------------------------- live driver runs
LIVE = [
    ("power2", "SLSQP", {"max_iter": 15}),
    ("power2", "NLOPT_COBYLA", {"max_iter": 25}),
    ("power2", "PYDOE_LHS", {"n_samples": 20}),
    ("power2-max", "PYDOE_LHS", {"n_samples": 15}),
    ("binhkorn", "PYDOE_LHS", {"n_samples": 25}),
    ("rosen-con", "SLSQP", {"max_iter": 12}),
    ("rosen-con", "PYDOE_LHS", {"n_samples": 15}),
    ("power2", "NLOPT_SLSQP", {"max_iter": 10}),
    # found by the C11 author: SLSQP leaves the bounds, gemseo evaluates f at the unclipped and the constraint at the
    # clipped point -> a feasible recorded point without objective while every complete point is infeasible
    ("wquad", "SLSQP", {"max_iter": 4}),
]


def make_live_problem(name, variant):
    from gemseo.algos.design_space import DesignSpace
    from gemseo.algos.optimization_problem import OptimizationProblem
    from gemseo.core.mdo_functions.mdo_function import MDOFunction

    if name.startswith("power2"):
        from gemseo.problems.optimization.power_2 import Power2

        prob = Power2()
        if name.endswith("max"):
            prob.minimize_objective = False
            prob.use_standardized_objective = bool(variant % 2)
    elif name == "wquad":
        ds = DesignSpace()
        ds.add_variable("x", 2, lower_bound=np.array([-1.26, -1.06]), upper_bound=np.array([2.19, 2.35]),
                        value=np.array([-0.228, -0.57]))
        ds.add_variable("z_3", 2, lower_bound=np.array([-1.56, -2.35]), upper_bound=np.array([2.38, 2.0]),
                        value=np.array([-0.092, 0.842]))
        w, c = np.array([1.37, 1.28, 1.85, 1.87]), np.array([0.44, 0.3, -0.02, 0.02])
        a = np.array([0.87, -0.02, -0.34, -0.66])
        prob = OptimizationProblem(ds)
        prob.objective = MDOFunction(lambda x: float(np.sum(w * (x - c) ** 2)), "f", jac=lambda x: 2 * w * (x - c))
        prob.add_constraint(MDOFunction(lambda x: np.array([a @ x - 1.39]), "c", jac=lambda x: a[None, :]),
                            constraint_type="ineq", positive=True, value=-1.0)
        prob.tolerances.inequality = 1e-3
        prob.tolerances.equality = 5e-2
    elif name == "binhkorn":
        from gemseo.problems.multiobjective_optimization.binh_korn import BinhKorn

        prob = BinhKorn()
    else:
        ds = DesignSpace()
        ds.add_variable("x", 2, lower_bound=-2.0, upper_bound=2.0, value=np.array([-1.0, 1.5]))
        prob = OptimizationProblem(ds)
        prob.objective = MDOFunction(lambda x: (1 - x[0]) ** 2 + 100 * (x[1] - x[0] ** 2) ** 2, "rosen",
                                     jac=lambda x: np.array([-2 * (1 - x[0]) - 400 * x[0] * (x[1] - x[0] ** 2),
                                                             200 * (x[1] - x[0] ** 2)]))
        prob.add_constraint(MDOFunction(lambda x: np.array([x[0] + x[1] - 1.0, x[0] ** 2 - 2.0]), "g",
                                        jac=lambda x: np.array([[1.0, 1.0], [2 * x[0], 0.0]])), constraint_type="ineq")
        prob.add_constraint(MDOFunction(lambda x: np.array([x[0] - 0.5 * x[1]]), "h",
                                        jac=lambda x: np.array([[1.0, -0.5]])), constraint_type="eq")
        prob.tolerances.equality = [1e-2, 0.3][variant % 2]
    return prob


def history_from_database(prob):
    fname = prob.standardized_objective_name
    names = [c.name for c in prob.constraints]
    hist = []
    for x, vals in prob.database.items():
        hist.append({"x": np.array(x.unwrap(), dtype=float, copy=True),
                     "f": None if vals.get(fname) is None else np.array(vals[fname], dtype=float, copy=True),
                     "c": {k: None if vals.get(k) is None else np.atleast_1d(np.array(vals[k], dtype=float)) for k in names},
                     "g": {k: np.array(vals[GRAD + k], dtype=float) for k in names if vals.get(GRAD + k) is not None}})
    return hist


def run_live_case(case, rep, *, count=True):
    name, algo, opts, variant = case["problem"], case["algo"], case["options"], case.get("variant", 0)
    prob = make_live_problem(name, variant)
    events = {"n": 0, "errors": []}
    stride = case.get("stride", 1)

    def on_store(_x):
        events["n"] += 1
        if events["n"] % stride:
            return
        try:
            hist = history_from_database(prob)
            constraints = [(c.name, str(c.f_type.value if hasattr(c.f_type, "value") else c.f_type)) for c in prob.constraints]
            flags = {"minimize": prob.minimize_objective, "standardized": prob.use_standardized_objective,
                     "tol_ineq": prob.tolerances.inequality, "tol_eq": prob.tolerances.equality}
            wit = dict(case, at_store_event=events["n"])
            multi = any(h["f"] is not None and np.size(h["f"]) > 1 for h in hist)
            judge(prob, hist, constraints, flags, rep, wit, count=False, multi=multi)
            if count:
                rep.count("live_store_events_judged")
        except Exception as e:  # harness trouble inside the listener must not look like a driver failure
            events["errors"].append(f"{type(e).__name__}: {e}")

    prob.database.add_store_listener(on_store)
    try:
        if algo.startswith("PYDOE") or algo.startswith("OT_") or algo == "CustomDOE":
            from gemseo.algos.doe.factory import DOELibraryFactory

            DOELibraryFactory().execute(prob, algo_name=algo, random_state=case.get("seed", 1), **opts)
        else:
            from gemseo.algos.opt.factory import OptimizationLibraryFactory

            OptimizationLibraryFactory().execute(prob, algo_name=algo, **opts)
    except Exception as e:
        rep.observe(f"live-run-raised:{algo}:{type(e).__name__}", str(e)[:200])
    if events["errors"]:
        rep.inconclusive("C04 live listener error: " + events["errors"][0][:300])
    rep.case(("live", name, algo, variant), True)
    if count:
        rep.count("live_runs")


# --------------------------------------------------------------------------- directed cases
def _pt(x, f, c, g=None, f_as="float"):
    return {"x": x, "f": enc(f) if f is not None else None, "f_as": f_as,
            "c": {k: (None if v is None else enc(v)) for k, v in c.items()}, "g": g or {}, "c_as": {}}


def _hc(cons, points, minimize=True, standardized=True, tol_ineq=1e-4, tol_eq=1e-2, obj_dim=1, n_x=1, steps=None):
    return {"kind": "history", "origin": "directed",
            "meta": {"n_x": n_x, "minimize": minimize, "standardized": standardized, "tol_ineq": tol_ineq,
                     "tol_eq": tol_eq, "obj_dim": obj_dim, "constraints": cons},
            "points": points, "steps": steps}


def directed_cases():
    nan = float("nan")
    out = []
    two = [["c1", "ineq", 1], ["c2", "ineq", 1]]
    # (design probe p6) first constraint missing, second strongly violated, against a fully evaluated point
    out.append(_hc(two, [_pt([1.0], 1.0, {"c1": [1.0], "c2": [1.0]}), _pt([2.0], 4.0, {"c1": None, "c2": [5.0]}),
                         _pt([3.0], 9.0, {"c1": None, "c2": None})]))
    # same history, constraints listed in the other order (the missing one last)
    out.append(_hc([["c2", "ineq", 1], ["c1", "ineq", 1]],
                   [_pt([1.0], 1.0, {"c1": [1.0], "c2": [1.0]}), _pt([2.0], 4.0, {"c1": None, "c2": [5.0]}),
                    _pt([3.0], 9.0, {"c1": None, "c2": None})]))
    # NaN hidden behind a missing value
    out.append(_hc(two, [_pt([1.0], 1.0, {"c1": [0.5], "c2": [0.5]}), _pt([2.0], 0.0, {"c1": None, "c2": [nan]})]))
    one = [["c", "ineq", 1]]
    # (design probe p20) feasible points exist, none has a usable objective
    out.append(_hc(one, [_pt([1.0], None, {"c": [-1.0]}), _pt([2.0], nan, {"c": [-2.0]})]))
    out.append(_hc(one, [_pt([1.0], None, {"c": [-1.0]})]))
    out.append(_hc(one, [_pt([1.0], nan, {"c": [-1.0]}), _pt([2.0], 3.0, {"c": [2.0]})]))
    out.append(_hc([], [_pt([1.0], nan, {}), _pt([2.0], nan, {})]))  # unconstrained, all-NaN objective
    out.append(_hc(one, [_pt([1.0], nan, {"c": [-1.0]}), _pt([2.0], 3.0, {"c": [-2.0]})]))  # one usable: must win
    # (seeded regression C04_1) the first feasible point has a NaN objective, later feasible points finite ones
    for mini, std in ((True, True), (False, True), (False, False)):
        out.append(_hc([["g", "ineq", 1]], [_pt([0.0], -5.0, {"g": [1.0]}, f_as="array"),
                                            _pt([1.0], nan, {"g": [-1.0]}, f_as="array"),
                                            _pt([2.0], 1.0, {"g": [-2.0]}, f_as="array"),
                                            _pt([3.0], 4.0, {"g": [-3.0]}, f_as="array")], minimize=mini, standardized=std,
                       tol_ineq=0.0))
    out.append(_hc(one, [_pt([1.0], nan, {"c": [-1.0]}), _pt([2.0], -7.0, {"c": [-1.0]}), _pt([3.0], nan, {"c": [-1.0]})]))
    out.append(_hc([], [_pt([1.0], nan, {}), _pt([2.0], 2.0, {})]))  # unconstrained
    out.append(_hc(one, [_pt([1.0], None, {"c": [-1.0]}), _pt([2.0], nan, {"c": [-1.0]}), _pt([3.0], 5.0, {"c": [-1.0]})]))
    out.append(_hc(one, [_pt([1.0], [nan, 0.0], {"c": [-1.0]}), _pt([2.0], [3.0, 4.0], {"c": [-1.0]}),
                         _pt([3.0], [1.0, 1.0], {"c": [-1.0]})], obj_dim=2))  # NaN component in a vector objective
    # (seeded regression C04_4) -0.0 and +0.0 are two recorded points; the later twin is the best feasible point ...
    gg = [["g", "ineq", 2]]
    out.append(_hc(gg, [_pt([-0.0], 5.0, {"g": [1.0, -1.0]}), _pt([3.0], 4.0, {"g": [-1.0, -1.0]}),
                        _pt([0.0], 1.0, {"g": [-2.0, -2.0]})]))
    out.append(_hc(gg, [_pt([0.0], 5.0, {"g": [1.0, -1.0]}), _pt([3.0], 4.0, {"g": [-1.0, -1.0]}),
                        _pt([-0.0], 1.0, {"g": [-2.0, -2.0]})]))
    # ... the earlier twin is the best one; both feasible, later better; no feasible point (least infeasible = later twin)
    out.append(_hc(gg, [_pt([-0.0], 1.0, {"g": [-2.0, -2.0]}), _pt([3.0], 4.0, {"g": [-1.0, -1.0]}),
                        _pt([0.0], 5.0, {"g": [1.0, -1.0]})]))
    out.append(_hc(gg, [_pt([1.0, 0.0], 2.0, {"g": [-1.0, -1.0]}), _pt([1.0, -0.0], -2.0, {"g": [-1.0, -1.0]})],
                   n_x=2, minimize=False, standardized=False))
    out.append(_hc(gg, [_pt([0.0], 1.0, {"g": [3.0, -1.0]}), _pt([-0.0], 1.0, {"g": [1.0, -1.0]})]))
    # maximisation, standardised or not; ties
    for std in (True, False):
        out.append(_hc(one, [_pt([1.0], -1.0, {"c": [-1.0]}), _pt([2.0], -4.0, {"c": [-1.0]}),
                             _pt([3.0], -9.0, {"c": [1.0]})], minimize=False, standardized=std))
    out.append(_hc(one, [_pt([1.0], 1.0, {"c": [-1.0]}), _pt([2.0], 1.0, {"c": [-1.0]})]))
    # vector equality constraint, no feasible point, NaN component
    out.append(_hc([["h", "eq", 2]], [_pt([1.0], 1.0, {"h": [0.5, -0.2]}), _pt([2.0], 2.0, {"h": [-0.3, 0.3]}),
                                      _pt([3.0], 2.0, {"h": [nan, 0.0]})]))
    # tolerances per type: a value legal for one type only
    out.append(_hc([["g", "ineq", 1], ["h", "eq", 1]],
                   [_pt([1.0], 5.0, {"g": [0.3], "h": [-0.3]}), _pt([2.0], 1.0, {"g": [0.2], "h": [-0.6]}),
                    _pt([3.0], 3.0, {"g": [0.25], "h": [-0.5]})], tol_ineq=0.25, tol_eq=0.5))
    # single points
    out.append(_hc(one, [_pt([1.0], 2.0, {"c": None})]))
    out.append(_hc(one, [_pt([1.0], 2.0, {"c": [3.0]}, g={"c": [[1.5]]})]))
    # split stores: the best point is completed last but recorded first
    out.append(_hc(one, [_pt([1.0], 0.5, {"c": [-1.0]}, g={"c": [[2.0]]}), _pt([2.0], 1.5, {"c": [-1.0]})],
                   steps=[[0, "c"], [1, "c"], [1, "f"], [0, "f"]]))
    # vector objectives: dominated, duplicated and NaN points
    out.append(_hc(one, [_pt([1.0], [1.0, 2.0], {"c": [-1.0]}), _pt([2.0], [2.0, 1.0], {"c": [-1.0]}),
                         _pt([3.0], [2.0, 2.0], {"c": [-1.0]}), _pt([4.0], [0.0, 0.0], {"c": [1.0]}),
                         _pt([5.0], None, {"c": [-1.0]}), _pt([6.0], [1.0, 2.0], {"c": None})], obj_dim=2))
    out.append(_hc(one, [_pt([1.0], [1.0, 2.0], {"c": [-1.0]}), _pt([2.0], [1.0, 2.0], {"c": [-1.0]}),
                         _pt([3.0], [nan, 0.0], {"c": [-1.0]})], obj_dim=2))
    return out


# --------------------------------------------------------------------------- entry points
def pattern_indices(tier, shard, n_shards, rng):
    """Flat indices (pair, mode, pattern) handled by this shard."""
    if tier == "thorough":
        for pair_i in range(len(TYPE_PAIRS)):
            for mode_i in range(len(MODES)):
                for pat in range(shard, N_PATTERNS, n_shards):
                    yield pair_i, mode_i, pat
        return
    # quick: strata = (pair, mode, cells of point 0): 4*4*216 = 3456 strata of 216 patterns, 14 drawn in each
    strata = list(itertools.product(range(len(TYPE_PAIRS)), range(len(MODES)), range(N_CELL ** 3)))
    for k, (pair_i, mode_i, head) in enumerate(strata):
        if k % n_shards != shard:
            continue
        for tail in rng.choice(N_CELL ** 3, size=14, replace=False):
            yield pair_i, mode_i, head * N_CELL ** 3 + int(tail)


def run_shard(spec, rep):
    from gemseo.algos.database import Database

    assert Database.get_gradient_name("c") == GRAD + "c"
    rng = np.random.default_rng(spec["seed"])
    shard, tier = spec.get("shard", 0), spec.get("tier", "quick")
    if shard == 0:
        for case in directed_cases():
            run_history_case(case, rep)
            rep.count("directed_cases")
    # live driver runs first (few, slow to import), judged at every store event
    for k in range(spec["n_live"]):
        name, algo, opts = LIVE[(shard * spec["n_live"] + k) % len(LIVE)]
        case = {"kind": "live", "problem": name, "algo": algo, "options": opts,
                "variant": (shard * spec["n_live"] + k) // len(LIVE), "seed": int(rng.integers(1, 1000))}
        run_live_case(case, rep)
        if k == 0:
            rep.sample({"case": case, "note": "real driver run; problem.optimum / result judged at every database store"})
    n_pat = 0
    for pair_i, mode_i, pat in pattern_indices(tier, shard, spec.get("n_shards", N_SHARDS), rng):
        if rep.time_left() < 0:
            rep.count("stopped_on_time_budget")
            break
        case = pattern_case(pair_i, mode_i, pat)
        run_history_case(case, rep)
        rep.count("patterns_enumerated")
        if n_pat == 0:
            rep.sample({"case": case, "note": "2-point pattern case"})
        n_pat += 1
    for i in range(spec["n_random"]):
        if rep.time_left() < 0:
            rep.count("stopped_on_time_budget")
            break
        case = gen_history(rng, n_x=1 + shard % 3)
        run_history_case(case, rep)
        rep.count("random_histories")
        if i == 0:
            rep.sample({"case": case, "note": "random history"})


def replay(case, rep):
    if case.get("kind") == "live":
        case = {k: v for k, v in case.items() if k != "at_store_event"}
        run_live_case(case, rep)
    else:
        run_history_case(case, rep)
