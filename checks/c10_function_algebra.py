"""C10 — function algebra and transformations evaluate and differentiate exactly.

Monitors: (M1) harness-owned operand callables whose returned arrays are kept and compared after
every composed evaluation (operand immutability), snapshots of the coefficient arrays of linear /
quadratic operands and of array operands; (M4) the independent expression-tree evaluator
``vlib/ref/c10_algebra.py`` (textbook rules, explicit broadcasting, magnitude propagation for the
tolerance) and closed-form references of every helper; (M8) anchors.  A symbolic sub-workload feeds
``object`` arrays of sympy symbols to the operator makers and compares expressions exactly.
See DESIGN.md section 3, C10.
"""

from __future__ import annotations

import numbers

import numpy as np

from vlib.gen import c10_operands as go
from vlib.harness import subseed
from vlib.ref import c10_algebra as ref

PID = "C10"
LEVEL = "exploration"
RULE = (
    "seeded generator of expression trees of depth 1-4 over closed-form operands (polynomial / exp-sin harness "
    "functions in the four return formats float+1-D gradient, (1,)+(1,n), (1,)+1-D, (m,)+(m,n); MDOLinearFunction; "
    "MDOQuadraticFunction; Python numbers; arrays) with the operators + - * / neg offset, output dimension 1-3 or "
    "equal to the input dimension, scalar leaves mixed into vector trees; every node of a tree is judged bottom-up "
    "at 5 points (zeros, negative, random) and a node above a failing node is not judged; plus one generator per "
    "helper (FunctionRestriction, MDOLinearFunction.restrict, RestrictedFunction, LinearCompositeFunction, "
    "Concatenate, MDOLinearFunction.normalize, first/second-order Taylor polynomials, ConvexLinearApprox, the six "
    "aggregate_* functions with indices/rho/scale, the ConstraintAggregation discipline) applied to judged-clean "
    "trees; a tree is distinct by its structure (operators, operand kinds, formats and dimensions, not "
    "coefficients); a helper case by (helper, operand structure, option pattern); non-trivial when the reference "
    "Jacobian is not identically zero"
)
ASSUMPTIONS = [
    "harness operands are closed forms evaluated in IEEE double precision; the comparison tolerance is 1e-11 times "
    "the propagated magnitude (sum of absolute values of the terms) plus 1e-13",
    "denominators are kept >= 0.5 in absolute value at the evaluation points",
    "array operands have the size of the function's output (or scale a scalar-valued function); a scalar-valued "
    "function offset by a longer array is only observed",
    "convex linearisation means Fleury's CONLIN (direct variables for positive derivatives, reciprocal variables "
    "for negative ones); expansion and evaluation points have non-zero components of the same sign",
    "KS / IKS / max aggregate the scaled constraints s_i*g_i; the sum-of-squares variants are accepted with either "
    "s*g^2 or (s*g)^2 and the Jacobian is judged against the variant that the value matches",
    "the symbolic sub-workload uses integer coefficients so that equality of expressions is decided exactly by "
    "sympy.cancel; sparse Jacobians are only observed",
]
ANCHORS = [
    "gemseo.core.mdo_functions._operations:_OperationFunctionMaker._compute_operation",
    "gemseo.core.mdo_functions._operations:_AdditionFunctionMaker._compute_operation_jacobian",
    "gemseo.core.mdo_functions._operations:_MultiplicationFunctionMaker._compute_operation_jacobian",
    "gemseo.core.mdo_functions.mdo_function:MDOFunction.__neg__",
    "gemseo.core.mdo_functions.mdo_function:MDOFunction._min_jac",
    "gemseo.core.mdo_functions.mdo_function:MDOFunction.offset",
    "gemseo.core.mdo_functions.mdo_linear_function:MDOLinearFunction.__neg__",
    "gemseo.core.mdo_functions.mdo_linear_function:MDOLinearFunction.offset",
    "gemseo.core.mdo_functions.mdo_linear_function:MDOLinearFunction.restrict",
    "gemseo.core.mdo_functions.mdo_linear_function:MDOLinearFunction.normalize",
    "gemseo.core.mdo_functions.mdo_linear_function:MDOLinearFunction._jac_to_wrap",
    "gemseo.core.mdo_functions.mdo_quadratic_function:MDOQuadraticFunction._jac_to_wrap",
    "gemseo.core.mdo_functions.function_restriction:FunctionRestriction._jac_to_wrap",
    "gemseo.core.mdo_functions.restricted_function:RestrictedFunction._jac_to_wrap",
    "gemseo.core.mdo_functions.linear_composite_function:LinearCompositeFunction._restricted_jac",
    "gemseo.core.mdo_functions.concatenate:Concatenate._jac_to_wrap",
    "gemseo.core.mdo_functions.taylor_polynomials:compute_linear_approximation",
    "gemseo.core.mdo_functions.taylor_polynomials:compute_quadratic_approximation",
    "gemseo.core.mdo_functions.convex_linear_approx:ConvexLinearApprox._func_to_wrap",
    "gemseo.core.mdo_functions.convex_linear_approx:ConvexLinearApprox._jac_to_wrap",
    "gemseo.algos.aggregation.core:compute_lower_bound_ks_agg",
    "gemseo.algos.aggregation.core:compute_upper_bound_ks_agg",
    "gemseo.algos.aggregation.core:compute_total_ks_agg_jac",
    "gemseo.algos.aggregation.core:compute_partial_ks_agg_jac",
    "gemseo.algos.aggregation.core:compute_iks_agg",
    "gemseo.algos.aggregation.core:compute_total_iks_agg_jac",
    "gemseo.algos.aggregation.core:compute_partial_iks_agg_jac",
    "gemseo.algos.aggregation.core:compute_sum_square_agg",
    "gemseo.algos.aggregation.core:compute_total_sum_square_agg_jac",
    "gemseo.algos.aggregation.core:compute_partial_sum_square_agg_jac",
    "gemseo.algos.aggregation.core:compute_sum_positive_square_agg",
    "gemseo.algos.aggregation.core:compute_total_sum_square_positive_agg_jac",
    "gemseo.algos.aggregation.core:compute_partial_sum_positive_square_agg_jac",
    "gemseo.algos.aggregation.core:compute_max_agg",
    "gemseo.algos.aggregation.core:compute_max_agg_jac",
    "gemseo.disciplines.constraint_aggregation:ConstraintAggregation._run",
    "gemseo.disciplines.constraint_aggregation:ConstraintAggregation._compute_jacobian",
]
MIN_COUNTERS = {"quick": {}, "thorough": {}}  # filled at the end of the file (about half of what seed 0 observes)
SHARD_TIMEOUT = {"quick": 600, "thorough": 3000}

TOL = 1e-11
ATOL = 1e-13

HELPERS = ["restriction", "linear_restrict", "restricted_function", "linear_composition", "concatenation",
           "normalize", "taylor_linear", "taylor_quadratic", "convex_linear", "aggregation", "discipline"]


def shards(tier, seed):
    n = 16
    trees = {"quick": 900, "thorough": 9000}[tier]
    helpers = {"quick": 45, "thorough": 700}[tier]
    symbolic = {"quick": 20, "thorough": 200}[tier]
    return [{"seed": subseed(seed, PID, i), "n_trees": trees, "n_helper": helpers, "n_symbolic": symbolic,
             "budget_s": {"quick": 300, "thorough": 2600}[tier]} for i in range(n)]


# =========================================================================== harness (M1)
class Harness:
    """Everything handed to gemseo for one case, with the copies needed to detect in-place modification."""

    def __init__(self, symbolic=False):
        self.symbolic = symbolic
        self.log = []  # (array handed to gemseo, private copy)
        self.snaps = []  # (label, getter, private copy)

    def give(self, arr):
        if isinstance(arr, np.ndarray):
            self.log.append((arr, arr.copy()))
        return arr

    def snap(self, label, getter, setter=None):
        """Keep a private copy of ``getter()``; ``setter(copy)`` (optional) puts it back when the live object is not an array."""
        self.snaps.append((label, getter, np.array(getter(), copy=True), setter))

    @staticmethod
    def _same(a, b):
        if a.shape != b.shape:
            return False
        return bool(np.all(a == b))

    def modified(self):
        """Labels of operand arrays that no longer hold the values the harness produced."""
        bad = []
        for arr, cp in self.log:
            if not self._same(arr, cp):
                bad.append(("returned-array", arr, cp))
        for label, getter, cp, _ in self.snaps:
            cur = np.asarray(getter())
            if not self._same(cur, cp):
                bad.append((label, cur, cp))
        return bad

    def forget(self):
        self.log.clear()

    def restore(self):
        """Put the persistent operand arrays back so that later evaluations are judged on their own."""
        for _, getter, snap, setter in self.snaps:
            arr = np.asarray(getter())
            if arr.shape == snap.shape and not self._same(arr, snap):
                if setter is not None:
                    setter(snap)
                else:
                    arr[...] = snap


class LeafCallable:
    """A closed-form operand in one of the return formats; the arrays it returns stay owned by the harness."""

    def __init__(self, operand, fmt, harness):
        self.f, self.fmt, self.h = operand, fmt, harness

    def func(self, x):
        v = self.f.value(x)
        if self.fmt == "float":
            return v[0]
        return self.h.give(v)

    def jac(self, x):
        J = self.f.jac(x)
        if self.fmt in ("float", "arr1g"):
            return self.h.give(np.array(J[0]))
        return self.h.give(J)


def _dtype(h):
    return int if h.symbolic else float


def _dense(a):
    return a.toarray() if hasattr(a, "toarray") else np.asarray(a)


def snap_linear(h, fn):
    """Snapshot the coefficient arrays of a (dense or sparse) MDOLinearFunction."""

    def put_back(snap, fn=fn):
        cur = fn.coefficients
        if hasattr(cur, "toarray"):
            fn.coefficients = type(cur)(snap)
        else:
            cur[...] = snap

    h.snap("MDOLinearFunction.coefficients", lambda fn=fn: _dense(fn.coefficients), put_back)
    h.snap("MDOLinearFunction.value_at_zero", lambda fn=fn: fn.value_at_zero)


def jac_kind(fn, x):
    """Storage class of the Jacobian returned by a gemseo function ('' for a plain ndarray)."""
    try:
        J = fn.jac(np.array(x, dtype=float))
    except Exception:
        return ""
    if hasattr(J, "toarray") or isinstance(J, np.matrix):
        # a SciPy sparse container, or the numpy.matrix that SciPy returns when a sparse matrix meets a dense array
        return "sparse-jacobian"
    return ""


KEPT_CLAUSES = ("operand-modified-in-place", "input-modified-in-place", "second-normalization-differs")


def sparse_sig(site):
    """Signature builder for a site fed a sparse Jacobian: numpy-only code meeting a sparse container is one mechanism
    per site (whatever the clause, the exception type or the dimensions); state corruption keeps its own clause."""
    return lambda c: f"C10:{site}:{c}:sparse-jacobian" if c in KEPT_CLAUSES else f"C10:{site}:sparse-jacobian"


def make_leaf(node, h, name="f"):
    from gemseo.core.mdo_functions.mdo_function import MDOFunction
    from gemseo.core.mdo_functions.mdo_linear_function import MDOLinearFunction
    from gemseo.core.mdo_functions.mdo_quadratic_function import MDOQuadraticFunction

    f = ref.leaf_operand(node)
    if f.kind == "linear":
        A = np.array(f.A, dtype=_dtype(h))
        if node["fmt"].startswith("sparse:"):
            import scipy.sparse as sps

            A = getattr(sps, node["fmt"].split(":")[1])(A)
        fn = MDOLinearFunction(A, name, value_at_zero=np.array(f.b, dtype=_dtype(h)))
        snap_linear(h, fn)
        return fn
    if f.kind == "quadratic":
        fn = MDOQuadraticFunction(np.array(f.Q, dtype=_dtype(h)), name, linear_coeffs=np.array(f.l, dtype=_dtype(h)),
                                  value_at_zero=f.c)
        h.snap("MDOQuadraticFunction.quad_coeffs", lambda fn=fn: fn.quad_coeffs)
        h.snap("MDOQuadraticFunction.linear_coeffs", lambda fn=fn: fn.linear_coeffs)
        return fn
    lc = LeafCallable(f, node["fmt"], h)
    return MDOFunction(lc.func, name, jac=lc.jac)


# =========================================================================== comparisons
def _as_dense(a):
    if hasattr(a, "toarray"):
        return a.toarray()
    return a


def cmp_value(obs, exp):
    """None when the observed value is the expected one, else (kind, detail)."""
    m = exp.v.size
    if isinstance(obs, np.ndarray):
        if obs.ndim > 1 or obs.size != m:
            return "shape", f"value of shape {obs.shape}, expected ({m},)"
        o = obs.reshape(-1)
    elif isinstance(obs, (numbers.Number, np.generic)):
        if m != 1:
            return "shape", f"scalar value, expected ({m},)"
        o = np.array([obs])
    else:
        return "shape", f"value of type {type(obs).__name__}"
    if o.dtype == object:
        return "shape", "object array for a numeric input"
    if not np.all(np.isfinite(o)):
        return "values", "non-finite value"
    if np.any(np.abs(o - exp.v) > TOL * exp.mv + ATOL):
        return "values", "value differs from the mathematical combination"
    return None


def cmp_jac(obs, exp, n):
    m = exp.v.size
    obs = _as_dense(obs)
    if not isinstance(obs, np.ndarray):
        return "shape", f"Jacobian of type {type(obs).__name__}"
    if obs.ndim == 1:
        if m != 1 or obs.size != n:
            return "shape", f"Jacobian of shape {obs.shape}, expected ({m}, {n})"
        o = obs.reshape(1, n)
    elif obs.ndim == 2:
        if obs.shape != (m, n):
            return "shape", f"Jacobian of shape {obs.shape}, expected ({m}, {n})"
        o = obs
    else:
        return "shape", f"Jacobian of shape {obs.shape}"
    if o.dtype == object:
        return "shape", "object array for a numeric input"
    if not np.all(np.isfinite(o)):
        return "values", "non-finite Jacobian"
    if np.any(np.abs(o - exp.J) > TOL * exp.mJ + ATOL):
        return "values", "Jacobian is not the derivative of the value"
    return None


def judge(rep, fn, pts, ref_fn, *, counter, case, sig, harness=None, mimic=None):
    """Judge value and Jacobian of the gemseo function ``fn`` at the points against ``ref_fn(x) -> Val``.

    ``sig(clause)`` builds the generic mechanism signature; ``mimic(clause, x, obs, exc)`` may return a narrower
    signature when the observation is reproduced by a known faulty formula.  Returns True when everything passed.
    """
    for x in pts:
        x = np.asarray(x, dtype=float)
        exp = ref_fn(x)
        n = x.size
        for clause in ("value", "jacobian"):
            xin = x.copy()
            exc = obs = None
            try:
                obs = fn.evaluate(xin) if clause == "value" else fn.jac(xin)
            except Exception as e:  # valid operands and a valid point: the property promises a result
                exc = e
            rep.count(f"{counter}_{clause}_oracle_evaluations")
            bad = None
            if exc is not None:
                bad = ("exception", f"{type(exc).__name__}: {exc}")
            else:
                bad = cmp_value(obs, exp) if clause == "value" else cmp_jac(obs, exp, n)
            if bad is None and not np.array_equal(xin, x):
                bad = ("input-modified", "the input vector was modified in place")
            if bad is not None:
                s = None
                if mimic is not None:
                    try:
                        s = mimic(clause, x, obs, exc)
                    except Exception:
                        s = None
                s = s or sig(clause if bad[0] != "input-modified" else "input-modified-in-place")
                rep.violation(s, f"{clause}: {bad[1]}", dict(case, point=x.tolist()),
                              observed=_as_dense(obs) if exc is None else bad[1],
                              expected={"value": exp.v, "jacobian": exp.J}[clause], msg=bad[1])
                return False
        if harness is not None:
            if not check_untouched(rep, harness, case, sig, x):
                return False
    return True


def check_untouched(rep, harness, case, sig, x=None, mimic=None):
    rep.count("operand_immutability_checks")
    bad = harness.modified()
    harness.forget()
    if not bad:
        return True
    label, cur, cp = bad[0]
    cur = np.array(cur, copy=True)
    harness.restore()
    s = None
    if mimic is not None:
        try:
            s = mimic(label, cur, cp)
        except Exception:
            s = None
    rep.violation(s or sig("operand-modified-in-place"), f"operands' values unchanged ({label})",
                  dict(case, point=None if x is None else np.asarray(x).tolist()), observed=cur, expected=cp,
                  msg=f"{label} was modified in place by evaluating the composed function")
    return False


# =========================================================================== operator trees
MAKER = {"+": "_AdditionFunctionMaker", "-": "_AdditionFunctionMaker", "*": "_MultiplicationFunctionMaker",
         "/": "_MultiplicationFunctionMaker"}


def _dims_feature(node):
    ma = go.out_dim(node["a"])
    b = node.get("b")
    if b is None:
        return "scalar-function" if ma == 1 else "vector-function"
    mb = go.out_dim(b)
    if b["op"] in ("num", "arr"):
        f = "scalar-function" if ma == 1 else "vector-function"
        return f + ("+longer-array" if mb > ma else "")
    if ma == 1 and mb == 1:
        return "both-scalar"
    if ma > 1 and mb > 1:
        return "both-vector-valued"
    return "scalar-with-vector-valued"


def _second_kind(node):
    b = node.get("b")
    if b is None:
        return "none"
    return {"num": "number", "arr": "array"}.get(b["op"], "function")


class Built:
    __slots__ = ("obj", "clean", "is_func")

    def __init__(self, obj, clean, is_func=True):
        self.obj, self.clean, self.is_func = obj, clean, is_func


def node_where(node, a_obj):
    op = node["op"]
    if op in MAKER:
        return MAKER[op]
    cls = "MDOLinearFunction" if type(a_obj).__name__ == "MDOLinearFunction" else "MDOFunction"
    return f"{cls}.{'__neg__' if op == 'neg' else 'offset'}"


def product_mimic(node, fa, fb):
    """Signature of the known mechanism: operand values multiplied along the last axis of the Jacobians."""

    def mimic(clause, x, obs, exc):
        if clause != "jacobian" or node["op"] not in "*/" or _second_kind(node) != "function":
            return None
        ja, jb = fa.jac(x.copy()), fb.jac(x.copy())
        if not (type(ja) is np.ndarray and type(jb) is np.ndarray):
            return None  # sparse / numpy.matrix Jacobians: another mechanism, keep the generic signature
        va, vb = fa.func(x.copy()), fb.func(x.copy())
        try:
            if node["op"] == "*":
                wrong = ja * vb + jb * va
            else:
                wrong = (ja * vb - jb * va) / vb ** 2
        except ValueError:
            wrong = None
            if isinstance(exc, ValueError) and "broadcast" in str(exc):
                return f"C10:_MultiplicationFunctionMaker:jacobian:operand-values-broadcast-along-columns:{_dims_feature(node)}"
            return None
        if exc is None and isinstance(obs, np.ndarray) and obs.shape == np.shape(wrong) and np.allclose(obs, wrong, rtol=1e-12, atol=1e-12):
            return f"C10:_MultiplicationFunctionMaker:jacobian:operand-values-broadcast-along-columns:{_dims_feature(node)}"
        return None

    mimic.operands = (fa, fb)
    return mimic


def build(node, h, rep, pts, case, judge_nodes=True, path="r"):
    """Build the gemseo object of a tree bottom-up, judging every node whose children are clean."""
    op = node["op"]
    if op == "num":
        return Built(node["v"], True, False)
    if op == "arr":
        arr = np.array(node["v"], dtype=_dtype(h))
        h.snap("array operand", lambda arr=arr: arr)
        return Built(arr, True, False)
    if op == "leaf":
        fn = make_leaf(node, h, name="f" + path)
        clean = True
        if judge_nodes and node["f"]["kind"] in ("linear", "quadratic"):
            cls = type(fn).__name__
            clean = judge_node(rep, fn, node, pts, h, case, lambda clause: f"C10:{cls}:{clause}", None, "leaf")
        return Built(fn, clean)
    a = build(node["a"], h, rep, pts, case, judge_nodes, path + "a")
    b = build(node["b"], h, rep, pts, case, judge_nodes, path + "b") if "b" in node else None
    where = node_where(node, a.obj)
    feat = f"{_second_kind(node)}-operand:{_dims_feature(node)}"
    try:
        if op == "neg":
            fn = -a.obj
        elif op == "offset":
            v = node["v"]
            if isinstance(v, list):
                v = np.array(v, dtype=_dtype(h))
                h.snap("offset array", lambda v=v: v)
            fn = a.obj.offset(v)
        elif op == "+":
            fn = a.obj + b.obj
        elif op == "-":
            fn = a.obj - b.obj
        elif op == "*":
            fn = a.obj * b.obj
        else:
            fn = a.obj / b.obj
    except Exception as e:
        rep.violation(f"C10:{where}:construction-exception:{type(e).__name__}:{feat}", "the operation builds a function",
                      dict(case, node=path), observed=f"{type(e).__name__}: {e}", expected="a function")
        return Built(None, False)
    clean = a.clean and (b is None or b.clean)
    if a.obj is None or (b is not None and b.obj is None):
        return Built(None, False)
    if not h.symbolic:
        kinds = sorted({k for k in [jac_kind(a.obj, pts[0])] + ([jac_kind(b.obj, pts[0])] if b is not None and b.is_func else [])
                        if k})
        sparse_node = bool(kinds)
        if kinds:
            rep.count("operator_nodes_with_sparse_operand_jacobian")
        h.forget()
    if type(fn).__name__ == "MDOLinearFunction":
        # a linear function created by gemseo (negation, offset): its internal arrays are operand state of the
        # functions built above it
        snap_linear(h, fn)
    if not clean:
        rep.count("nodes_not_judged_above_a_failing_node")
        return Built(fn, False)
    if judge_nodes:
        mim = product_mimic(node, a.obj, b.obj) if (b is not None and b.is_func and op in "*/") else None
        sig = sparse_sig(where) if (not h.symbolic and sparse_node) else (lambda clause: f"C10:{where}:{clause}:{feat}")
        clean = judge_node(rep, fn, node, pts, h, case, sig, mim, op)
    return Built(fn, clean)


def judge_node(rep, fn, node, pts, h, case, sig, mimic, op):
    if h.symbolic:
        return judge_node_symbolic(rep, fn, node, pts, h, case, sig, op, mimic)
    rep.count("nodes_judged")
    rep.count(f"nodes_judged_{ {'+': 'add', '-': 'sub', '*': 'mul', '/': 'div'}.get(op, op) }")
    return judge(rep, fn, pts, lambda x: ref.evaluate(node, x), counter="operator", case=case, sig=sig,
                 harness=h, mimic=mimic)


def gen_tree_case(rng, depth=None, symbolic=False):
    n = int(rng.integers(2, 4)) if symbolic else int(rng.integers(1, 6))
    m = [1, 1, 2, 3, n, n][int(rng.integers(6))]
    if depth is None:
        depth = int(rng.choice([1, 2, 2, 3, 3, 4]))
    tree = go.random_tree(rng, n, m, depth, integer=symbolic)
    pts = go.random_points(rng, n)
    ref.sanitize_denominators(tree, pts)
    return {"kind": "tree", "n": n, "tree": tree, "points": [p.tolist() for p in pts], "symbolic": symbolic}


def run_tree_case(case, rep):
    tree, pts = case["tree"], [np.array(p) for p in case["points"]]
    h = Harness()
    root = ref.evaluate(tree, pts[-1])
    rep.case(("tree", go.tree_shape(tree)), bool(np.any(root.mJ != 0)))
    rep.count("trees")
    rep.count(f"trees_depth_{go.tree_depth(tree)}")
    if go.out_dim(tree) == case["n"] and case["n"] > 1:
        rep.count("trees_with_output_dim_equal_input_dim")
    b = build(tree, h, rep, pts, case)
    if b.clean:
        rep.count("trees_fully_clean")
    return b


# =========================================================================== helpers: common
def _rt(rng, n, m, depth=None, kinds=None):
    """A random operand tree for a helper (depth 0-2)."""
    if depth is None:
        depth = int(rng.choice([0, 0, 1, 1, 2]))
    if depth == 0:
        return go.random_leaf(rng, n, m, kinds=kinds)
    return go.random_tree(rng, n, m, depth)


def _pts(rng, n, k=3, lo=-1.5, hi=1.5):
    return [np.round(rng.uniform(lo, hi, n), 3) for _ in range(k)]


def operand_for(tree, pts_op, rep, case, h=None, path="r"):
    """Build the gemseo function of an operand tree, judged at the operand-space points; None if not clean."""
    h = h or Harness()
    b = build(tree, h, rep, pts_op, case, path=path)
    if not b.clean or b.obj is None:
        rep.count("helper_cases_skipped_operand_not_clean")
        return None, h
    # make sure the output dimension is known to gemseo (it is inferred at the first evaluation)
    b.obj.evaluate(np.array(pts_op[0], dtype=float))
    h.forget()
    return b.obj, h


class OperandState:
    """Observable state of the operands of a helper: coefficient arrays and value/Jacobian at two probe points.

    Taken before the helper is built, compared after it is built and again after its result has been evaluated
    (an in-place edit can happen lazily, at the first evaluation of the result).
    """

    def __init__(self, fns, probes):
        self.fns = list(fns)
        self.probes = [np.array(p, dtype=float) for p in probes[:2]]
        self.ref = self._observe()

    def _observe(self):
        out = []
        for fn in self.fns:
            st = {}
            for attr in ("coefficients", "value_at_zero", "quad_coeffs", "linear_coeffs"):
                if hasattr(fn, attr):
                    st[attr] = np.array(_dense(getattr(fn, attr)), copy=True)
            for k, p in enumerate(self.probes):
                st[f"evaluate(probe{k})"] = np.array(fn.evaluate(p.copy()), copy=True)
                st[f"jac(probe{k})"] = np.array(_dense(fn.jac(p.copy())), copy=True)
            out.append(st)
        return out

    def compare(self, rep, case, sig, stage, harness=None):
        rep.count(f"operand_snapshots_compared_{stage}")
        try:
            now = self._observe()
        except Exception as e:
            rep.violation(sig("operand-modified-in-place"), f"operands still evaluate {stage.replace('_', ' ')}", case,
                          observed=f"{type(e).__name__}: {e}", expected="the operand evaluates as before")
            return False
        if harness is not None:
            harness.forget()
        for i, (a, b) in enumerate(zip(self.ref, now)):
            for key in a:
                x, y = a[key], b[key]
                if x.shape != y.shape or not np.allclose(x, y, rtol=1e-12, atol=1e-14):
                    rep.violation(sig("operand-modified-in-place"), f"operands' values unchanged ({key} of operand {i}, {stage.replace('_', ' ')})",
                                  case, observed=y, expected=x,
                                  msg=f"{key} of the operand differs {stage.replace('_', ' ')}")
                    return False
        return True


def helper_sig(cls, fn, probe):
    """Signature builder of a helper; the storage class of the operand's Jacobian is part of the mechanism."""
    return sparse_sig(cls) if jac_kind(fn, probe) else (lambda c: f"C10:{cls}:{c}")


def _sub(val, cols):
    return ref.Val(val.v, val.J[:, cols], val.mv, val.mJ[:, cols])


def _helper_case(rep, case, extra=()):
    rep.case((case["helper"], go.tree_shape(case["tree"]) if "tree" in case else None) + tuple(extra), True)
    rep.count(f"helper_cases_{case['helper']}")


# =========================================================================== restriction
def gen_restriction(rng, which):
    n = int(rng.integers(2, 6))
    m = [1, 1, 2, 3, n][int(rng.integers(5))]
    k = int(rng.integers(1, n))
    idx = sorted(int(i) for i in rng.choice(n, size=k, replace=False))
    if which == "restriction" and rng.random() < 0.3:
        idx = idx[::-1]
    vals = np.round(rng.uniform(-1.5, 1.5, k), 3).tolist()
    tree = go.random_leaf(rng, n, m, kinds=["linear"]) if which == "linear_restrict" else _rt(rng, n, m)
    case = {"kind": "helper", "helper": which, "n": n, "tree": tree, "frozen_idx": idx, "frozen_val": vals,
            "points": [p.tolist() for p in _pts(rng, n - k)]}
    full = [ref.full_point(np.array(p), idx, vals, n)[0] for p in case["points"]]
    ref.sanitize_denominators(tree, full)
    return case


def run_restriction(case, rep):
    from gemseo.core.mdo_functions.function_restriction import FunctionRestriction
    from gemseo.core.mdo_functions.restricted_function import RestrictedFunction

    which, n, tree = case["helper"], case["n"], case["tree"]
    idx, vals = case["frozen_idx"], case["frozen_val"]
    pts = [np.array(p) for p in case["points"]]
    full = [ref.full_point(p, idx, vals, n)[0] for p in pts]
    _helper_case(rep, case, (len(idx), idx == sorted(idx)))
    fn, h = operand_for(tree, full, rep, case)
    if fn is None:
        return
    ia, va = np.array(idx), np.array(vals)
    h.snap("frozen indices", lambda: ia)
    h.snap("frozen values", lambda: va)
    cls = {"restriction": "FunctionRestriction", "linear_restrict": "MDOLinearFunction.restrict",
           "restricted_function": "RestrictedFunction"}[which]
    sig = helper_sig(cls, fn, full[0])
    state = OperandState([fn], full)
    try:
        if which == "restriction":
            r = FunctionRestriction(ia, va, n, fn, name="r")
        elif which == "linear_restrict":
            r = fn.restrict(ia, va)
        else:
            r = RestrictedFunction(fn, ia, va)
    except Exception as e:
        rep.violation(sig(f"construction-exception:{type(e).__name__}"), "the helper builds a function", case,
                      observed=f"{type(e).__name__}: {e}")
        return
    if not state.compare(rep, case, sig, "after_helper", h):
        return

    def ref_fn(x):
        xf, active = ref.full_point(x, idx, vals, n)
        return _sub(ref.evaluate(tree, xf), active)

    mimic = None
    if which == "restricted_function":
        def mimic(clause, x, obs, exc):
            known_multi = "C10:RestrictedFunction:value:numpy-insert-positions:several-restricted-indices"
            try:
                xm = np.insert(x, ia, va)  # what numpy.insert builds: positions relative to the *restricted* vector
            except IndexError:
                return known_multi if clause == "value" and type(exc) is IndexError and len(idx) > 1 else None
            xf, _ = ref.full_point(x, idx, vals, n)
            multi = not np.array_equal(xm, xf)
            if clause == "value":
                if multi and exc is None and cmp_value(obs, ref.evaluate(tree, xm)) is None:
                    return "C10:RestrictedFunction:value:numpy-insert-positions:several-restricted-indices"
                return None
            raw = fn.jac(xm.copy())
            if type(raw) is not np.ndarray:
                return None  # sparse / numpy.matrix Jacobian: another mechanism
            try:
                wrong = np.delete(raw, ia, axis=0)
            except Exception as e2:
                wrong = None
                same_exc = exc is not None and type(exc) is type(e2)
            if (wrong is not None and exc is None and np.shape(obs) == wrong.shape and np.allclose(obs, wrong)) or (
                    wrong is None and same_exc):
                if multi:
                    return "C10:RestrictedFunction:value:numpy-insert-positions:several-restricted-indices"
                if np.ndim(raw) == 2:
                    return "C10:RestrictedFunction:jacobian:rows-deleted-instead-of-columns:2-D-jacobian"
            return None

    if judge(rep, r, pts, ref_fn, counter=which, case=case, sig=sig, harness=h, mimic=mimic):
        state.compare(rep, case, sig, "after_evaluating_result", h)


# =========================================================================== linear composition
def gen_linear_composition(rng):
    n = int(rng.integers(1, 5))
    p = int(rng.integers(1, 5))
    m = [1, 1, 2, 3, n][int(rng.integers(5))]
    M = np.round(rng.uniform(-1.5, 1.5, (n, p)), 2)
    tree = _rt(rng, n, m)
    case = {"kind": "helper", "helper": "linear_composition", "n": n, "tree": tree, "matrix": M.tolist(),
            "points": [q.tolist() for q in _pts(rng, p, lo=-1.0, hi=1.0)]}
    ref.sanitize_denominators(tree, [M @ np.array(q) for q in case["points"]])
    return case


def run_linear_composition(case, rep):
    from gemseo.core.mdo_functions.linear_composite_function import LinearCompositeFunction

    tree, M = case["tree"], np.array(case["matrix"])
    pts = [np.array(p) for p in case["points"]]
    _helper_case(rep, case, (M.shape,))
    fn, h = operand_for(tree, [M @ p for p in pts], rep, case)
    if fn is None:
        return
    h.snap("matrix", lambda: M)
    sig = helper_sig("LinearCompositeFunction", fn, M @ pts[0])
    state = OperandState([fn], [M @ p for p in pts])
    try:
        r = LinearCompositeFunction(fn, M)
    except Exception as e:
        rep.violation(sig(f"construction-exception:{type(e).__name__}"), "builds", case,
                      observed=f"{type(e).__name__}: {e}")
        return
    if not state.compare(rep, case, sig, "after_helper", h):
        return

    def ref_fn(x):
        v = ref.evaluate(tree, M @ x)
        return ref.Val(v.v, v.J @ M, v.mv, v.mJ @ np.abs(M))

    def mimic(clause, x, obs, exc):
        if clause != "jacobian":
            return None
        raw = fn.jac(M @ x)
        if np.ndim(raw) != 2:
            return None
        s = "C10:LinearCompositeFunction:jacobian:transposed-matrix-times-jacobian:2-D-jacobian"
        try:
            wrong = M.T.dot(raw)
        except ValueError:
            return s if isinstance(exc, ValueError) else None
        if exc is None and np.shape(obs) == wrong.shape and np.allclose(obs, wrong):
            return s
        return None

    if judge(rep, r, pts, ref_fn, counter="linear_composition", case=case, sig=sig, harness=h, mimic=mimic):
        state.compare(rep, case, sig, "after_evaluating_result", h)


# =========================================================================== concatenation
def gen_concatenation(rng):
    n = int(rng.integers(1, 5))
    k = int(rng.integers(2, 4))
    trees = [_rt(rng, n, [1, 1, 2, 3][int(rng.integers(4))]) for _ in range(k)]
    pts = _pts(rng, n)
    for t in trees:
        ref.sanitize_denominators(t, pts)
    return {"kind": "helper", "helper": "concatenation", "n": n, "trees": trees, "points": [p.tolist() for p in pts]}


def run_concatenation(case, rep):
    from gemseo.core.mdo_functions.concatenate import Concatenate

    pts = [np.array(p) for p in case["points"]]
    rep.case(("concatenation", tuple(go.tree_shape(t) for t in case["trees"])), True)
    rep.count("helper_cases_concatenation")
    h = Harness()
    fns = []
    for i, t in enumerate(case["trees"]):
        fn, _ = operand_for(t, pts, rep, case, h=h, path=f"t{i}")
        if fn is None:
            return
        fns.append(fn)
    sig = sparse_sig("Concatenate") if any(jac_kind(f, pts[0]) for f in fns) else (lambda c: f"C10:Concatenate:{c}")
    state = OperandState(fns, pts)
    try:
        r = Concatenate(fns, "c")
    except Exception as e:
        rep.violation(sig(f"construction-exception:{type(e).__name__}"), "builds", case,
                      observed=f"{type(e).__name__}: {e}")
        return
    if not state.compare(rep, case, sig, "after_helper", h):
        return

    def ref_fn(x):
        vs = [ref.evaluate(t, x) for t in case["trees"]]
        return ref.Val(np.concatenate([v.v for v in vs]), np.vstack([v.J for v in vs]),
                       np.concatenate([v.mv for v in vs]), np.vstack([v.mJ for v in vs]))

    if judge(rep, r, pts, ref_fn, counter="concatenation", case=case, sig=sig, harness=h):
        state.compare(rep, case, sig, "after_evaluating_result", h)


# =========================================================================== normalisation of a linear function
def gen_normalize(rng):
    nvar = int(rng.integers(1, 4))
    variables, n = [], 0
    for i in range(nvar):
        size = int(rng.integers(1, 4))
        lb, ub = [], []
        for _ in range(size):
            lo = float(np.round(rng.uniform(-3, 1), 2))
            up = lo + float(np.round(rng.uniform(0.5, 4), 2))
            r = rng.random()
            lb.append(lo if r < 0.8 else None)
            ub.append(up if (r < 0.7 or 0.8 <= r < 0.9) else None)
        variables.append({"name": f"v{i}", "size": size, "lb": lb, "ub": ub})
        n += size
    m = int(rng.integers(1, 4))
    tree = go.random_leaf(rng, n, m, kinds=["linear"], p_sparse=0.5)
    pts = []
    for _ in range(3):
        u = []
        for v in variables:
            for lo, up in zip(v["lb"], v["ub"]):
                u.append(float(np.round(rng.uniform(0, 1), 3)) if lo is not None and up is not None
                         else float(np.round(rng.uniform(-2, 2), 3)))
        pts.append(u)
    bounded = [lo is not None and up is not None for v in variables for lo, up in zip(v["lb"], v["ub"])]
    pts[0] = [(0.0 if rng.random() < 0.5 else 1.0) if b else u for b, u in zip(bounded, pts[0])]
    return {"kind": "helper", "helper": "normalize", "n": n, "tree": tree, "variables": variables, "points": pts}


def run_normalize(case, rep):
    from gemseo.algos.design_space import DesignSpace

    tree = case["tree"]
    pts = [np.array(p) for p in case["points"]]
    lb = np.array([-np.inf if v is None else v for var in case["variables"] for v in var["lb"]])
    ub = np.array([np.inf if v is None else v for var in case["variables"] for v in var["ub"]])
    pattern = tuple((v is None, w is None) for var in case["variables"] for v, w in zip(var["lb"], var["ub"]))
    _helper_case(rep, case, (pattern,))
    h = Harness()
    phys = [ref.unnormalize(u, lb, ub)[0] for u in pts]
    fn, h = operand_for(tree, phys, rep, case, h=h)
    if fn is None:
        return
    ds = DesignSpace()
    o = 0
    for var in case["variables"]:
        s = var["size"]
        ds.add_variable(var["name"], s, lower_bound=lb[o:o + s].copy(), upper_bound=ub[o:o + s].copy())
        o += s
    if jac_kind(fn, phys[0]):
        rep.count("normalize_cases_sparse_coefficients")
    sig = helper_sig("MDOLinearFunction.normalize", fn, phys[0])
    state = OperandState([fn], phys)
    try:
        r = fn.normalize(ds)
    except Exception as e:
        rep.violation(sig(f"construction-exception:{type(e).__name__}"), "builds", case,
                      observed=f"{type(e).__name__}: {e}")
        return
    if not state.compare(rep, case, sig, "after_helper", h):
        return
    if not r.expects_normalized_inputs:
        rep.observe("normalize: result does not declare normalized inputs", None)

    def ref_fn(u):
        x, fac = ref.unnormalize(u, lb, ub)
        v = ref.evaluate(tree, x)
        return ref.Val(v.v, v.J * fac[None, :], v.mv, v.mJ * np.abs(fac)[None, :])

    ok = judge(rep, r, pts, ref_fn, counter="normalize", case=case, sig=sig, harness=h)
    if ok:
        ok = state.compare(rep, case, sig, "after_evaluating_result", h)
    if ok:
        # normalising the same operand a second time must give the same function (the operand is not consumed)
        rep.count("normalize_idempotence_checked")
        try:
            r2 = fn.normalize(ds)
            same = (np.allclose(_dense(r2.coefficients), _dense(r.coefficients), rtol=1e-13, atol=0)
                    and np.allclose(r2.value_at_zero, r.value_at_zero, rtol=1e-13, atol=1e-15)
                    and all(np.allclose(r2.evaluate(u.copy()), r.evaluate(u.copy()), rtol=1e-13, atol=1e-15) for u in pts))
            detail = {"coefficients": _dense(r2.coefficients), "value_at_zero": r2.value_at_zero}
        except Exception as e:
            same, detail = False, f"{type(e).__name__}: {e}"
        if not same:
            rep.violation(sig("second-normalization-differs"), "normalising twice gives the same function", case, observed=detail,
                          expected={"coefficients": _dense(r.coefficients), "value_at_zero": r.value_at_zero})
            ok = False
        elif not state.compare(rep, case, sig, "after_second_normalization", h):
            ok = False
    if ok:
        for u, x in zip(pts, phys):
            xs = ds.unnormalize_vect(u.copy(), no_check=True)
            rep.count("normalize_map_equals_design_space_unnormalize")
            if not np.allclose(xs, x, rtol=1e-13, atol=1e-13):
                rep.observe("normalize: reference affine map differs from DesignSpace.unnormalize_vect",
                            {"u": u, "ref": x, "space": xs})


# =========================================================================== Taylor polynomials
def gen_taylor(rng, order):
    n = int(rng.integers(1, 5))
    m = 1 if order == 2 else [1, 1, 2, 3, n][int(rng.integers(5))]
    tree = _rt(rng, n, m)
    x0 = np.round(rng.uniform(-1.5, 1.5, n), 3)
    pts = [x0] + _pts(rng, n, 2)
    ref.sanitize_denominators(tree, pts)
    case = {"kind": "helper", "helper": "taylor_linear" if order == 1 else "taylor_quadratic", "n": n, "tree": tree,
            "x0": x0.tolist(), "points": [p.tolist() for p in pts]}
    if order == 2:
        H = np.round(rng.uniform(-1.5, 1.5, (n, n)), 2)
        case["hessian"] = ((H + H.T) / 2).tolist()
    return case


def run_taylor(case, rep):
    from gemseo.core.mdo_functions.taylor_polynomials import compute_linear_approximation
    from gemseo.core.mdo_functions.taylor_polynomials import compute_quadratic_approximation

    tree, x0 = case["tree"], np.array(case["x0"])
    pts = [np.array(p) for p in case["points"]]
    order = 1 if case["helper"] == "taylor_linear" else 2
    _helper_case(rep, case)
    fn, h = operand_for(tree, pts, rep, case)
    if fn is None:
        return
    name = "compute_linear_approximation" if order == 1 else "compute_quadratic_approximation"
    if order == 2 and (np.ndim(fn.jac(x0.copy())) != 1 or isinstance(fn.evaluate(x0.copy()), np.ndarray)):
        # the function "must be scalar-valued": only the float value + 1-D gradient convention is judged
        rep.observe("compute_quadratic_approximation: scalar-valued operand returning a (1,) array or a 2-D (1,n) "
                    "Jacobian is not judged (raises in the expression builder / in the matrix products)", None)
        rep.count("taylor_quadratic_skipped_2d_gradient")
        return
    h.forget()
    H = np.array(case["hessian"]) if order == 2 else None
    sig = helper_sig(name, fn, x0)
    state = OperandState([fn], pts)
    h.forget()
    try:
        r = compute_linear_approximation(fn, x0.copy()) if order == 1 else compute_quadratic_approximation(fn, x0.copy(), H)
    except Exception as e:
        rep.violation(sig(f"construction-exception:{type(e).__name__}"), "builds", case,
                      observed=f"{type(e).__name__}: {e}")
        return
    if not check_untouched(rep, h, case, sig):
        return
    if not state.compare(rep, case, sig, "after_helper", h):
        return
    v0 = ref.evaluate(tree, x0)

    def ref_fn(x):
        d = x - x0
        ad = np.abs(x) + np.abs(x0)
        v = v0.v + v0.J @ d
        J = v0.J.copy()
        mv = v0.mv + v0.mJ @ ad
        mJ = v0.mJ.copy()
        if order == 2:
            v = v + 0.5 * d @ H @ d
            J = J + (H @ d)[None, :]
            mv = mv + 0.5 * ad @ np.abs(H) @ ad
            mJ = mJ + (np.abs(H) @ ad)[None, :]
        return ref.Val(v, J, mv, mJ)

    ok = judge(rep, r, pts, ref_fn, counter=case["helper"], case=case, sig=sig, harness=h)
    if ok:
        state.compare(rep, case, sig, "after_evaluating_result", h)
        rep.count("taylor_value_and_gradient_coincide_at_expansion_point")  # pts[0] is x0: ref_fn(x0) == (f(x0), J(x0))


# =========================================================================== convex linearisation
def gen_convex_linear(rng):
    n = int(rng.integers(1, 5))
    m = [1, 1, 2, 3, n][int(rng.integers(5))]
    tree = _rt(rng, n, m)
    x0 = np.round(rng.uniform(0.3, 1.5, n), 3) * rng.choice([-1.0, 1.0], size=n)
    mask = None if rng.random() < 0.5 else [bool(b) for b in (rng.random(n) < 0.6)]
    if mask is not None and not any(mask):
        mask[int(rng.integers(n))] = True
    pts = [x0.copy()]
    for _ in range(3):
        f = np.round(rng.uniform(0.4, 2.0, n), 3)
        f = np.where(np.abs(f - 1.0) < 0.02, 1.3, f)
        x = x0 * f
        if mask is not None:
            x = np.where(mask, x, np.round(rng.uniform(-1.5, 1.5, n), 3))
        pts.append(x)
    mk = np.ones(n, bool) if mask is None else np.array(mask)
    ref.sanitize_denominators(tree, [np.where(mk, x0, p) for p in pts] + [x0])
    return {"kind": "helper", "helper": "convex_linear", "n": n, "tree": tree, "x0": x0.tolist(), "mask": mask,
            "points": [p.tolist() for p in pts]}


KNOWN_CONLIN = "C10:ConvexLinearApprox:reciprocal-of-the-step-instead-of-step-on-the-reciprocal-variable"


def run_convex_linear(case, rep):
    from gemseo.core.mdo_functions.convex_linear_approx import ConvexLinearApprox

    tree, x0, n = case["tree"], np.array(case["x0"]), case["n"]
    mk = np.ones(n, bool) if case["mask"] is None else np.array(case["mask"], dtype=bool)
    pts = [np.array(p) for p in case["points"]]
    thr = 1e-9
    _helper_case(rep, case, (case["mask"] is None,))
    merged = [np.where(mk, x0, p) for p in pts]
    fn, h = operand_for(tree, merged + [x0], rep, case)
    if fn is None:
        return
    v0 = ref.evaluate(tree, x0)
    if fn.dim != v0.v.size:
        # operator results keep the ``dim`` of their first operand even when broadcasting enlarges the value; the
        # attribute is outside the statement, but ConvexLinearApprox trusts it: not judged, only observed
        rep.observe("operator result keeps the dim attribute of its first operand although its value has more components",
                    {"dim": fn.dim, "size": int(v0.v.size)})
        rep.count("convex_linear_skipped_operand_dim_attribute_wrong")
        return
    if np.any((np.abs(v0.J[:, mk]) > 0) & (np.abs(v0.J[:, mk]) < 1e-6)):
        rep.count("convex_linear_skipped_derivative_near_sign_threshold")
        return
    sig = helper_sig("ConvexLinearApprox", fn, x0)
    state = OperandState([fn], [x0, merged[-1]])
    h.forget()
    try:
        r = ConvexLinearApprox(x0.copy(), fn, None if case["mask"] is None else mk.copy())
    except Exception as e:
        rep.violation(sig(f"construction-exception:{type(e).__name__}"), "builds", case,
                      observed=f"{type(e).__name__}: {e}")
        return
    if not state.compare(rep, case, sig, "after_helper", h):
        return
    h.forget()
    has_negative = bool(np.any(v0.J[:, mk] < -thr))
    reported = False
    for x, xm in zip(pts, merged):
        fm = ref.evaluate(tree, xm)
        exp = {}
        for variant in ("textbook", "step"):
            val, der, idx = ref.conlin(fm.v, v0.J, x0, x, mk, thr, variant)
            J = fm.J.copy()
            J[:, idx] = der
            ax, ax0 = np.abs(x), np.abs(x0)
            extra = np.abs(v0.J[:, mk]) @ (ax[mk] + ax0[mk]) + (np.abs(v0.J[:, mk]) * ax0[mk] ** 2) @ (
                1 / ax0[mk] + 1 / ax[mk] + (0 if variant == "textbook" else 1) / np.maximum(np.abs(x - x0)[mk], thr))
            mJ = fm.mJ.copy()
            mJ[:, idx] = np.abs(der) + np.abs(v0.mJ[:, mk])
            exp[variant] = ref.Val(val, J, fm.mv + extra, mJ)
        at_x0 = bool(np.array_equal(x, x0))
        matched = "textbook"
        for clause in ("value", "jacobian"):
            try:
                obs = r.evaluate(x.copy()) if clause == "value" else r.jac(x.copy())
            except Exception as e:
                rep.violation(sig(f"{clause}:exception:{type(e).__name__}"), clause, dict(case, point=x.tolist()),
                              observed=f"{type(e).__name__}: {e}")
                return
            rep.count(f"convex_linear_{clause}_oracle_evaluations")
            cmpf = (lambda o, e_: cmp_value(o, e_)) if clause == "value" else (lambda o, e_: cmp_jac(o, e_, n))
            bad = cmpf(obs, exp[matched])
            if bad is None and matched == "step" and clause == "jacobian":
                rep.count("convex_linear_jacobian_consistent_with_evaluated_value")
            if clause == "value" and at_x0 and bad is None:
                rep.count("convex_linear_value_coincides_at_expansion_point")
            if clause == "jacobian" and at_x0 and bad is None:
                rep.count("convex_linear_gradient_coincides_at_expansion_point")
            if bad is None:
                continue
            if matched == "textbook" and cmpf(obs, exp["step"]) is None:
                # the evaluated formula is reciprocal in (x - x0): known mechanism; keep judging the Jacobian against
                # the derivative of what is evaluated
                if not reported:
                    rep.violation(KNOWN_CONLIN, f"{clause}: convex linearisation" + (" at the expansion point" if at_x0 else ""),
                                  dict(case, point=x.tolist()), observed=obs,
                                  expected=exp["textbook"].v if clause == "value" else exp["textbook"].J,
                                  msg="the reciprocal term is -g*x0^2/(x-x0) instead of g*x0^2*(1/x0-1/x): the gradient at the "
                                      "expansion point misses the negative derivatives and the value is singular there")
                    reported = True
                matched = "step"
                continue
            s = sig(clause + (":not-derivative-of-evaluated-value" if matched == "step" else ""))
            rep.violation(s, f"{clause}: {bad[1]}", dict(case, point=x.tolist()), observed=obs,
                          expected=exp[matched].v if clause == "value" else exp[matched].J, msg=bad[1])
            return
        if not check_untouched(rep, h, case, lambda c: f"C10:ConvexLinearApprox:{c}", x):
            return
    state.compare(rep, case, sig, "after_evaluating_result", h)
    if has_negative:
        rep.count("convex_linear_cases_with_negative_derivatives")


# =========================================================================== aggregations (function form)
AGG = {"upper_bound_KS": "aggregate_upper_bound_ks", "lower_bound_KS": "aggregate_lower_bound_ks", "IKS": "aggregate_iks",
       "MAX": "aggregate_max", "POS_SUM": "aggregate_positive_sum_square", "SUM": "aggregate_sum_square"}
KNOWN_INPLACE = "C10:aggregation:operand-arrays-scaled-in-place"
KNOWN_VECSCALE = "C10:aggregation:total-jacobian:vector-scale-broadcast-along-columns"


def _gen_options(rng, m, method):
    opts = {}
    if rng.random() < 0.45:
        k = int(rng.integers(1, m + 1))
        opts["indices"] = sorted(int(i) for i in rng.choice(m, size=k, replace=False))
    na = len(opts.get("indices", range(m)))
    if method in ("upper_bound_KS", "lower_bound_KS", "IKS") and rng.random() < 0.7:
        opts["rho"] = float(rng.choice([1.0, 5.0, 10.0, 50.0, 100.0, 100.0, 300.0]))
    r = rng.random()
    if r < 0.3:
        opts["scale"] = float(rng.choice([0.5, 2.0, 3.0]))
    elif r < 0.55:
        opts["scale"] = [float(v) for v in rng.choice([0.5, 1.0, 2.0, 3.0], size=na)]
    return opts


def gen_aggregation(rng):
    method = list(AGG)[int(rng.integers(len(AGG)))]
    n = int(rng.integers(1, 5))
    m = [2, 3, 4, n][int(rng.integers(4))]
    m = max(m, 2)
    r = rng.random()
    if r < 0.45:
        tree = go.random_leaf(rng, n, m, kinds=["poly", "expsin"])
    elif r < 0.65:
        tree = go.random_leaf(rng, n, m, kinds=["linear"])
    else:
        tree = go.random_tree(rng, n, m, int(rng.integers(1, 3)), p_scalar_leaf=0.0)
    pts = _pts(rng, n, 3)
    ref.sanitize_denominators(tree, pts)
    return {"kind": "helper", "helper": "aggregation", "method": method, "n": n, "tree": tree,
            "options": _gen_options(rng, m, method), "points": [p.tolist() for p in pts]}


def _scaled_mimic(scale):
    """Known mechanism: the array equals its original multiplied (k times) by the scale, broadcast numpy-wise."""

    def mimic(label, cur, cp):
        s = np.asarray(scale, dtype=float)
        cands = [s]
        if s.ndim == 1 and cp.ndim == 2 and cp.shape[0] == s.size:
            cands.append(s[:, None])
        for sb in cands:
            for k in range(1, 7):
                try:
                    if np.allclose(cur, cp * sb ** k, rtol=1e-12, atol=0):
                        return KNOWN_INPLACE
                except ValueError:
                    break
        return None

    return mimic


def run_aggregation(case, rep):
    from gemseo.algos.aggregation import aggregation_func as af

    method, tree, n = case["method"], case["tree"], case["n"]
    opts = dict(case["options"])
    pts = [np.array(p) for p in case["points"]]
    m = go.out_dim(tree)
    idx = opts.get("indices")
    scale = opts.get("scale", 1.0)
    rho = opts.get("rho", 100.0)
    _helper_case(rep, case, (method, idx is None, np.ndim(scale), "rho" in opts))
    rep.count(f"aggregation_cases_{method}")
    fn, h = operand_for(tree, pts, rep, case)
    if fn is None:
        return
    fn.f_type = "eq" if method == "SUM" else "ineq"
    kw = {}
    if idx is not None:
        kw["indices"] = list(idx)
    if "rho" in opts:
        kw["rho"] = rho
    if "scale" in opts:
        kw["scale"] = np.array(scale) if isinstance(scale, list) else scale
        if isinstance(scale, list):
            h.snap("scale array", lambda: kw["scale"])
    # numpy-only code fed a sparse Jacobian is one mechanism whatever the aggregation method
    sig = sparse_sig("aggregation") if jac_kind(fn, pts[0]) else (lambda c: f"C10:aggregation:{method}:{c}")
    state = OperandState([fn], pts)
    h.forget()
    try:
        agg = getattr(af, AGG[method])(fn, **kw)
    except Exception as e:
        rep.violation(sig(f"construction-exception:{type(e).__name__}"), "builds", case,
                      observed=f"{type(e).__name__}: {e}")
        return
    if not state.compare(rep, case, sig, "after_helper", h):
        return
    sub = list(range(m)) if idx is None else list(idx)
    svec = np.broadcast_to(np.asarray(scale, dtype=float), (len(sub),))
    inplace_reported = False

    def untouched(x):
        nonlocal inplace_reported
        rep.count("operand_immutability_checks")
        bad = h.modified()
        h.forget()
        if not bad:
            return
        label, cur, cp = bad[0]
        cur = np.array(cur, copy=True)
        h.restore()
        if inplace_reported:
            return
        inplace_reported = True
        s = None
        try:
            s = _scaled_mimic(scale)(label, cur, cp)
        except Exception:
            s = None
        rep.violation(s or sig("operand-modified-in-place"), f"operands' values unchanged ({label})",
                      dict(case, point=x.tolist()), observed=cur, expected=cp,
                      msg=f"{label} of the aggregated constraint was modified in place")

    for x in pts:
        g = ref.evaluate(tree, x)
        variants = [{}]
        if method == "lower_bound_KS" and idx is not None and len(sub) != m:
            variants = [{}, {"count_full": True}]
        if method in ("SUM", "POS_SUM") and "scale" in opts:
            variants = [{}, {"square_scale": True}]
        refs = [ref.aggregation(method, g.v, rho=rho, scale=scale, indices=idx, **v) for v in variants]
        smv = float(np.max(np.abs(svec) * g.mv[sub]))
        amp = 1.0 + (8.0 * rho * smv if method in ("upper_bound_KS", "lower_bound_KS", "IKS") else 0.0)
        # ---- value
        try:
            obs = agg.evaluate(x.copy())
        except Exception as e:
            rep.violation(sig(f"value:exception:{type(e).__name__}"), "value", dict(case, point=x.tolist()),
                          observed=f"{type(e).__name__}: {e}", expected=refs[0][0])
            return
        rep.count("aggregation_value_oracle_evaluations")
        which = None
        for k, (val, d) in enumerate(refs):
            e_ = ref.Val(np.array([val]), None, np.array([amp * (np.abs(d) @ g.mv + abs(val) + 1.0)]))
            if cmp_value(obs, e_) is None:
                which = k
                break
        if which is None:
            rep.violation(sig("value"), "value equals the documented aggregate of the scaled constraints",
                          dict(case, point=x.tolist()), observed=obs, expected=refs[0][0])
            return
        if which == 1:
            rep.observe("lower_bound_KS with indices subtracts log(len(all outputs))/rho, not log(len(indices))/rho"
                        if method == "lower_bound_KS" else f"{method}: the scale is applied as (s*g)^2", case["options"])
        if method in ("SUM", "POS_SUM") and "scale" in opts and which == 0:
            rep.count("sum_square_scale_multiplies_the_squares")
        val, d = refs[which]
        # operand state after the evaluation: last_eval of the aggregated constraint must still be its value
        le = fn.last_eval
        if isinstance(le, np.ndarray) and le.shape == g.v.shape:
            rep.count("operand_last_eval_checked")
            if np.any(np.abs(le - g.v) > TOL * g.mv + ATOL) and not inplace_reported:
                inplace_reported = True
                s = KNOWN_INPLACE if (idx is None and np.allclose(le, g.v * svec)) else sig("operand-last_eval-modified")
                rep.violation(s, "operands' values unchanged (last_eval of the aggregated constraint)",
                              dict(case, point=x.tolist()), observed=le, expected=g.v,
                              msg="the value array returned by the aggregated constraint was scaled in place")
        untouched(x)
        # ---- bounds of the smooth maxima
        gmax = float(np.max(svec * g.v[sub]))
        slack = TOL * amp * (smv + 1.0)
        ov = float(np.ravel(obs)[0])
        if method == "lower_bound_KS":
            rep.count("ks_bounds_checked")
            if ov > gmax + slack:
                rep.violation(sig("bound"), "lower_bound_KS <= max", dict(case, point=x.tolist()), observed=ov, expected=gmax)
                return
        elif method == "upper_bound_KS":
            rep.count("ks_bounds_checked")
            if ov < gmax - slack:
                rep.violation(sig("bound"), "upper_bound_KS >= max", dict(case, point=x.tolist()), observed=ov, expected=gmax)
                return
        elif method == "IKS":
            rep.count("iks_bound_checked")
            if ov > gmax + slack or ov < float(np.min(svec * g.v[sub])) - slack:
                rep.violation(sig("bound"), "min <= IKS <= max", dict(case, point=x.tolist()), observed=ov, expected=gmax)
                return
        # ---- Jacobian
        if method == "MAX":
            gs = np.sort(svec * g.v[sub])
            if len(gs) > 1 and gs[-1] - gs[-2] < 1e-6:
                rep.count("max_jacobian_skipped_at_a_tie")
                continue
        if method == "POS_SUM" and np.any(np.abs(g.v[sub]) < 1e-9):
            rep.count("pos_sum_jacobian_skipped_at_the_kink")
            continue
        expJ = ref.Val(np.array([val]), (d @ g.J)[None, :], None, amp * ((np.abs(d) @ g.mJ) + 1e-3 * np.abs(d) @ np.abs(g.J))[None, :])
        exc = None
        try:
            obsJ = agg.jac(x.copy())
        except Exception as e:
            exc, obsJ = e, None
        rep.count("aggregation_jacobian_oracle_evaluations")
        bad = ("exception", f"{type(exc).__name__}: {exc}") if exc is not None else cmp_jac(obsJ, expJ, n)
        if bad is not None:
            s = None
            if isinstance(scale, list):
                Jsub = g.J[sub, :]
                du = d[sub] / svec
                try:
                    W = Jsub.copy()
                    W *= svec  # scale applied along the last axis of the Jacobian, in place
                    wrong = du @ W
                    if exc is None and np.allclose(np.ravel(obsJ), wrong, rtol=1e-9, atol=1e-12):
                        s = KNOWN_VECSCALE
                except ValueError:
                    if isinstance(exc, ValueError) and "broadcast" in str(exc):
                        s = KNOWN_VECSCALE
                except TypeError:  # e.g. an object array returned for a sparse Jacobian: not this mechanism
                    s = None
            rep.violation(s or sig("jacobian"), f"jacobian: {bad[1]}", dict(case, point=x.tolist()),
                          observed=obsJ if exc is None else bad[1], expected=expJ.J, msg=bad[1])
            untouched(x)
            return
        untouched(x)
    state.compare(rep, case, sig, "after_evaluating_result", h)
    # self-check of the reference derivative (oracle health, not a verdict on gemseo)
    if method in ("upper_bound_KS", "lower_bound_KS", "IKS", "SUM"):
        g = ref.evaluate(tree, pts[0])
        _, d = ref.aggregation(method, g.v, rho=rho, scale=scale, indices=idx)
        dc = ref.aggregation_complex_step(method, g.v, rho=rho, scale=scale, indices=idx)
        rep.count("reference_derivative_selfchecks")
        if not np.allclose(d, dc, rtol=1e-9, atol=1e-12):
            rep.inconclusive(f"reference model self-check failed for {method}: analytic {d} vs complex-step {dc}")


# =========================================================================== ConstraintAggregation discipline
def gen_discipline(rng):
    method = list(AGG)[int(rng.integers(len(AGG)))]
    m = int(rng.integers(2, 6))
    opts = _gen_options(rng, m, method)
    pts = [np.round(rng.uniform(-1.5, 1.5, m), 3).tolist() for _ in range(3)]
    if rng.random() < 0.3:
        pts[0] = (-np.abs(np.array(pts[0]))).tolist()
    return {"kind": "helper", "helper": "discipline", "method": method, "m": m, "options": opts, "points": pts,
            "as_enum": bool(rng.random() < 0.5)}


def run_discipline(case, rep):
    from gemseo.disciplines.constraint_aggregation import ConstraintAggregation

    method, m, opts = case["method"], case["m"], case["options"]
    idx, scale, rho = opts.get("indices"), opts.get("scale", 1.0), opts.get("rho", 100.0)
    rep.case(("discipline", method, m, idx is None, np.ndim(scale), "rho" in opts), True)
    rep.count("helper_cases_discipline")
    kw = {}
    if idx is not None:
        kw["indices"] = np.array(idx)
    if "rho" in opts:
        kw["rho"] = rho
    if "scale" in opts:
        kw["scale"] = np.array(scale) if isinstance(scale, list) else scale
    sig = lambda c: f"C10:ConstraintAggregation:{method}:{c}"  # noqa: E731
    try:
        fn_id = ConstraintAggregation.EvaluationFunction(method) if case["as_enum"] else method
        disc = ConstraintAggregation(["c"], fn_id, **kw)
    except Exception as e:
        rep.violation(sig(f"construction-exception:{type(e).__name__}"), "builds", case, observed=f"{type(e).__name__}: {e}")
        return
    out_name = f"{method}_c"
    sub = list(range(m)) if idx is None else list(idx)
    svec = np.broadcast_to(np.asarray(scale, dtype=float), (len(sub),))
    for p in case["points"]:
        c = np.array(p)
        cin = c.copy()
        variants = [{}]
        if method == "lower_bound_KS" and len(sub) != m:
            variants = [{}, {"count_full": True}]
        if method in ("SUM", "POS_SUM") and "scale" in opts:
            variants = [{}, {"square_scale": True}]
        refs = [ref.aggregation(method, c, rho=rho, scale=scale, indices=idx, **v) for v in variants]
        amp = 1.0 + (8.0 * rho * float(np.max(np.abs(svec * c[sub]))) if method in ("upper_bound_KS", "lower_bound_KS", "IKS") else 0.0)
        try:
            out = disc.execute({"c": cin})
            obs = out[out_name]
        except Exception as e:
            rep.violation(sig(f"execute-exception:{type(e).__name__}"), "execute", dict(case, point=p),
                          observed=f"{type(e).__name__}: {e}", expected=refs[0][0])
            return
        rep.count("discipline_value_oracle_evaluations")
        which = None
        for k, (val, d) in enumerate(refs):
            if cmp_value(obs, ref.Val(np.array([val]), None, np.array([amp * (np.abs(d) @ np.abs(c) + abs(val) + 1.0)]))) is None:
                which = k
                break
        if which is None:
            rep.violation(sig("value"), "output equals the documented aggregate", dict(case, point=p), observed=obs,
                          expected=refs[0][0])
            return
        val, d = refs[which]
        rep.count("operand_immutability_checks")
        if not np.array_equal(cin, c) or not np.array_equal(np.asarray(disc.io.data["c"]), c):
            rep.violation(sig("operand-modified-in-place"), "the constraint values are unchanged", dict(case, point=p),
                          observed={"passed": cin, "stored": disc.io.data["c"]}, expected=c)
            return
        gmax = float(np.max(svec * c[sub]))
        ov = float(np.ravel(obs)[0])
        slack = TOL * amp * (abs(gmax) + 1.0)
        if method in ("lower_bound_KS", "upper_bound_KS"):
            rep.count("ks_bounds_checked")
            if (method == "lower_bound_KS" and ov > gmax + slack) or (method == "upper_bound_KS" and ov < gmax - slack):
                rep.violation(sig("bound"), f"{method} bounds max from its side", dict(case, point=p), observed=ov, expected=gmax)
                return
        if method == "IKS":
            rep.count("iks_bound_checked")
            if ov > gmax + slack:
                rep.violation(sig("bound"), "IKS <= max", dict(case, point=p), observed=ov, expected=gmax)
                return
        # Jacobian w.r.t. the constraints
        if method == "MAX":
            rep.count("discipline_max_jacobian_observed_only")
            if p is not case["points"][-1]:
                continue
            try:
                disc.linearize({"c": c.copy()}, compute_all_jacobians=True)
                rep.observe("ConstraintAggregation(MAX).linearize returned a Jacobian", None)
            except TypeError as e:
                rep.observe("ConstraintAggregation(MAX).linearize raises TypeError (compute_max_agg_jac needs the constraint "
                            "Jacobian); max is not differentiable, outside the verdict", str(e))
            continue
        if method == "POS_SUM" and np.any(np.abs(c[sub]) < 1e-9):
            continue
        try:
            jac = disc.linearize({"c": c.copy()}, compute_all_jacobians=True)
            obsJ = jac[out_name]["c"]
        except Exception as e:
            rep.violation(sig(f"linearize-exception:{type(e).__name__}"), "linearize", dict(case, point=p),
                          observed=f"{type(e).__name__}: {e}", expected=d)
            return
        rep.count("discipline_jacobian_oracle_evaluations")
        expJ = ref.Val(np.array([val]), d[None, :], None, (amp * (np.abs(d) + 1e-3))[None, :])
        bad = cmp_jac(obsJ, expJ, m)
        if bad is not None:
            rep.violation(sig("jacobian"), f"jacobian: {bad[1]}", dict(case, point=p), observed=obsJ, expected=d, msg=bad[1])
            return


# =========================================================================== symbolic sub-workload (operator makers)
class _SymTimeCap(Exception):
    pass


def _sym_equal(a, b, rep=None):
    """Time-capped symbolic equality: sympy.cancel is occasionally pathological on large rational expressions.

    A comparison that is not decided within the cap is *undecided* (None: never a violation), and counted.
    """
    import signal
    import threading

    if threading.current_thread() is not threading.main_thread():
        return _sym_equal_raw(a, b, rep)

    def _raise(signum, frame):
        raise _SymTimeCap

    old = signal.signal(signal.SIGALRM, _raise)
    signal.setitimer(signal.ITIMER_REAL, 4.0)
    try:
        return _sym_equal_raw(a, b, rep)
    except _SymTimeCap:
        if rep is not None:
            rep.count("symbolic_equality_undecided_time_cap")
        return None
    finally:
        signal.setitimer(signal.ITIMER_REAL, 0.0)
        signal.signal(signal.SIGALRM, old)


def _sym_equal_raw(a, b, rep=None):
    import sympy as sp

    d = sp.sympify(a) - sp.sympify(b)
    if d == 0:
        return True
    d = sp.cancel(sp.together(d))
    if d == 0:
        return True
    if d.has(sp.nan, sp.zoo, sp.oo):
        return None
    if d.atoms(sp.Float):  # a float sneaked in (python int / int): decide numerically at rational points
        syms = sorted(d.free_symbols, key=str)
        for vals in ((sp.Rational(3, 7), sp.Rational(-5, 3), sp.Rational(11, 13)), (sp.Rational(-2, 9), sp.Rational(7, 5), sp.Rational(1, 3))):
            v = d.subs(dict(zip(syms, vals)))
            if abs(complex(sp.N(v))) > 1e-9:
                return False
        if rep is not None:
            rep.count("symbolic_equal_decided_numerically_because_of_floats")
        return True
    return False


def _symbolic_known_product(node, mimic, X, J, exc):
    """Same classifier as ``product_mimic`` on expressions: does the faulty broadcasting reproduce the observation?"""
    if mimic is None or not hasattr(mimic, "operands"):
        return None
    fa, fb = mimic.operands
    known = f"C10:_MultiplicationFunctionMaker:jacobian:operand-values-broadcast-along-columns:{_dims_feature(node)}"
    ja, jb = np.asarray(fa.jac(X.copy()), dtype=object), np.asarray(fb.jac(X.copy()), dtype=object)
    va, vb = fa.func(X.copy()), fb.func(X.copy())
    try:
        wrong = ja * vb + jb * va if node["op"] == "*" else (ja * vb - jb * va) / vb ** 2
    except ValueError:
        return known if isinstance(exc, ValueError) and "broadcast" in str(exc) else None
    if exc is not None or np.shape(J) != np.shape(wrong):
        return None
    if all(_sym_equal(o, w) for o, w in zip(np.ravel(J), np.ravel(wrong))):
        return known
    return None


def judge_node_symbolic(rep, fn, node, pts, h, case, sig, op, mimic=None):
    """``pts`` is a one-element list holding the object array of symbols."""
    import sympy as sp

    X = pts[0]
    n = X.size
    rep.count("symbolic_nodes_judged")
    exp = ref.evaluate(node, X)
    m = exp.v.size
    # value
    try:
        v = fn.evaluate(X.copy())
    except Exception as e:
        rep.violation(sig(f"value:symbolic-exception:{type(e).__name__}"), "value for all real x (symbolic)", case,
                      observed=f"{type(e).__name__}: {e}", expected=[str(t) for t in exp.v])
        return False
    vo = np.ravel(v) if isinstance(v, np.ndarray) else np.array([v], dtype=object)
    rep.count("symbolic_value_oracle_evaluations")
    if vo.size != m or any(_sym_equal(o, e, rep) is False for o, e in zip(vo, exp.v)):
        rep.violation(sig("value"), "value equals the combination for all real x (symbolic)", case,
                      observed=[str(t) for t in vo], expected=[str(t) for t in exp.v])
        return False
    # Jacobian
    exc = None
    try:
        J = fn.jac(X.copy())
    except Exception as e:
        exc = e
    rep.count("symbolic_jacobian_oracle_evaluations")
    if exc is not None:
        s = _symbolic_known_product(node, mimic, X, None, exc) or sig(f"jacobian:symbolic-exception:{type(exc).__name__}")
        rep.violation(s, "jacobian for all real x (symbolic)", case, observed=f"{type(exc).__name__}: {exc}",
                      expected=[[str(t) for t in r] for r in exp.J])
        return False
    J_raw = J
    J = np.asarray(_as_dense(J), dtype=object)
    if J.ndim == 1 and m == 1 and J.size == n:
        J = J.reshape(1, n)
    bad = J.shape != (m, n)
    if not bad:
        dv = ref.symbolic_jacobian(vo, X)  # second oracle: the derivative of what gemseo itself evaluated
        for i in range(m):
            for j in range(n):
                if _sym_equal(J[i, j], exp.J[i, j], rep) is False or _sym_equal(J[i, j], dv[i, j], rep) is False:
                    bad = True
    if bad:
        # silently wrong with equal input/output dimensions: same mechanism as the broadcasting error
        s = _symbolic_known_product(node, mimic, X, J_raw, None) or sig("jacobian")
        rep.violation(s, "jacobian is the derivative of the value for all real x (symbolic)", case,
                      observed=[[str(sp.simplify(t)) for t in r] for r in J] if J.ndim == 2 else str(J),
                      expected=[[str(t) for t in r] for r in exp.J])
        return False
    if not check_untouched(rep, h, case, sig):
        return False
    return True


def gen_symbolic_case(rng):
    case = gen_tree_case(rng, depth=int(rng.choice([1, 1, 2, 2, 3])), symbolic=True)
    case["kind"] = "symbolic"
    return case


def run_symbolic_case(case, rep):
    import sympy as sp

    tree, n = case["tree"], case["n"]
    X = np.array(sp.symbols(f"x0:{n}", real=True), dtype=object).reshape(n)
    h = Harness(symbolic=True)
    rep.case(("symbolic", go.tree_shape(tree)), True)
    rep.count("symbolic_trees")
    b = build(tree, h, rep, [X], case)
    if b.clean:
        rep.count("symbolic_trees_fully_clean")


# =========================================================================== directed cases
def _poly_leaf(coeffs, exps, fmt):
    return {"op": "leaf", "f": {"kind": "poly", "coeffs": coeffs, "exps": exps}, "fmt": fmt}


def _lin_leaf(A, b):
    return {"op": "leaf", "f": {"kind": "linear", "A": A, "b": b}, "fmt": "native"}


def directed_cases():
    I3 = [[1, 0, 0], [0, 1, 0], [0, 0, 1]]
    I2 = [[1, 0], [0, 1]]
    f23 = _poly_leaf([[1.0, 2.0, 3.0], [4.0, 5.0, 6.0]], I3, "vec")
    g23 = _poly_leaf([[11.0, 9.0, 7.0], [5.0, 3.0, 1.0]], I3, "vec")
    f22 = _poly_leaf([[1.0, 2.0], [3.0, 4.0]], I2, "vec")
    g22 = _poly_leaf([[2.0, 5.0], [8.0, 11.0]], I2, "vec")
    s3 = _poly_leaf([[1.0, -2.0, 0.5]], I3, "float")
    s3a = _poly_leaf([[1.0, -2.0, 0.5]], I3, "arr1")
    quad = {"op": "leaf", "f": {"kind": "quadratic", "Q": [[0.0, 1.0, 2.0], [3.0, 4.0, 5.0], [6.0, 7.0, 8.0]],
                                "l": [1.0, -2.0, 0.5], "c": 2.0}, "fmt": "native"}
    lin2 = _lin_leaf([[1.0, 2.0, 3.0], [4.0, 5.0, 6.0]], [1.0, 2.0])
    x3 = [[1.0, 2.0, 3.0], [0.0, -1.0, 0.5], [-1.0, -2.0, -0.5]]
    x2 = [[1.0, 2.0], [0.0, -1.0], [-1.5, 0.5]]
    out = []
    for a, b, pts, n in ((f23, g23, x3, 3), (f22, g22, x2, 2), (s3, f23, x3, 3), (f23, s3, x3, 3), (s3a, f23, x3, 3),
                         (lin2, quad, x3, 3), (quad, lin2, x3, 3), (lin2, f23, x3, 3), (s3, s3a, x3, 3)):
        for op in "*/+-":
            tree = {"op": op, "a": a, "b": b}
            ref.sanitize_denominators(tree, [np.array(p) for p in pts])
            out.append({"kind": "tree", "n": n, "tree": tree, "points": pts, "symbolic": False})
    for a in (f23, lin2, quad, s3):
        ma = go.out_dim(a)
        out.append({"kind": "tree", "n": 3, "tree": {"op": "neg", "a": a}, "points": x3, "symbolic": False})
        out.append({"kind": "tree", "n": 3, "tree": {"op": "offset", "a": a, "v": -2.5}, "points": x3, "symbolic": False})
        out.append({"kind": "tree", "n": 3, "tree": {"op": "offset", "a": a, "v": [1.5] * ma}, "points": x3, "symbolic": False})
        for op in "*/+-":
            out.append({"kind": "tree", "n": 3, "tree": {"op": op, "a": a, "b": {"op": "num", "v": 2.5}}, "points": x3, "symbolic": False})
            out.append({"kind": "tree", "n": 3, "tree": {"op": op, "a": a, "b": {"op": "arr", "v": [2.0, -3.0][:ma]}}, "points": x3,
                        "symbolic": False})
    out.append({"kind": "tree", "n": 3, "tree": {"op": "*", "a": s3, "b": {"op": "arr", "v": [2.0, 3.0]}}, "points": x3, "symbolic": False})
    # helpers on the inputs of the design-phase probes
    A33 = [[1.0, 2.0, 3.0], [4.0, 5.0, 6.0], [-1.0, 0.5, 2.0]]
    lin33 = _lin_leaf(A33, [0.1, -0.2, 0.3])
    for method in AGG:
        for opts in ({}, {"scale": 2.0}, {"scale": [1.0, 2.0, 3.0]}, {"scale": 2.0, "indices": [0, 2]}, {"scale": [2.0, 3.0], "indices": [0, 1]}):
            out.append({"kind": "helper", "helper": "aggregation", "method": method, "n": 3, "tree": lin33, "options": opts,
                        "points": [[0.3, -0.2, 0.5], [0.0, 0.4, -1.0]]})
            out.append({"kind": "helper", "helper": "aggregation", "method": method, "n": 3, "tree": f23, "options":
                        ({k: (v[:2] if isinstance(v, list) and k == "scale" else [0, 1] if k == "indices" else v) for k, v in opts.items()}),
                        "points": [[0.3, -0.2, 0.5], [0.0, 0.4, -1.0]]})
            out.append({"kind": "helper", "helper": "discipline", "method": method, "m": 3, "options": opts,
                        "points": [[0.5, -1.0, 0.45], [-0.5, -1.0, -0.2], [1.0, 0.2, 0.0]], "as_enum": False})
    out.append({"kind": "helper", "helper": "linear_composition", "n": 2, "tree": f22, "matrix": [[0.0, 1.0], [2.0, 5.0]], "points": x2})
    out.append({"kind": "helper", "helper": "linear_composition", "n": 3, "tree": f23,
                "matrix": [[0.0, 1 / 3, 2 / 3, 1.0], [4 / 3, 5 / 3, 2.0, 7 / 3], [8 / 3, 3.0, 10 / 3, 11 / 3]], "points": [[1.0, 2.0, 3.0, 4.0]]})
    out.append({"kind": "helper", "helper": "linear_composition", "n": 3, "tree": s3, "matrix": [[0.3], [0.4], [0.5]], "points": [[1.0], [-2.0]]})
    g4 = _poly_leaf([[1.0, 10.0, 100.0, 1000.0]], [[1, 0, 0, 0], [0, 1, 0, 0], [0, 0, 1, 0], [0, 0, 0, 1]], "float")
    for which in ("restricted_function", "restriction"):
        out.append({"kind": "helper", "helper": which, "n": 4, "tree": g4, "frozen_idx": [1, 2], "frozen_val": [7.0, 9.0], "points": [[1.0, 2.0]]})
        out.append({"kind": "helper", "helper": which, "n": 4, "tree": g4, "frozen_idx": [0], "frozen_val": [7.0], "points": [[1.0, 2.0, 3.0]]})
        out.append({"kind": "helper", "helper": which, "n": 3, "tree": f23, "frozen_idx": [1], "frozen_val": [7.0], "points": [[1.0, 2.0]]})
    # linear operands with SciPy sparse coefficients through every operator and helper
    for fmt in ("csr_array", "csr_matrix", "coo_array", "csc_matrix"):
        sp = {"op": "leaf", "f": {"kind": "linear", "A": [[2.0, 0.0, -1.0], [0.0, 3.0, 4.0]], "b": [5.0, -7.0]}, "fmt": "sparse:" + fmt}
        sp1 = {"op": "leaf", "f": {"kind": "linear", "A": [[0.0, -2.0, 0.5]], "b": [0.5]}, "fmt": "sparse:" + fmt}
        out.append({"kind": "helper", "helper": "normalize", "n": 3, "tree": sp, "points": [[1 / 6, 0.45, 0.75], [0.0, 1.0, 0.5]],
                    "variables": [{"name": "x", "size": 3, "lb": [1.0, -2.0, 0.5], "ub": [4.0, 3.0, 2.5]}]})
        out.append({"kind": "helper", "helper": "normalize", "n": 3, "tree": sp1, "points": [[0.2, -1.0, 0.75], [1.0, 2.0, 0.0]],
                    "variables": [{"name": "x", "size": 1, "lb": [1.0], "ub": [4.0]}, {"name": "y", "size": 2, "lb": [None, 0.5], "ub": [3.0, 2.5]}]})
        for a, b in ((sp, f23), (f23, sp), (sp, sp), (sp, s3), (s3, sp), (sp1, f23), (sp1, s3), (sp, {"op": "num", "v": 2.5}),
                     (sp, {"op": "arr", "v": [2.0, -3.0]}), (sp1, {"op": "arr", "v": [2.0]})):
            for op in "*/+-":
                tree = {"op": op, "a": a, "b": b}
                ref.sanitize_denominators(tree, [np.array(q) for q in x3])
                out.append({"kind": "tree", "n": 3, "tree": tree, "points": x3, "symbolic": False})
        # a sum with a dense Jacobian turns a sparse-matrix Jacobian into a numpy.matrix: multiply it again
        out.append({"kind": "tree", "n": 3, "tree": {"op": "*", "a": {"op": "+", "a": sp, "b": f23}, "b": g23}, "points": x3, "symbolic": False})
        for a in (sp, sp1):
            out.append({"kind": "tree", "n": 3, "tree": {"op": "neg", "a": a}, "points": x3, "symbolic": False})
            out.append({"kind": "tree", "n": 3, "tree": {"op": "offset", "a": a, "v": [1.5] * go.out_dim(a)}, "points": x3, "symbolic": False})
        out.append({"kind": "helper", "helper": "concatenation", "n": 3, "trees": [sp, f23, sp1], "points": x3})
        for which in ("restriction", "linear_restrict", "restricted_function"):
            out.append({"kind": "helper", "helper": which, "n": 3, "tree": sp, "frozen_idx": [1], "frozen_val": [7.0], "points": [[1.0, 2.0], [-1.0, 0.5]]})
        out.append({"kind": "helper", "helper": "linear_composition", "n": 3, "tree": sp, "matrix": [[1.0, 2.0], [0.0, 1.0], [3.0, -1.0]], "points": x2})
        out.append({"kind": "helper", "helper": "taylor_linear", "n": 3, "tree": sp, "x0": x3[0], "points": x3})
        out.append({"kind": "helper", "helper": "convex_linear", "n": 3, "tree": sp, "x0": [1.0, 1.0, -2.0], "mask": None,
                    "points": [[1.0, 1.0, -2.0], [2.0, 0.5, -1.0]]})
        for method in AGG:
            for opts in ({}, {"scale": 2.0, "indices": [1]}, {"scale": [2.0, 3.0]}):
                out.append({"kind": "helper", "helper": "aggregation", "method": method, "n": 3, "tree": sp, "options": opts,
                            "points": [[0.3, -0.2, 0.5], [0.0, 0.4, -1.0]]})
    out.extend(sparse_audit_cases())
    half_norm2 = _poly_leaf([[0.5, 0.5, 0.5], [-0.5, -0.5, -0.5]], [[2, 0, 0], [0, 2, 0], [0, 0, 2]], "vec")
    out.append({"kind": "helper", "helper": "convex_linear", "n": 3, "tree": half_norm2, "x0": [1.0, 1.0, -2.0], "mask": [False, True, True],
                "points": [[1.0, 1.0, -2.0], [2.0, 2.0, -1.0], [0.5, 3.0, -4.0]]})
    out.append({"kind": "helper", "helper": "convex_linear", "n": 3, "tree": _lin_leaf([[1.0, -2.0, 3.0], [4.0, 5.0, -6.0]], [1.0, 2.0]),
                "x0": [1.0, 1.0, 1.0], "mask": None,
                "points": [[1.0, 1.0, 1.0], [3.0, 3.0, 3.0], [0.5, 2.0, 1.5]]})
    return out


def sparse_audit_cases():
    """Every helper applied to every kind of tree whose Jacobian comes out as a sparse container.

    Flavours (sparray and spmatrix twins): a sparse leaf (csr), sparse+sparse and sparse-sparse (csr), sparse*number and
    sparse/number (csr), sparse*sparse, sparse/sparse (the quotient rule returns a coo container), negation and offset
    (MDOLinearFunction with sparse coefficients created by gemseo), vector- and scalar-valued.
    """
    out = []
    x3 = [[1.0, 2.0, 3.0], [0.5, -1.0, 0.5], [-1.0, -2.0, -0.5]]
    x2 = [[1.0, 2.0], [-1.0, 0.5]]
    for arr, mat in (("csr_array", "lil_array"), ("csr_matrix", "dok_matrix")):
        def lin(A, b, fmt):
            return {"op": "leaf", "f": {"kind": "linear", "A": A, "b": b}, "fmt": "sparse:" + fmt}

        sp, sp2 = lin([[2.0, 0.0, -1.0], [0.0, 3.0, 4.0]], [5.0, -7.0], arr), lin([[1.0, 0.5, 0.0], [0.0, 0.0, 2.0]], [9.0, 8.0], mat)
        s1, s2 = lin([[0.0, -2.0, 0.5]], [0.5], arr), lin([[1.0, 0.0, 0.25]], [6.0], mat)
        flavours = {}
        for tag, a, b in (("vector", sp, sp2), ("scalar", s1, s2)):
            flavours[f"leaf-{tag}"] = a
            flavours[f"sum-{tag}"] = {"op": "+", "a": a, "b": b}
            flavours[f"difference-{tag}"] = {"op": "-", "a": a, "b": b}
            flavours[f"times-number-{tag}"] = {"op": "*", "a": a, "b": {"op": "num", "v": 2.5}}
            flavours[f"over-number-{tag}"] = {"op": "/", "a": a, "b": {"op": "num", "v": 2.5}}
            flavours[f"product-{tag}"] = {"op": "*", "a": a, "b": b}
            flavours[f"quotient-{tag}"] = {"op": "/", "a": a, "b": {"op": "offset", "a": b, "v": 5}}
            flavours[f"neg-quotient-{tag}"] = {"op": "neg", "a": {"op": "/", "a": a, "b": {"op": "offset", "a": b, "v": 5}}}
            flavours[f"negation-{tag}"] = {"op": "neg", "a": a}
            flavours[f"offset-{tag}"] = {"op": "offset", "a": a, "v": [1.5] * go.out_dim(a)}
        import copy

        for name, tree in flavours.items():
            def t():
                return copy.deepcopy(tree)

            linear_object = name.split("-")[0] in ("leaf", "negation", "offset")  # still an MDOLinearFunction
            base = {"kind": "helper", "n": 3, "audit": f"{arr}:{name}"}
            out.append(dict(base, helper="restriction", tree=t(), frozen_idx=[0, 1], frozen_val=[0.5, -1.0], points=[[3.0], [0.5]]))
            out.append(dict(base, helper="restriction", tree=t(), frozen_idx=[1], frozen_val=[7.0], points=x2))
            out.append(dict(base, helper="restricted_function", tree=t(), frozen_idx=[1], frozen_val=[7.0], points=x2))
            out.append(dict(base, helper="restricted_function", tree=t(), frozen_idx=[0, 2], frozen_val=[0.5, -1.0], points=[[3.0], [0.5]]))
            out.append(dict(base, helper="linear_composition", tree=t(), matrix=[[1.0, 2.0], [0.0, 1.0], [3.0, -1.0]], points=x2))
            out.append({"kind": "helper", "helper": "concatenation", "n": 3, "audit": f"{arr}:{name}", "trees": [t(), t()], "points": x3})
            out.append({"kind": "helper", "helper": "concatenation", "n": 3, "audit": f"{arr}:{name}",
                        "trees": [t(), _poly_leaf([[1.0, 2.0, 3.0]], [[1, 0, 0], [0, 1, 0], [0, 0, 1]], "float")], "points": x3})
            out.append(dict(base, helper="taylor_linear", tree=t(), x0=x3[0], points=x3))
            out.append(dict(base, helper="convex_linear", tree=t(), x0=[1.0, 1.0, -2.0], mask=None, points=[[1.0, 1.0, -2.0], [2.0, 0.5, -1.0]]))
            out.append(dict(base, helper="convex_linear", tree=t(), x0=[1.0, 1.0, -2.0], mask=[True, False, True],
                            points=[[1.0, 1.0, -2.0], [2.0, 0.5, -1.0]]))
            if name.endswith("scalar"):
                out.append(dict(base, helper="taylor_quadratic", tree=t(), x0=x3[0], points=x3,
                                hessian=[[2.0, 1.0, 0.0], [1.0, 3.0, 0.5], [0.0, 0.5, 1.0]]))
            else:
                for method in AGG:
                    for opts in ({}, {"scale": [2.0, 3.0]}, {"indices": [1], "scale": 2.0}):
                        out.append(dict(base, helper="aggregation", method=method, tree=t(), options=opts, points=x3[:2]))
            if linear_object:
                out.append(dict(base, helper="linear_restrict", tree=t(), frozen_idx=[1], frozen_val=[7.0], points=x2))
                out.append(dict(base, helper="normalize", tree=t(), points=[[1 / 6, 0.45, 0.75], [0.0, 1.0, 0.5]],
                                variables=[{"name": "x", "size": 3, "lb": [1.0, -2.0, 0.5], "ub": [4.0, 3.0, 2.5]}]))
    # a dense function divided by a sparse-*matrix* linear function: the quotient rule returns a numpy.matrix, which the
    # first-order Taylor polynomial cannot turn into an MDOLinearFunction (consequence of the operator makers)
    s3 = _poly_leaf([[1.0, -2.0, 0.5]], [[1, 0, 0], [0, 1, 0], [0, 0, 1]], "float")
    sm1 = {"op": "leaf", "f": {"kind": "linear", "A": [[1.0, 0.0, 0.25]], "b": [6.0]}, "fmt": "sparse:coo_matrix"}
    out.append({"kind": "helper", "helper": "taylor_linear", "n": 3, "audit": "coo_matrix:dense-over-sparse-matrix-scalar",
                "tree": {"op": "+", "a": {"op": "/", "a": s3, "b": {"op": "offset", "a": sm1, "v": 5}}, "b": {"op": "num", "v": -1.5}},
                "x0": x3[0], "points": x3})
    pts3 = [np.array(q) for q in x3]
    for case in out:
        for tree in ([case["tree"]] if "tree" in case else case["trees"]):
            ref.sanitize_denominators(tree, pts3 + [np.array([1.0, 1.0, -2.0]), np.array([2.0, 0.5, -1.0])])
    return out


def directed_observations(rep):
    """Corners deliberately kept outside the verdict (recorded as observations)."""
    from gemseo.core.mdo_functions.mdo_function import MDOFunction
    from gemseo.core.mdo_functions.mdo_linear_function import MDOLinearFunction
    from gemseo.disciplines.constraint_aggregation import ConstraintAggregation

    a = np.array([1.0, -2.0, 0.5])
    A = np.arange(6.0).reshape(2, 3) + 1
    x = np.array([1.0, 2.0, 3.0])
    s = MDOFunction(lambda x: a @ x, "s", jac=lambda x: a)
    v = MDOFunction(lambda x: A @ x, "v", jac=lambda x: A)
    h = s + np.array([2.0, 3.0])
    try:
        val, J = h.evaluate(x), h.jac(x)
        if np.shape(val) == (2,) and np.shape(J) != (2, 3):
            rep.observe("scalar-valued function + longer array: value has 2 components, Jacobian has shape "
                        f"{np.shape(J)} (array operands larger than the output are outside the judged programs)", None)
    except Exception as e:
        rep.observe("scalar-valued function + longer array raises", str(e))
    try:
        d = ConstraintAggregation(["c1", "c2"], "upper_bound_KS")
        out = d.execute({"c1": np.array([0.5, 1.0]), "c2": np.array([2.0, 3.0])})
        rep.observe("ConstraintAggregation with two constraint names aggregates all inputs into the first output; the second output is "
                    "empty" if out["upper_bound_KS_c2"].size == 0 else "ConstraintAggregation with two constraint names",
                    {k: v for k, v in out.items() if k.startswith("upper")})
    except Exception as e:
        rep.observe("ConstraintAggregation with two constraint names raises", str(e))


# =========================================================================== entry points
GENERATORS = {
    "restriction": lambda r: gen_restriction(r, "restriction"),
    "linear_restrict": lambda r: gen_restriction(r, "linear_restrict"),
    "restricted_function": lambda r: gen_restriction(r, "restricted_function"),
    "linear_composition": gen_linear_composition,
    "concatenation": gen_concatenation,
    "normalize": gen_normalize,
    "taylor_linear": lambda r: gen_taylor(r, 1),
    "taylor_quadratic": lambda r: gen_taylor(r, 2),
    "convex_linear": gen_convex_linear,
    "aggregation": gen_aggregation,
    "discipline": gen_discipline,
}
RUNNERS = {
    "restriction": run_restriction, "linear_restrict": run_restriction, "restricted_function": run_restriction,
    "linear_composition": run_linear_composition, "concatenation": run_concatenation, "normalize": run_normalize,
    "taylor_linear": run_taylor, "taylor_quadratic": run_taylor, "convex_linear": run_convex_linear,
    "aggregation": run_aggregation, "discipline": run_discipline,
}
# aggregations have six methods and many option patterns: give them more cases
WEIGHT = {"aggregation": 4, "discipline": 3, "convex_linear": 2}


def _run_case(case, rep):
    if case["kind"] == "tree":
        run_tree_case(case, rep)
    elif case["kind"] == "symbolic":
        run_symbolic_case(case, rep)
    else:
        RUNNERS[case["helper"]](case, rep)


def _densified(obj):
    """Deep copy of a case in which every sparse linear leaf hands dense coefficients to gemseo."""
    if isinstance(obj, dict):
        out = {k: _densified(v) for k, v in obj.items()}
        if out.get("op") == "leaf" and str(out.get("fmt", "")).startswith("sparse:"):
            out["fmt"] = "native"
        return out
    if isinstance(obj, list):
        return [_densified(v) for v in obj]
    return obj


def run_case(case, rep):
    """Run a case; a ``...:sparse-jacobian`` violation is followed by the dense twin of the case.

    ``C10:<site>:sparse-jacobian`` means "numpy-only code of <site> met a sparse operand Jacobian".  The twin (same case,
    dense coefficients) decides whether sparsity explains the violation: if the site is also wrong with dense operands,
    the twin reports it under the site's ordinary signature, so a defect of the site that is not a matter of container
    is never absorbed by the sparse signature.
    """
    before = dict(rep.violation_counts)
    _run_case(case, rep)
    if case.get("dense_twin"):
        return
    if any(k.endswith(":sparse-jacobian") and v > before.get(k, 0) for k, v in rep.violation_counts.items()):
        rep.count("dense_twins_run_after_a_sparse_violation")
        n0 = sum(rep.violation_counts.values())
        _run_case(dict(_densified(case), dense_twin=True), rep)
        if sum(rep.violation_counts.values()) == n0:
            rep.count("sparse_violations_explained_by_the_container")


def run_shard(spec, rep):
    import logging
    import warnings

    logging.disable(logging.CRITICAL)
    warnings.filterwarnings("ignore")
    rng = np.random.default_rng(spec["seed"])
    if spec.get("shard", 0) == 0:
        for case in directed_cases():
            run_case(case, rep)
            rep.count("directed_cases")
        directed_observations(rep)
    # the sub-workloads are interleaved in rounds so that a time-budget stop (loaded machine) thins all of them
    # proportionally instead of starving the last ones
    rounds = 8
    plan = [("tree", spec["n_trees"])] + [(name, spec["n_helper"] * WEIGHT.get(name, 1)) for name in HELPERS] + [
        ("symbolic", spec["n_symbolic"])]
    sampled = set()
    stopped = False
    for r in range(rounds):
        for name, total in plan:
            count = total // rounds + (1 if r < total % rounds else 0)
            for _ in range(count):
                if rep.time_left() < 0:
                    stopped = True
                    break
                if name == "tree":
                    case = gen_tree_case(rng)
                    note = "expression tree: every node judged bottom-up against the reference evaluator"
                elif name == "symbolic":
                    case = gen_symbolic_case(rng)
                    note = "symbolic tree: sympy symbols fed to the real operator makers, expressions compared exactly"
                else:
                    case = GENERATORS[name](rng)
                    note = f"helper case ({name})"
                run_case(case, rep)
                if name in ("tree", "symbolic", "aggregation", "convex_linear") and name not in sampled:
                    sampled.add(name)
                    rep.sample({"case": case, "note": note})
            if stopped:
                break
        if stopped:
            rep.count("stopped_on_time_budget")
            break


def replay(case, rep):
    import logging

    logging.disable(logging.CRITICAL)
    case = {k: v for k, v in case.items() if k not in ("point", "node")}
    run_case(case, rep)


def coverage_extra(tier, counters):
    return {
        "symbolic_workload": {
            "trees": counters.get("symbolic_trees", 0),
            "nodes_judged": counters.get("symbolic_nodes_judged", 0),
            "scope": "operator makers (+ - * / neg offset over polynomial, linear and quadratic operands with integer "
                     "coefficients); helpers and aggregations are judged numerically only (they allocate float arrays)",
        },
        "oracle_evaluations_per_clause": {k: v for k, v in sorted(counters.items()) if k.endswith("_oracle_evaluations")},
    }


# about half of what seed 0 observes on the unchanged tree (on a repaired tree the counts are higher: nodes above a
# failing node and helper cases over a failing operand are then judged too)
_QUICK_MIN = {
    "trees": 3200, "trees_with_output_dim_equal_input_dim": 950, "nodes_judged": 16000,
    "operator_value_oracle_evaluations": 70000, "operator_jacobian_oracle_evaluations": 70000,
    "operand_immutability_checks": 75000, "operand_last_eval_checked": 1500,
    "symbolic_trees": 95, "symbolic_value_oracle_evaluations": 250, "symbolic_jacobian_oracle_evaluations": 250,
    "restriction_value_oracle_evaluations": 420, "restriction_jacobian_oracle_evaluations": 420,
    "linear_restrict_value_oracle_evaluations": 480, "linear_restrict_jacobian_oracle_evaluations": 480,
    "restricted_function_value_oracle_evaluations": 190, "restricted_function_jacobian_oracle_evaluations": 120,
    "linear_composition_value_oracle_evaluations": 250, "linear_composition_jacobian_oracle_evaluations": 250,
    "concatenation_value_oracle_evaluations": 340, "concatenation_jacobian_oracle_evaluations": 340,
    "normalize_value_oracle_evaluations": 480, "normalize_jacobian_oracle_evaluations": 480,
    "taylor_linear_value_oracle_evaluations": 410, "taylor_linear_jacobian_oracle_evaluations": 410,
    "taylor_quadratic_value_oracle_evaluations": 260, "taylor_quadratic_jacobian_oracle_evaluations": 260,
    "taylor_value_and_gradient_coincide_at_expansion_point": 220,
    "convex_linear_value_oracle_evaluations": 750, "convex_linear_jacobian_oracle_evaluations": 750,
    "convex_linear_value_coincides_at_expansion_point": 270, "convex_linear_cases_with_negative_derivatives": 95,
    "aggregation_value_oracle_evaluations": 1500, "aggregation_jacobian_oracle_evaluations": 1500,
    "aggregation_cases_IKS": 100, "aggregation_cases_MAX": 100, "aggregation_cases_POS_SUM": 90, "aggregation_cases_SUM": 100,
    "aggregation_cases_lower_bound_KS": 100, "aggregation_cases_upper_bound_KS": 100,
    "ks_bounds_checked": 950, "iks_bound_checked": 470,
    "discipline_value_oracle_evaluations": 1450, "discipline_jacobian_oracle_evaluations": 1200,
    "reference_derivative_selfchecks": 300,
    "normalize_cases_sparse_coefficients": 80, "normalize_idempotence_checked": 160,
    "operand_snapshots_compared_after_helper": 2100, "operand_snapshots_compared_after_evaluating_result": 2000,
    "operator_nodes_with_sparse_operand_jacobian": 1600,
}
_DIRECTED_MIN = 1000  # shard 0 of both tiers: the deterministic cases (they alone print every known sparse signature)
MIN_COUNTERS["quick"] = dict(_QUICK_MIN, directed_cases=_DIRECTED_MIN)
MIN_COUNTERS["thorough"] = {
    k: int(v * (14 if k.startswith("symbolic") else 20 if k.startswith(("trees", "nodes", "operator", "operand_imm")) else 28))
    for k, v in _QUICK_MIN.items()
}
MIN_COUNTERS["thorough"]["directed_cases"] = _DIRECTED_MIN
