"""C16 — derivative approximations are accurate to their order and respect bounds.

Monitors: (M1) recorder on the harness function (every evaluated point), (M7) finiteness
of the result, (M4) closed-form gradient + closed-form bounds of the 2nd/3rd directional
derivatives, (M8) anchors.  See DESIGN.md section 3, C16.
"""

from __future__ import annotations

import itertools
import threading

import numpy as np

from vlib.gen import functions as gf
from vlib.harness import subseed

PID = "C16"
LEVEL = "exploration"
RULE = (
    "seeded generator over (approximator class, polynomial/exp-sin function, point kind "
    "(interior / on ub / within a fraction of a step of ub / zero components), step, component subset, "
    "scalar or per-component step, step given to the constructor or to f_gradient, serial or 2-process parallel, "
    "design space none/physical/normalised) plus "
    "discipline-level cases (linearize in each approximation mode, check_jacobian with correct and wrong "
    "analytic Jacobian and full/partial indices, cache tolerance of the discipline 0 or above the step); a case is distinct by that tuple (function coefficients "
    "excluded) and non-trivial when the function has a non-zero derivative bound for a differentiated component"
)
ASSUMPTIONS = [
    "harness functions are evaluated in IEEE double precision; rounding term 64*eps*sum|terms|/h is added to each bound",
    "steps are restricted to the numerically safe range [1e-7,1e-3] (complex step: [1e-30,1e-8])",
    "only upper bounds are checked for perturbed points, as stated by the property",
]
ANCHORS = [
    "gemseo.utils.derivatives.finite_differences:FirstOrderFD._generate_perturbations",
    "gemseo.utils.derivatives.finite_differences:FirstOrderFD._compute_grad",
    "gemseo.utils.derivatives.finite_differences:FirstOrderFD._compute_parallel_grad",
    "gemseo.utils.derivatives.centered_differences:CenteredDifferences._generate_perturbations",
    "gemseo.utils.derivatives.centered_differences:CenteredDifferences._compute_grad",
    "gemseo.utils.derivatives.centered_differences:CenteredDifferences._compute_parallel_grad",
    "gemseo.utils.derivatives.complex_step:ComplexStep._generate_perturbations",
    "gemseo.utils.derivatives.complex_step:ComplexStep._compute_grad",
    "gemseo.utils.derivatives.complex_step:ComplexStep._compute_parallel_grad",
    "gemseo.utils.derivatives.derivatives_approx:DisciplineJacApprox.compute_approx_jac",
    "gemseo.utils.derivatives.derivatives_approx:DisciplineJacApprox.check_jacobian",
]
MIN_COUNTERS = {
    "quick": {"grad_oracle_evaluations": 6000, "points_checked_against_ub": 12000, "near_ub_cases": 500,
              "subset_cases": 1500, "parallel_equals_serial_checked": 150, "discipline_linearize_checked": 300,
              "check_jacobian_verdicts": 1200, "step_given_at_call_cases": 3000,
              "discipline_cases_with_cache_tolerance_above_the_step": 300},
    "thorough": {"grad_oracle_evaluations": 50000, "points_checked_against_ub": 100000, "near_ub_cases": 3000,
                 "subset_cases": 10000, "parallel_equals_serial_checked": 1500,
                 "discipline_linearize_checked": 800, "check_jacobian_verdicts": 800, "step_given_at_call_cases": 25000,
                 "discipline_cases_with_cache_tolerance_above_the_step": 800},
}
SHARD_TIMEOUT = {"quick": 400, "thorough": 3000}

EPS = np.finfo(float).eps
CLS = {"fd": "FirstOrderFD", "cd": "CenteredDifferences", "cs": "ComplexStep"}


def shards(tier, seed):
    n = {"quick": 16, "thorough": 16}[tier]
    per = {"quick": 3000, "thorough": 100000}[tier]
    disc = {"quick": 50, "thorough": 1200}[tier]
    return [{"seed": subseed(seed, "C16", i), "n_cases": per, "n_disc": disc,
             "budget_s": {"quick": 200, "thorough": 2200}[tier]} for i in range(n)]


# --------------------------------------------------------------------------- generation
def gen_case(rng):
    approx = ["fd", "cd", "cs"][int(rng.integers(3))]
    n = int(rng.integers(1, 6))
    m = int(rng.integers(1, 4))
    f = gf.random_function(rng, n, m)
    space_kind = ["none", "none", "phys", "norm"][int(rng.integers(4))]
    if approx == "cs":
        step = float(10.0 ** rng.integers(-30, -7))
    else:
        step = float(10.0 ** rng.uniform(-7, -3))
    case = {"approx": approx, "func": f.describe(), "n": n, "m": m, "space": None,
            "parallel": bool(rng.random() < 0.04)}
    if space_kind == "none":
        x = np.round(rng.uniform(-2, 2, n), 3)
    else:
        if space_kind == "norm":
            lb, ub = np.zeros(n), np.ones(n)
        else:
            lb = np.round(rng.uniform(-2, 0, n), 2)
            ub = lb + np.round(rng.uniform(0.5, 3, n), 2)
        x = lb + (ub - lb) * np.round(rng.uniform(0.05, 0.9, n), 3)
        kinds = []
        for j in range(n):
            r = rng.random()
            if r < 0.25:
                x[j] = ub[j]
                kinds.append("at_ub")
            elif r < 0.5 and approx != "cs":
                x[j] = ub[j] - step * float(rng.choice([0.1, 0.5, 0.9]))
                kinds.append("near_ub")
            else:
                kinds.append("interior")
        # the approximator compares with the *normalised* bounds when normalize=True; the harness then
        # uses the unit cube as design space so that x is a legal normalised point
        case["space"] = {"lb": lb.tolist(), "ub": ub.tolist(), "normalize": space_kind == "norm", "kinds": kinds}
    if rng.random() < 0.3:
        j0 = int(rng.integers(n))
        sp_ = case["space"]
        if sp_ is None or (sp_["lb"][j0] <= 0.0 < sp_["ub"][j0] and sp_["kinds"][j0] == "interior"):
            x[j0] = 0.0
    case["x"] = x.tolist()
    # component subset
    r = rng.random()
    if n > 1 and r < 0.45:
        k = int(rng.integers(1, n))
        idx = sorted(rng.choice(n, size=k, replace=False).tolist())
        if rng.random() < 0.3:
            idx = idx[::-1]
        case["indices"] = [int(i) for i in idx]
    else:
        case["indices"] = []
    # scalar or per-component step (only with the full component set: the meaning of a per-component step for a
    # subset is not documented)
    if not case["indices"] and approx != "cs" and rng.random() < 0.25:
        case["step"] = [float(step * f_) for f_ in rng.choice([0.5, 1.0, 2.0], size=n)]
    else:
        case["step"] = step
    # how the step reaches the approximator: constructor, or f_gradient(step=...) with the constructor holding
    # the default / another step (the step given at call time is the one in force)
    case["step_via"] = str(rng.choice(["ctor", "ctor", "call", "call_other_ctor"]))
    return case


def case_signature(case):
    sp = case["space"]
    return (case["approx"], case["func"]["kind"], case["n"], case["m"],
            None if sp is None else (sp["normalize"], tuple(sp["kinds"])),
            tuple(case["indices"]), isinstance(case["step"], list), case["parallel"],
            tuple(np.asarray(case["x"]) == 0.0), round(np.log10(np.min(np.abs(case["step"])))),
            case.get("step_via", "ctor"))


def features(case):
    f = []
    if case["indices"]:
        f.append("subset")
    if case["space"] is not None:
        f.append("space")
    if isinstance(case["step"], list):
        f.append("perstep")
    if case["parallel"]:
        f.append("parallel")
    if case.get("step_via", "ctor") != "ctor":
        f.append("step-at-call")
    return "+".join(f) or "plain"


# --------------------------------------------------------------------------- oracle
def build(case, recorder):
    from gemseo.algos.design_space import DesignSpace
    from gemseo.utils.derivatives.centered_differences import CenteredDifferences
    from gemseo.utils.derivatives.complex_step import ComplexStep
    from gemseo.utils.derivatives.finite_differences import FirstOrderFD

    f = gf.from_description(case["func"])
    lock = threading.Lock()

    def fun(x):
        with lock:
            recorder.append(np.array(x, copy=True))
        return f.value(x)

    cls = {"fd": FirstOrderFD, "cd": CenteredDifferences, "cs": ComplexStep}[case["approx"]]
    kwargs = {}
    sp = case["space"]
    if sp is not None:
        ds = DesignSpace()
        ds.add_variable("x", case["n"], lower_bound=np.array(sp["lb"]), upper_bound=np.array(sp["ub"]))
        kwargs["design_space"] = ds
        kwargs["normalize"] = sp["normalize"]
    return f, fun, cls, kwargs


def judge(case, rep, *, count=True):
    f = gf.from_description(case["func"])
    cname = CLS[case["approx"]]
    feat = features(case)
    x = np.array(case["x"], dtype=float)
    n, m = case["n"], case["m"]
    idx = case["indices"] or list(range(n))
    step = np.array(case["step"]) if isinstance(case["step"], list) else case["step"]
    pts = []
    _, fun, cls, kwargs = build(case, pts)
    if case["parallel"]:
        kwargs.update(parallel=True, n_processes=2, use_threading=False)
    via = case.get("step_via", "ctor")
    try:
        if via == "ctor":
            app = cls(fun, step=step, **kwargs)
            J = app.f_gradient(x.copy(), x_indices=list(case["indices"]))
        else:
            if via == "call":
                app = cls(fun, **kwargs)
            else:
                other = step * 100.0 if case["approx"] != "cs" else step * 1e-3
                app = cls(fun, step=other, **kwargs)
            J = app.f_gradient(x.copy(), step=step, x_indices=list(case["indices"]))
            if count:
                rep.count("step_given_at_call_cases")
    except Exception as e:  # valid inputs: any exception is a failure to return a Jacobian
        rep.violation(f"C16:{cname}:exception:{type(e).__name__}:{feat}", "returns-a-jacobian", case,
                      observed=f"{type(e).__name__}: {e}", expected="a Jacobian of shape (m, len(indices))")
        return
    if count:
        rep.count("grad_oracle_evaluations")
        if case["indices"]:
            rep.count("subset_cases")
        if isinstance(case["step"], list):
            rep.count("per_component_step_cases")
    # shape
    J = np.asarray(J)
    if J.shape != (m, len(idx)) and not (m == 1 and J.shape == (len(idx),)):
        rep.violation(f"C16:{cname}:shape:{feat}", "shape", case, observed=list(J.shape), expected=[m, len(idx)])
        return
    J = J.reshape(m, len(idx))
    if not np.all(np.isfinite(J)):
        rep.violation(f"C16:{cname}:non-finite:{feat}", "finite", case, observed=J, expected=f.jac(x)[:, idx])
        return
    # bounds of evaluated points
    sp = case["space"]
    if sp is not None and not case["parallel"]:
        ub = np.array(sp["ub"])
        near = "near_ub" in [sp["kinds"][j] for j in idx]
        if near and count:
            rep.count("near_ub_cases")
        for p in pts:
            rep.count("points_checked_against_ub")
            pr = np.real(p)
            if np.any(pr > ub + 4 * EPS * (1 + np.abs(ub))):
                j = int(np.argmax(pr - ub))
                rep.violation(f"C16:{cname}:evaluated-point-above-ub:{sp['kinds'][j] if j < len(sp['kinds']) else '?'}",
                              "perturbed points stay below the upper bounds", case,
                              observed={"point": pr, "component": j}, expected={"ub": ub})
                break
    else:
        rep.count("points_checked_against_ub", 0)
    # accuracy
    Jex = f.jac(x)
    for k, j in enumerate(idx):
        hj = float(step[j]) if isinstance(case["step"], list) else float(step)
        if case["approx"] == "cs":
            xj = x[j] if x[j] != 0.0 else 1.0
            h = abs(xj * hj)
            bound = 1e-12 * (1 + np.abs(Jex[:, j])) + h * h * f.d3_bound(x, j, h) / 6
        else:
            h = abs(hj)
            fa = f.abs_value(np.abs(x) + h)
            onesided = h * f.d2_bound(x, j, h) / 2 + 64 * EPS * fa / h
            if case["approx"] == "fd":
                bound = onesided
            else:
                centered = h * h * f.d3_bound(x, j, h) / 6 + 64 * EPS * fa / h
                at_bound = False
                if sp is not None:
                    lbj, ubj = sp["lb"][j], sp["ub"][j]
                    # one-sided fallback is legitimate when the centered stencil would leave the bounds
                    at_bound = (x[j] + h > ubj) or (x[j] - h < lbj)
                bound = np.maximum(onesided, centered) if at_bound else centered
        err = np.abs(J[:, k] - Jex[:, j])
        if np.any(err > bound * 1.01 + 1e-300):
            i = int(np.argmax(err - bound))
            rep.violation(f"C16:{cname}:accuracy:{feat}", "error within the theoretical bound", case,
                          observed={"column": k, "component": j, "approx": J[:, k], "error": err},
                          expected={"exact": Jex[:, j], "bound": bound, "worst_output": i})
            return
    return J


def run_gradient_case(case, rep):
    f = gf.from_description(case["func"])
    x = np.array(case["x"])
    idx = case["indices"] or list(range(case["n"]))
    nontrivial = bool(np.any([f.d2_bound(x, j, 1e-3).max() > 0 for j in idx]))
    rep.case(case_signature(case), nontrivial)
    J = judge(case, rep)
    if J is None:
        return
    # parallel == serial (bitwise), scalar step == same step per component
    if case["parallel"]:
        twin = dict(case, parallel=False)
        from vlib.harness import Reporter

        scratch = Reporter(PID)
        J2 = judge(twin, scratch, count=False)
        if J2 is not None:
            rep.count("parallel_equals_serial_checked")
            # the forked workers receive contiguous copies of the perturbed points, which can change the
            # summation order of the harness function by one ulp; this is amplified by 1/h
            f_ = gf.from_description(case["func"])
            h_ = float(np.min(np.abs(case["step"])))
            x_ = np.array(case["x"])
            tol_ = (128 * EPS * f_.abs_value(np.abs(x_) + h_) / h_)[:, None] if case["approx"] != "cs" else 1e-12 * (1 + np.abs(J2))
            if np.any(np.abs(J - J2) > tol_):
                rep.violation(f"C16:{CLS[case['approx']]}:parallel-differs-from-serial", "parallel == serial", case,
                              observed=J, expected=J2)
    elif not isinstance(case["step"], list) and not case["indices"] and case["approx"] != "cs":
        twin = dict(case, step=[case["step"]] * case["n"])
        from vlib.harness import Reporter

        scratch = Reporter(PID)
        J2 = judge(twin, scratch, count=False)
        if scratch.violations:
            v = scratch.violations[0]
            rep.violation(v["signature"], v["clause"], twin, v["observed"], v["expected"])
        elif J2 is not None:
            rep.count("scalar_equals_vector_step_checked")
            if not np.allclose(J, J2, rtol=1e-12, atol=0):
                rep.violation(f"C16:{CLS[case['approx']]}:scalar-step-differs-from-per-component-step",
                              "scalar step == per-component step", case, observed=J, expected=J2)


# --------------------------------------------------------------------------- discipline level
def make_discipline(fdesc, sizes_in, sizes_out, wrong=None):
    from gemseo.core.discipline import Discipline

    f = gf.from_description(fdesc)
    in_names = [f"x{i}" for i in range(len(sizes_in))]
    out_names = [f"y{i}" for i in range(len(sizes_out))]

    class FuncDisc(Discipline):
        def __init__(self):
            super().__init__(name="FuncDisc")
            self.io.input_grammar.update_from_names(in_names)
            self.io.output_grammar.update_from_names(out_names)
            self.io.input_grammar.defaults = {k: np.zeros(s) for k, s in zip(in_names, sizes_in)}

        def _x(self, data):
            return np.concatenate([np.atleast_1d(data[k]) for k in in_names])

        def _run(self, input_data):
            y = f.value(self._x(input_data))
            out, o = {}, 0
            for k, s in zip(out_names, sizes_out):
                out[k] = y[o:o + s]
                o += s
            return out

        def _compute_jacobian(self, input_names=(), output_names=()):
            J = f.jac(np.real(self._x(self.io.data)))
            if wrong is not None:
                J = J.copy()
                J[wrong[0], wrong[1]] += 0.3 * (1 + abs(J[wrong[0], wrong[1]]))
            self.jac = {}
            o = 0
            for ko, so in zip(out_names, sizes_out):
                self.jac[ko] = {}
                i = 0
                for ki, si in zip(in_names, sizes_in):
                    self.jac[ko][ki] = J[o:o + so, i:i + si].copy()
                    i += si
                o += so

    return FuncDisc(), f, in_names, out_names


def split_sizes(rng, total):
    if total == 1 or rng.random() < 0.3:
        return [total]
    k = int(rng.integers(1, total))
    return [k, total - k]


def gen_disc_case(rng):
    n = int(rng.integers(2, 6))
    m = int(rng.integers(1, 4))
    f = gf.random_function(rng, n, m)
    case = {"kind": "discipline", "func": f.describe(), "sizes_in": split_sizes(rng, n),
            "sizes_out": split_sizes(rng, m), "x": np.round(rng.uniform(-1.5, 1.5, n), 3).tolist(),
            "wrong": [int(rng.integers(m)), int(rng.integers(n))]}
    # partial indices for check_jacobian
    ind = {}
    o = 0
    for i, s in enumerate(case["sizes_in"]):
        if s > 1 and rng.random() < 0.7:
            k = int(rng.integers(1, s))
            ind[f"x{i}"] = sorted(int(v) for v in rng.choice(s, size=k, replace=False))
        o += s
    for i, s in enumerate(case["sizes_out"]):
        if s > 1 and rng.random() < 0.5:
            k = int(rng.integers(1, s))
            ind[f"y{i}"] = sorted(int(v) for v in rng.choice(s, size=k, replace=False))
    case["indices"] = ind
    # tolerance of the discipline cache: larger than every differentiation step in two cases out of three
    case["cache_tol"] = float(rng.choice([0.0, 1e-4, 1e-2]))
    return case


def run_disc_case(case, rep):
    from gemseo.core.discipline import Discipline

    sizes_in, sizes_out = case["sizes_in"], case["sizes_out"]
    x = np.array(case["x"])
    rep.case(("disc", tuple(sizes_in), tuple(sizes_out), tuple(sorted((k, tuple(v)) for k, v in case["indices"].items())),
              case["func"]["kind"], case.get("cache_tol", 0.0)), True)

    def data():
        out, o = {}, 0
        for i, s in enumerate(sizes_in):
            out[f"x{i}"] = x[o:o + s].copy()
            o += s
        return out

    # 1. linearize in each approximation mode vs the closed form
    for mode, step in (("finite_differences", 1e-6), ("centered_differences", 1e-5), ("complex_step", 1e-20)):
        d, f, ins, outs = make_discipline(case["func"], sizes_in, sizes_out)
        Jex = f.jac(x)
        if case.get("cache_tol"):
            d.cache.tolerance = case["cache_tol"]
            rep.count("discipline_cases_with_cache_tolerance_above_the_step")
        try:
            d.set_jacobian_approximation(getattr(Discipline.ApproximationMode, mode.upper()), jax_approx_step=step)
            jac = d.linearize(data(), compute_all_jacobians=True)
        except Exception as e:
            rep.violation(f"C16:discipline-linearize:{mode}:exception:{type(e).__name__}", "discipline linearize", case,
                          observed=f"{type(e).__name__}: {e}")
            continue
        rep.count("discipline_linearize_checked")
        o = 0
        for ko, so in zip(outs, sizes_out):
            i = 0
            for ki, si in zip(ins, sizes_in):
                blk = np.asarray(jac[ko][ki])
                ex = Jex[o:o + so, i:i + si]
                if blk.shape != ex.shape:
                    rep.violation(f"C16:discipline-linearize:{mode}:shape", "block shape", case, list(blk.shape), list(ex.shape))
                else:
                    for jj in range(si):
                        j = i + jj
                        fa = f.abs_value(np.abs(x) + step)[o:o + so]
                        if mode == "finite_differences":
                            b = step * f.d2_bound(x, j, step)[o:o + so] / 2 + 64 * EPS * fa / step
                        elif mode == "centered_differences":
                            b = step ** 2 * f.d3_bound(x, j, step)[o:o + so] / 6 + 64 * EPS * fa / step
                        else:
                            b = 1e-12 * (1 + np.abs(ex[:, jj]))
                        if np.any(np.abs(blk[:, jj] - ex[:, jj]) > 1.01 * b + 1e-300):
                            rep.violation(f"C16:discipline-linearize:{mode}:accuracy", "block accuracy", case,
                                          observed={"block": [ko, ki], "col": jj, "approx": blk[:, jj]},
                                          expected={"exact": ex[:, jj], "bound": b})
                            break
                i += si
            o += so
    # 2. check_jacobian verdicts
    wrong = tuple(case["wrong"])
    for derr, step, thr in (("finite_differences", 1e-7, 1e-4), ("centered_differences", 1e-5, 1e-6),
                            ("complex_step", 1e-20, 1e-9)):
        for which in ("correct", "wrong"):
            for ind in ({}, case["indices"]):
                if not ind and derr != "finite_differences" and which == "correct":
                    pass
                d, f, ins, outs = make_discipline(case["func"], sizes_in, sizes_out, wrong=wrong if which == "wrong" else None)
                if case.get("cache_tol"):
                    d.cache.tolerance = case["cache_tol"]
                # is the wrong entry inside the checked indices?
                visible = True
                if which == "wrong" and ind:
                    r, c = wrong
                    o = 0
                    for ko, so in zip(outs, sizes_out):
                        if o <= r < o + so and ko in ind and (r - o) not in ind[ko]:
                            visible = False
                        o += so
                    i = 0
                    for ki, si in zip(ins, sizes_in):
                        if i <= c < i + si and ki in ind and (c - i) not in ind[ki]:
                            visible = False
                        i += si
                expected = which == "correct" or not visible
                try:
                    got = d.check_jacobian(data(), derr_approx=getattr(Discipline.ApproximationMode, derr.upper()),
                                           step=step, threshold=thr, indices=ind or None)
                except Exception as e:
                    rep.violation(f"C16:check_jacobian:{derr}:exception:{type(e).__name__}:{'indices' if ind else 'full'}",
                                  "check_jacobian returns a verdict", dict(case, indices_used=ind, which=which),
                                  observed=f"{type(e).__name__}: {e}", expected=expected)
                    continue
                rep.count("check_jacobian_verdicts")
                if ind:
                    rep.count("check_jacobian_partial_indices")
                if which == "wrong" and not visible:
                    rep.count("check_jacobian_wrong_entry_outside_indices")
                if bool(got) != expected:
                    rep.violation(f"C16:check_jacobian:{derr}:verdict:{which}:{'indices' if ind else 'full'}",
                                  "check_jacobian verdict", dict(case, indices_used=ind, which=which),
                                  observed=bool(got), expected=expected)


# --------------------------------------------------------------------------- directed cases
def directed_cases():
    """Small fixed cases for the corners named in DESIGN.md (always run, every shard 0)."""
    poly = {"kind": "poly", "coeffs": [[1.0, 1.0, 0.0], [0.0, 0.0, 1.0]],
            "exps": [[2, 0, 0], [0, 1, 1], [0, 0, 3]]}
    out = []
    for approx, step in (("fd", 1e-6), ("cd", 1e-5), ("cs", 1e-20)):
        for idx in ([], [1, 2], [2], [0, 2], [2, 0]):
            for par in (False, True):
                out.append({"approx": approx, "func": poly, "n": 3, "m": 2, "space": None, "parallel": par,
                            "x": [1.0, 2.0, 3.0], "indices": idx, "step": step})
        for norm in (False, True):
            lb, ub = ([0.0] * 3, [1.0] * 3) if norm else ([0.0] * 3, [3.0] * 3)
            for kinds, x in ((["interior", "interior", "at_ub"], [0.3 * ub[0], 0.6 * ub[1], ub[2]]),
                             (["interior", "interior", "near_ub"], [0.3 * ub[0], 0.6 * ub[1], ub[2] - 0.1 * step]),
                             (["at_ub", "at_ub", "at_ub"], list(ub))):
                if approx == "cs" and "near_ub" in kinds:
                    continue
                for idx in ([], [0, 2], [2]):
                    out.append({"approx": approx, "func": poly, "n": 3, "m": 2, "parallel": False,
                                "space": {"lb": lb, "ub": ub, "normalize": norm, "kinds": kinds},
                                "x": x, "indices": idx, "step": step})
    extra = []
    for c in out:
        if not c["parallel"] or c["space"] is None:
            for via in ("call", "call_other_ctor"):
                if (len(extra) + len(out)) % 3 == 0 or c["parallel"]:
                    extra.append(dict(c, step_via=via))
    return out + extra


# --------------------------------------------------------------------------- entry points
def run_shard(spec, rep):
    rng = np.random.default_rng(spec["seed"])
    if spec.get("shard", 0) == 0:
        for case in directed_cases():
            run_gradient_case(case, rep)
            rep.count("directed_cases")
    for i in range(spec["n_cases"]):
        if rep.time_left() < 0:
            rep.count("stopped_on_time_budget")
            break
        case = gen_case(rng)
        run_gradient_case(case, rep)
        if i < 2:
            rep.sample({"case": case, "note": "gradient case: approximator judged against closed-form gradient and bounds"})
    for i in range(spec["n_disc"]):
        if rep.time_left() < 0:
            break
        case = gen_disc_case(rng)
        run_disc_case(case, rep)
        if i < 1:
            rep.sample({"case": case, "note": "discipline case: linearize in 3 approximation modes + check_jacobian verdicts"})


def replay(case, rep):
    if case.get("kind") == "discipline":
        run_disc_case(case, rep)
    else:
        run_gradient_case(case, rep)
