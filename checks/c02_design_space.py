"""C02 — design space views stay consistent and normalization is an exact bijection.

Two layers watch the same executions of the real ``gemseo.algos.design_space.DesignSpace``
(DESIGN.md section 3, C02):

1. (M4) the reference model ``vlib.ref.c02_refspace.RefSpace`` executes the same generated history
   (edits interleaved with cache-filling queries); every observable of the real object must agree with it;
2. (M2) an ``icontract`` class invariant attached to the real class (named condition, explicit error class):
   *if a validity flag says a cache is valid, the cache equals its recomputation from the variables*;
   it only reads private state, so observing never repairs.

After a violation the real object is rebuilt from the reference model so that one defect does not
cascade over the rest of the history.
"""

from __future__ import annotations

import copy
import json
import os
import subprocess
from pathlib import Path

import numpy as np

from vlib.gen import c02_histories as gh
from vlib.gen.c02_histories import dec
from vlib.harness import subseed
from vlib.ref.c02_refspace import BOUND_TOL
from vlib.ref.c02_refspace import EPS
from vlib.ref.c02_refspace import INTEGER
from vlib.ref.c02_refspace import RefError
from vlib.ref.c02_refspace import RefSpace
from vlib.ref.c02_refspace import RefVar

PID = "C02"
LEVEL = "exploration"
RULE = (
    "seeded generator of histories of 10-40 valid edits of one design space (add/remove/rename/filter/"
    "filter_dimensions/extend/add_variables_from/set bounds/set current value (array, dict, one variable)/"
    "initialize missing values/toggle integer normalization/to_scalar_variables/deepcopy/to_complex and the "
    "documented error cases), names from a pool with multi-character and prefix-related names, sizes 1-4, "
    "float/integer, every bound kind per component (both, lower only, upper only, none, equal); after each edit, "
    "with probability 0.5, 1-3 cache-filling queries (bounds, current value, indexes, (un)normalize vectors/batches/"
    "int/complex, gradients dense/CSR, round, convert, membership, projection, equality); a history is distinct by "
    "(sequence of step kinds, final layout of types/sizes/bound kinds) and non-trivial when at least one edit "
    "follows a cache-filling query"
)
ASSUMPTIONS = [
    "RefSpace (ordered list of variables, views derived on demand) is the specification of the edits; renaming is "
    "allowed to move the variable to the end provided every view follows the new order",
    "affine maps are compared up to 4 ulp of the terms involved; normalize(unnormalize(u)) up to 4 ulp times the "
    "conditioning 1+(|lb|+|ub|)/(ub-lb)",
    "integer components of an unnormalized vector may be rounded (to within 0.5); gradients may not",
    "complex inputs: the real part is always judged, the imaginary part only when the result is complex",
    "gradient maps are not judged on components with lb == ub; project_into_bounds(normalized=True) only when all "
    "components are normalized; membership only for points away from the tolerance band and integer-valued on "
    "integer components",
    "current values are kept inside the bounds by the generator; invalid bounds (ub < lb) are not generated",
]
ANCHORS = [
    "gemseo.algos.design_space:DesignSpace.add_variable",
    "gemseo.algos.design_space:DesignSpace.remove_variable",
    "gemseo.algos.design_space:DesignSpace.rename_variable",
    "gemseo.algos.design_space:DesignSpace.filter",
    "gemseo.algos.design_space:DesignSpace.filter_dimensions",
    "gemseo.algos.design_space:DesignSpace.extend",
    "gemseo.algos.design_space:DesignSpace.set_lower_bound",
    "gemseo.algos.design_space:DesignSpace.set_upper_bound",
    "gemseo.algos.design_space:DesignSpace.set_current_value",
    "gemseo.algos.design_space:DesignSpace.set_current_variable",
    "gemseo.algos.design_space:DesignSpace.__update_normalization_vars",
    "gemseo.algos.design_space:DesignSpace.__clear_dependent_data",
    "gemseo.algos.design_space:DesignSpace.normalize_vect",
    "gemseo.algos.design_space:DesignSpace.unnormalize_vect",
    "gemseo.algos.design_space:DesignSpace.round_vect",
    "gemseo.algos.design_space:DesignSpace.check_membership",
    "gemseo.algos.design_space:DesignSpace.__check_membership_x_vect",
    "gemseo.algos.design_space:DesignSpace.project_into_bounds",
    "gemseo.algos.design_space:DesignSpace.get_current_value",
    "gemseo.algos.design_space:DesignSpace.convert_dict_to_array",
    "gemseo.algos.design_space:DesignSpace.__eq__",
    "gemseo.utils.data_conversion:split_array_to_dict_of_arrays",
]
# about half of what seed 0 observes, per 16 x 150 histories; scaled to the tier sizes below
_MIN_BASE = {
    "histories": 1200, "edits": 30000, "queries": 30000, "edits_on_filled_caches": 20000,
    "invariant_evaluations": 60000, "icontract_condition_invocations": 2000000, "view_comparisons": 600000,
    "documented_errors_expected": 1300, "oracle_normalize": 4500, "oracle_unnormalize": 3500,
    "oracle_unnormalize_integer_components": 2500, "oracle_roundtrip": 2000, "oracle_gradients": 4000,
    "oracle_gradients_sparse": 900, "oracle_membership_inside": 2500, "oracle_membership_outside": 2000,
    "oracle_projection": 1800, "oracle_current_value_views": 3500, "oracle_normalized_current_value": 5000,
    "oracle_bounds_views": 18000, "oracle_indexes": 1500, "oracle_convert": 1500, "oracle_round": 700,
    "oracle_equality": 1500, "oracle_batches": 1400, "edit:rename_variable": 2500, "edit:filter_dimensions": 1500,
    "edit:remove_variable": 1700, "edit:set_lower_bound": 2500, "edit:set_upper_bound": 2500,
    "edit:toggle_int_norm": 1400, "edit:to_scalar_variables": 500, "edit:deepcopy": 800,
}
HISTORIES_PER_SHARD = {"quick": 900, "thorough": 12000}
MIN_COUNTERS = {
    "quick": dict({k: v * 3 for k, v in _MIN_BASE.items()}, directed_cases=19),
    "thorough": dict({k: v * 16 for k, v in _MIN_BASE.items()}, directed_cases=19, suite_invariant_evaluations=3000),
}
SHARD_TIMEOUT = {"quick": 900, "thorough": 3000}

P = "_DesignSpace__"
TINY = 1e-300


def shards(tier, seed):
    n = 16
    per = HISTORIES_PER_SHARD[tier]
    out = [{"seed": subseed(seed, PID, i), "n_histories": per, "budget_s": {"quick": 600, "thorough": 2400}[tier]}
           for i in range(n)]
    if tier == "thorough":
        out.append({"seed": subseed(seed, PID, "suite"), "n_histories": 0, "suite": True, "budget_s": 2400})
    return out


# =========================================================================== layer 2: class invariant (icontract)
class CacheCoherenceError(AssertionError):
    """A cache of a DesignSpace is flagged valid but differs from its recomputation."""


class _Monitor:
    def __init__(self):
        self.invocations = 0  # how often icontract called the condition (before/after public methods)
        self.evaluations = 0  # how often the invariant was actually computed
        self.defer = True     # histories: evaluate once per step, right after the outermost public call returned
        self.strict = False   # raise CacheCoherenceError instead of recording
        self.log = []         # (class name, issues) recorded in non-deferred mode

MON = _Monitor()


def design_space_caches_are_coherent(self) -> bool:
    """Condition of the class invariant (called by icontract around every public method)."""
    MON.invocations += 1
    if MON.defer:
        return True
    issues = evaluate_invariant(self)
    if issues:
        MON.log.append((type(self).__name__, issues, os.environ.get("PYTEST_CURRENT_TEST", "")))
        return not MON.strict
    return True


def install_invariant():
    import icontract

    from gemseo.algos.design_space import DesignSpace

    if getattr(DesignSpace, "__c02_invariant__", False):
        return
    icontract.invariant(design_space_caches_are_coherent, error=CacheCoherenceError)(DesignSpace)
    DesignSpace.__c02_invariant__ = True


def _eqv(a, b):
    a, b = np.asarray(a), np.asarray(b)
    return a.shape == b.shape and bool(np.all(a == b))


def _close(obs, exp, tol):
    obs, exp = np.asarray(obs), np.asarray(exp)
    if obs.shape != exp.shape:
        return False
    with np.errstate(all="ignore"):
        same = obs == exp
        return bool(np.all(same | (np.abs(obs - exp) <= tol)))


def ref_from_private(ds) -> RefSpace:
    """Recompute the model from the primary private state (variables, current value dict, integer switch)."""
    ref = RefSpace()
    cur = getattr(ds, P + "current_value")
    for name, var in ds._variables.items():
        rv = RefVar(name, var.size, str(var.type), var.lower_bound, var.upper_bound)
        val = cur.get(name)
        rv.value = None if val is None else np.asarray(val)
        ref.vars.append(rv)
    ref.int_norm = bool(getattr(ds, P + "normalize_integer_variables"))
    return ref


def _norm_one(ref, var, x):
    one = RefSpace()
    one.vars = [var]
    one.int_norm = ref.int_norm
    return one.normalize(x), one.map_tolerance(x) + TINY


def evaluate_invariant(ds):
    """Return the list of (issue kind, detail) of the cache-coherence invariant; reads private state only."""
    MON.evaluations += 1
    issues = []
    def g(n):
        return getattr(ds, P + n)

    variables = ds._variables
    names = list(variables)
    n2i = g("names_to_indices")
    if list(ds.normalize) != names:
        issues.append(("keys-of-normalize-differ-from-variables", [list(ds.normalize), names]))
    if list(n2i) != names:
        issues.append(("keys-of-names_to_indices-differ-from-variables", [list(n2i), names]))
    sizes = [variables[n].size for n in names]
    if ds.dimension != sum(sizes):
        issues.append(("dimension-differs-from-sum-of-sizes", [ds.dimension, sum(sizes)]))
    o, tiled = 0, True
    for n, s in zip(names, sizes):
        r = n2i.get(n)
        if r is None or (r.start, r.stop, r.step) != (o, o + s, 1):
            tiled = False
        o += s
    if not tiled:
        issues.append(("index-ranges-do-not-tile-in-variable-order", [{k: [v.start, v.stop] for k, v in n2i.items()}, names, sizes]))
    if not names:
        return issues
    ref = ref_from_private(ds)
    for n in names:
        pol = ds.normalize.get(n)
        if pol is not None and not _eqv(pol, ref.policy(ref.get(n))):
            issues.append(("normalization-policy-differs-from-bounds-and-type", [n, pol, ref.policy(ref.get(n))]))
            break
    if g("norm_data_is_computed"):
        lb, ub = ref.lb_array(), ref.ub_array()
        with np.errstate(all="ignore"):
            factor = ub - lb
            inv = 1.0 / np.where(factor == 0.0, 1, factor)
        for kind, cached, fresh in (
            ("cached-lower-bounds", g("lower_bounds_array"), lb),
            ("cached-upper-bounds", g("upper_bounds_array"), ub),
            ("cached-norm-factor", ds._norm_factor, factor),
            ("cached-norm-factor-inverse", ds._norm_factor_inv, inv),
            ("cached-normalized-indices", g("norm_inds"), ref.norm_mask().nonzero()[0]),
            ("cached-integer-components", g("integer_components"), ref.int_mask()),
        ):
            if cached is None or not _eqv(cached, fresh):
                issues.append((kind + "-flagged-valid-but-stale", [cached, fresh]))
        if bool(g("no_integer")) != (not ref.int_mask().any()):
            issues.append(("cached-no-integer-flag-flagged-valid-but-stale", [bool(g("no_integer"))]))
    cur = g("current_value")
    has = bool(g("has_current_value"))
    has_fresh = bool(cur) and set(cur) == set(names) and all(v is not None for v in cur.values())
    if has != has_fresh:
        issues.append(("has-current-value-flag-differs", [has, has_fresh]))
    cva, ncva, ncv = g("current_value_array"), g("norm_current_value_array"), g("norm_current_value")
    if has and has_fresh:
        x = np.concatenate([np.atleast_1d(cur[n]) for n in names])
        if len(cva) and not _eqv(cva, x):
            issues.append(("cached-current-value-array-stale", [cva, x]))
        if len(ncva):
            exp = ref.normalize(x)
            if not _judge_complex(ncva, exp, ref.map_tolerance(x) + TINY):
                issues.append(("cached-normalized-current-value-array-stale", [ncva, exp]))
            else:
                rng_ = ref.index_ranges()
                if set(ncv) != set(names):
                    issues.append(("cached-normalized-current-value-dict-keys-differ-from-variables", [list(ncv), names]))
                elif any(not _eqv(ncv[n], ncva[rng_[n][0]:rng_[n][1]]) for n in names):
                    issues.append(("cached-normalized-current-value-dict-differs-from-array", [ncv, ncva]))
    elif not has and ncv:
        # get_current_value(names, normalize=True) reads this dictionary without looking at any flag
        for n, v in ncv.items():
            if n not in variables:
                continue
            val = cur.get(n)
            if val is None:
                issues.append(("normalized-current-value-kept-for-a-variable-without-value", [n, v]))
                break
            exp, tol = _norm_one(ref, ref.get(n), np.atleast_1d(val))
            if not _judge_complex(v, exp, tol):
                issues.append(("normalized-current-value-dict-stale-while-current-value-incomplete", [n, v, exp]))
                break
    return issues


# =========================================================================== real-side execution of a step
def _bound_arg(arr, scalar, is_int):
    arr = np.asarray(arr, dtype=float)
    if scalar:
        b = float(arr[0])
        return int(b) if (is_int and np.isfinite(b)) else b
    if is_int and np.all(np.isfinite(arr)):
        return arr.astype(np.int64)
    return arr.copy()


def _add_variable(ds, o):
    is_int = o["type"] == INTEGER
    value = dec(o["value"])
    if value is not None and o.get("scalar_value"):
        value = float(value[0])
    ds.add_variable(o["name"], size=o["size"], type_=o["type"],
                    lower_bound=_bound_arg(dec(o["lb"]), o.get("scalar_lb"), is_int),
                    upper_bound=_bound_arg(dec(o["ub"]), o.get("scalar_ub"), is_int), value=value)


def _other_real(vars_):
    from gemseo.algos.design_space import DesignSpace

    other = DesignSpace()
    for o in vars_:
        _add_variable(other, o)
    return other


def build_real(ref: RefSpace):
    """A fresh real design space equal to the model (used to resynchronise and as the ``==`` twin)."""
    from gemseo.algos.design_space import DesignSpace

    ds = DesignSpace()
    for v in ref.vars:
        ds.add_variable(v.name, size=v.size, type_=v.type, lower_bound=v.lb.copy(), upper_bound=v.ub.copy())
        if v.value is not None:
            ds.set_current_variable(v.name, v.value.copy())
    if ref.int_norm:
        ds.enable_integer_variables_normalization = True
    return ds


def apply_to_real(ds, step):
    """Execute an edit on the real design space; returns (design space to continue with, original or None)."""
    op = step["op"]
    if op in ("add_variable", "err_add_existing", "err_add_value_outside"):
        _add_variable(ds, step)
    elif op == "remove_variable":
        ds.remove_variable(step["name"])
    elif op in ("rename_variable", "err_rename_unknown"):
        ds.rename_variable(step["old"], step["new"])
    elif op == "filter":
        new = ds.filter(step["keep"], copy=step["copy"])
        return new, (ds if step["copy"] else None)
    elif op in ("filter_dimensions", "err_filter_dimensions"):
        ds.filter_dimensions(step["name"], list(step["dims"]))
    elif op == "extend":
        ds.extend(_other_real(step["other"]))
    elif op == "add_variables_from":
        ds.add_variables_from(_other_real(step["other"]), *step["names"])
    elif op in ("set_lower_bound", "set_upper_bound"):
        is_int = str(ds._variables[step["name"]].type) == INTEGER
        getattr(ds, op)(step["name"], _bound_arg(dec(step["bound"]), step.get("scalar"), is_int))
    elif op in ("set_current_value_array", "err_set_value_wrong_dimension"):
        ds.set_current_value(dec(step["x"]).copy())
    elif op == "set_current_value_dict":
        ds.set_current_value({k: dec(step["values"][k]) for k in step["order"]})
    elif op == "set_current_variable":
        ds.set_current_variable(step["name"], dec(step["value"]))
    elif op == "initialize_missing_current_values":
        ds.initialize_missing_current_values()
    elif op == "toggle_int_norm":
        ds.enable_integer_variables_normalization = step["flag"]
    elif op == "to_scalar_variables":
        return ds.to_scalar_variables(), None
    elif op == "deepcopy":
        return copy.deepcopy(ds), ds
    elif op == "to_complex":
        ds.to_complex()
    else:
        raise AssertionError(op)
    return ds, None


def exception_signature(step, ref_before, exc):
    """Mechanism signature of an exception raised by a valid edit."""
    op = step["op"]
    if op == "filter_dimensions":
        # the kind of exception depends on which other variables happen to exist; the mechanism does not
        var = ref_before.get(step["name"])
        return (f"C02:filter_dimensions:exception:name-length={'1' if len(step['name']) == 1 else '>1'}+"
                f"{'with' if var.value is not None else 'without'}-current-value")
    return f"C02:{op}:exception:{type(exc).__name__}"


# issues whose mechanism does not depend on the edit that exposes them (any edit leaving the current value incomplete)
EDIT_AGNOSTIC_ISSUES = {
    "normalized-current-value-dict-stale-while-current-value-incomplete",
    "normalized-current-value-kept-for-a-variable-without-value",
}


def invariant_signature(where, issue):
    if issue in EDIT_AGNOSTIC_ISSUES:
        where = "any-edit"
    return f"C02:{where}:invariant:{issue}"


# =========================================================================== layer 1: views against the model
def compare_structure(ds, ref, rep=None):
    """Non cache-filling views of the real object against the model; returns [(what, observed, expected)]."""
    out = []
    names = ref.names()

    def chk(what, obs, exp, ok):
        if rep is not None:
            rep.count("view_comparisons")
        if not ok:
            out.append((what, obs, exp))

    vn = ds.variable_names
    chk("variable_names", vn, names, vn == names)
    chk("iteration-order", list(ds), names, list(ds) == names and len(ds) == len(names))
    vs = list(ds.variable_sizes.items())
    chk("variable_sizes", vs, list(ref.sizes().items()), vs == list(ref.sizes().items()))
    vt = [(k, str(v)) for k, v in ds.variable_types.items()]
    chk("variable_types", vt, list(ref.types().items()), vt == list(ref.types().items()))
    chk("dimension", ds.dimension, ref.dimension, ds.dimension == ref.dimension)
    n2i = [(k, v.start, v.stop) for k, v in ds.names_to_indices.items()]
    exp = [(k, a, b) for k, (a, b) in ref.index_ranges().items()]
    chk("names_to_indices", n2i, exp, n2i == exp)
    if out:
        return out
    for v in ref.vars:
        lb, ub = ds.get_lower_bound(v.name), ds.get_upper_bound(v.name)
        chk("get_lower_bound", [v.name, lb], v.lb, _eqv(lb, v.lb))
        chk("get_upper_bound", [v.name, ub], v.ub, _eqv(ub, v.ub))
        chk("get_size/get_type", [ds.get_size(v.name), ds.get_type(v.name)], [v.size, v.type],
            ds.get_size(v.name) == v.size and ds.get_type(v.name) == v.type and v.name in ds)
        pol = ds.normalize.get(v.name)
        chk("normalize-policy", [v.name, pol], ref.policy(v), pol is not None and _eqv(pol, ref.policy(v)))
    chk("normalize-policy-keys", list(ds.normalize), names, list(ds.normalize) == names)
    if names:
        lbs, ubs = ds.get_lower_bounds(), ds.get_upper_bounds()
        chk("get_lower_bounds", lbs, ref.lb_array(), _eqv(lbs, ref.lb_array()))
        chk("get_upper_bounds", ubs, ref.ub_array(), _eqv(ubs, ref.ub_array()))
        idx = ds.get_variables_indexes(names)
        chk("get_variables_indexes", idx, np.arange(ref.dimension), _eqv(idx, np.arange(ref.dimension)))
    cur = {k: v for k, v in ds._current_value.items() if v is not None}
    expd = ref.value_dict()
    chk("current-value-dictionary", cur, expd, set(cur) == set(expd) and all(_eqv(cur[k], expd[k]) for k in expd))
    chk("has_current_value", ds.has_current_value, ref.has_current_value(), bool(ds.has_current_value) == ref.has_current_value())
    return out


class Mismatch(Exception):
    def __init__(self, what, clause, observed=None, expected=None):
        super().__init__(what)
        self.what, self.clause, self.observed, self.expected = what, clause, observed, expected


def _judge_complex(obs, exp, tol):
    """Real part always; imaginary part only when the real code returned a complex result."""
    obs, exp = np.asarray(obs), np.asarray(exp)
    if obs.shape != exp.shape:
        return False
    if np.iscomplexobj(exp) and not np.iscomplexobj(obs):
        return _close(obs, exp.real, tol)
    return _close(obs, exp, tol)


def _dense(a):
    return a.toarray() if hasattr(a, "toarray") else np.asarray(a)


def run_query(ds, ref, step, rep):
    """Execute one query on the real object and judge it; raises Mismatch."""
    q = step["q"]
    names = ref.names()
    rng_ = ref.index_ranges()
    if q == "q_bounds":
        sub = step["names"]
        for api, full in (("get_lower_bounds", ref.lb_array), ("get_upper_bounds", ref.ub_array)):
            f = getattr(ds, api)
            rep.count("oracle_bounds_views", 4)
            if not _eqv(f(), full()):
                raise Mismatch(f"{api}:array", "flat bounds follow the variable order", f(), full())
            if not _eqv(f(sub), full(sub)):
                raise Mismatch(f"{api}:subset", "flat bounds of a subset follow the requested order", f(sub), full(sub))
            d = f(as_dict=True)
            if list(d) != names or any(not _eqv(d[n], full([n])) for n in names):
                raise Mismatch(f"{api}:dict", "bounds as dict", d, {n: full([n]) for n in names})
            d = f(sub, as_dict=True)
            if list(d) != sub or any(not _eqv(d[n], full([n])) for n in sub):
                raise Mismatch(f"{api}:dict-subset", "bounds as dict", d, {n: full([n]) for n in sub})
        return
    if q == "q_current":
        has = ref.has_current_value()
        sub = step["names"]
        rep.count("oracle_current_value_views")
        if not has:
            try:
                got = ds.get_current_value()
            except KeyError:
                rep.count("current_value_missing_keyerror_seen")
            else:
                raise Mismatch("get_current_value:array:no-KeyError-without-current-value", "current value as array", got, "KeyError")
        else:
            x = ref.value_array()
            got = ds.get_current_value()
            if not _eqv(got, x):
                raise Mismatch("get_current_value:array", "current value as array follows the variable order", got, x)
            got = ds.get_current_value(complex_to_real=True)
            if not _eqv(got, x.real):
                raise Mismatch("get_current_value:array:complex_to_real", "current value as array", got, x.real)
            xn, tol = ref.normalize(x), ref.map_tolerance(x) + TINY
            got = ds.get_current_value(normalize=True)
            rep.count("oracle_normalized_current_value")
            if not _judge_complex(got, xn, tol):
                raise Mismatch("get_current_value:normalized:array", "normalized current value", got, xn)
            got = ds.get_current_value(as_dict=True, normalize=True)
            if set(got) != set(names) or any(not _judge_complex(got[n], xn[rng_[n][0]:rng_[n][1]], tol[rng_[n][0]:rng_[n][1]]) for n in names):
                raise Mismatch("get_current_value:normalized:dict", "normalized current value as dict", got, xn)
        d = {k: v for k, v in ds.get_current_value(as_dict=True).items() if v is not None}
        expd = ref.value_dict()
        if set(d) != set(expd) or any(not _eqv(d[k], expd[k]) for k in expd):
            raise Mismatch("get_current_value:dict", "current value as dict", d, expd)
        if not ref.missing_values(sub):
            x = ref.value_array(sub)
            got = ds.get_current_value(sub)
            if not _eqv(got, x):
                raise Mismatch("get_current_value:subset", "current value of a subset follows the requested order", got, x)
            got = ds.get_current_value(sub, as_dict=True)
            if set(got) != set(sub) or any(not _eqv(got[n], ref.get(n).value) for n in sub):
                raise Mismatch("get_current_value:subset-dict", "current value of a subset as dict", got, sub)
            exp_parts, tol_parts = zip(*[_norm_one(ref, ref.get(n), ref.get(n).value) for n in sub])
            exp, tol = np.concatenate(exp_parts), np.concatenate(tol_parts)
            try:
                got = ds.get_current_value(sub, normalize=True)
            except KeyError:
                if has:
                    raise
                rep.count("normalized_subset_unavailable_without_full_value")
            else:
                rep.count("oracle_normalized_current_value")
                if not _judge_complex(got, exp, tol):
                    raise Mismatch("get_current_value:normalized:subset" + ("" if has else ":current-value-incomplete"),
                                   "normalized current value of a subset", got, exp)
        return
    if q == "q_indexes":
        rep.count("oracle_indexes")
        got = ds.get_variables_indexes(step["names"], step["order"])
        exp = ref.indexes(step["names"], step["order"])
        if not _eqv(got, exp):
            raise Mismatch("get_variables_indexes", "index ranges follow the variable order", got, exp)
        return
    if q == "q_normalize":
        x = dec(step["x"])
        x0 = x.copy()
        exp = ref.normalize(x, step["minus_lb"] or step["api"] == "transform_vect")
        tol = ref.map_tolerance(x, minus_lb=True) + TINY
        kw = {}
        if step["out"]:
            kw["out"] = np.full(x.shape, 7.0)
        if step["api"] == "normalize_vect":
            got = ds.normalize_vect(x, minus_lb=step["minus_lb"], **kw)
        else:
            got = ds.transform_vect(x, **kw)
        rep.count("oracle_normalize")
        if x.ndim == 2:
            rep.count("oracle_batches")
        if not _judge_complex(got, exp, tol):
            raise Mismatch(f"{step['api']}:value" + ("" if step["minus_lb"] or step["api"] == "transform_vect" else ":minus_lb=False"),
                           "normalization is the affine map on bounded normalizable components, identity elsewhere",
                           got, exp)
        if np.iscomplexobj(x) and not np.iscomplexobj(got):
            rep.observe("complex vector normalized to a real one (the dtype follows the current value)", None)
        if not _eqv(x, x0):
            rep.observe("normalize_vect modified its input", step)
        return
    if q == "q_unnormalize":
        u = dec(step["u"])
        mlb = step["minus_lb"] or step["api"] == "untransform_vect"
        exp = ref.unnormalize(u, mlb, round_ints=False)
        tol = ref.map_tolerance(u, unnormalize=True, minus_lb=True) + TINY
        if step["api"] == "unnormalize_vect":
            got = ds.unnormalize_vect(u, minus_lb=step["minus_lb"], no_check=True)
        else:
            got = ds.untransform_vect(u, no_check=True)
        rep.count("oracle_unnormalize")
        got = np.asarray(got)
        if got.shape != exp.shape:
            raise Mismatch(f"{step['api']}:shape", "unnormalization keeps the shape", got.shape, exp.shape)
        im = ref.int_mask()
        if not _judge_complex(got[..., ~im], exp[..., ~im], tol[..., ~im]):
            raise Mismatch(f"{step['api']}:value", "unnormalization is the inverse affine map", got, exp)
        gi, ei = np.real(got[..., im]), np.real(exp[..., im])
        ok = (np.abs(gi - ei) <= tol[..., im]) | ((gi == np.round(gi)) & (np.abs(gi - ei) <= 0.5 + tol[..., im]))
        if im.any():
            rep.count("oracle_unnormalize_integer_components")
        if not np.all(ok):
            raise Mismatch(f"{step['api']}:value:integer-components", "inverse map up to rounding of integer components", got, exp)
        return
    if q == "q_roundtrip":
        u = dec(step["u"])
        got = ds.normalize_vect(ds.unnormalize_vect(u, no_check=True))
        keep = ref.norm_mask() & ~ref.int_mask() & (ref.lb_array() != ref.ub_array())  # lb == ub: not invertible
        rep.count("oracle_roundtrip")
        if got.shape != u.shape or not _close(np.asarray(got)[..., keep], u[..., keep], ref.roundtrip_tolerance()[keep]):
            raise Mismatch("normalize(unnormalize(u))", "normalize o unnormalize = id on [0,1]", got, u)
        x = dec(step["x"])
        got = ds.unnormalize_vect(ds.normalize_vect(x), no_check=True)
        lb, ub = ref.lb_array(), ref.ub_array()
        m = ref.norm_mask()
        tol = np.zeros(x.shape)
        tol[..., m] = 8 * EPS * (np.abs(x[..., m]) + np.abs(lb[m]) + np.abs(ub[m]))
        if got.shape != x.shape or not _close(got, x, tol):
            raise Mismatch("unnormalize(normalize(x))", "unnormalize o normalize = id inside the bounds", got, x)
        return
    if q == "q_grad":
        g = dec(step["g"])
        form = step["form"]
        lb, ub = ref.lb_array(), ref.ub_array()
        m = ref.norm_mask()
        judged = ~(m & (lb == ub))
        with np.errstate(all="ignore"):
            span = np.where(m, ub - lb, 1.0)
        span = np.where(judged, span, 1.0)
        arg = g
        if form == "csr":
            from scipy.sparse import csr_array

            arg = csr_array(g)
        for api, exp in (("normalize_grad", g * span), ("unnormalize_grad", g / span)):
            try:
                got = _dense(getattr(ds, api)(arg.copy()))
            except Exception as e:  # noqa: BLE001
                if form == "csr":
                    rep.observe(f"{api} raised on a CSR matrix", f"{type(e).__name__}: {e}")
                    continue
                raise
            rep.count("oracle_gradients")
            if form == "csr":
                rep.count("oracle_gradients_sparse")
            tol = 4 * EPS * np.abs(exp) + TINY
            if got.shape != exp.shape:
                raise Mismatch(f"{api}:shape", "gradient scaling keeps the shape", got.shape, exp.shape)
            bad = ~((got == exp) | (np.abs(got - exp) <= tol)) & judged
            if np.iscomplexobj(exp) and not np.iscomplexobj(got):
                bad = ~((got == exp.real) | (np.abs(got - exp.real) <= tol)) & judged
            if bad.any():
                im = ref.int_mask()
                only_int = not (bad & ~im).any()
                sel = np.broadcast_to(im & judged, got.shape)
                rounded = only_int and bool(np.all(np.real(got)[sel] == np.round(np.real(exp))[sel]))
                what = f"{api}:integer-components-rounded" if rounded else f"{api}:value"
                raise Mismatch(what + (":csr" if form == "csr" else ""),
                               "gradient (un)normalization is the matching linear scaling", got, exp)
        return
    if q == "q_round":
        x = dec(step["x"])
        got = ds.round_vect(x)
        rep.count("oracle_round")
        if not _eqv(got, ref.round(x)):
            raise Mismatch("round_vect", "rounding of integer components only", got, ref.round(x))
        return
    if q == "q_convert":
        x = dec(step["x"])
        d = ds.convert_array_to_dict(x)
        rep.count("oracle_convert")
        if list(d) != names or any(not _eqv(d[n], x[..., rng_[n][0]:rng_[n][1]]) for n in names):
            raise Mismatch("convert_array_to_dict", "array to dict follows the variable order", d, x)
        if x.ndim == 1:
            back = ds.convert_dict_to_array(d)
            if not _eqv(back, x):
                raise Mismatch("convert_dict_to_array", "dict/array conversions are lossless", back, x)
            rev = names[::-1]
            back = ds.convert_dict_to_array(d, rev)
            exp = np.concatenate([x[rng_[n][0]:rng_[n][1]] for n in rev])
            if not _eqv(back, exp):
                raise Mismatch("convert_dict_to_array:subset", "dict to array follows the requested order", back, exp)
        return
    if q == "q_member":
        x = dec(step["x"])
        path = step["path"]
        outside = bool(ref.outside(x).any())
        band = np.abs(x - ref.lb_array()) <= 4 * BOUND_TOL * (1 + np.abs(x))
        band |= np.abs(x - ref.ub_array()) <= 4 * BOUND_TOL * (1 + np.abs(x))
        if (band & (x != ref.lb_array()) & (x != ref.ub_array())).any():
            rep.count("membership_points_in_tolerance_band_skipped")
            return
        try:
            if path == "array":
                ds.check_membership(x.copy())
            elif path == "dict":
                ds.check_membership({n: x[rng_[n][0]:rng_[n][1]].copy() for n in names})
            else:
                order = step["names"]
                ds.check_membership(np.concatenate([x[rng_[n][0]:rng_[n][1]] for n in order]), order)
            raised = None
        except ValueError as e:
            raised = e
        except IndexError as e:  # only legitimate as a symptom of cached bounds of another dimension (classified below)
            raised = e
            outside = not outside if path == "array" else outside
        rep.count("oracle_membership")
        rep.count("oracle_membership_outside" if outside else "oracle_membership_inside")
        if (raised is not None) != outside:
            lbc, ubc = getattr(ds, P + "lower_bounds_array"), getattr(ds, P + "upper_bounds_array")
            stale = (path == "array" and not getattr(ds, P + "norm_data_is_computed") and lbc is not None and ubc is not None
                     and not (_eqv(lbc, ref.lb_array()) and _eqv(ubc, ref.ub_array())))
            what = "array-path:stale-cached-bounds" if stale else f"{path}-path:verdict"
            raise Mismatch(f"check_membership:{what}", "membership raises iff a component is outside [lb-tol, ub+tol]",
                           {"raised": None if raised is None else str(raised)[:300], "cached_lb": lbc, "cached_ub": ubc},
                           {"outside": outside, "lb": ref.lb_array(), "ub": ref.ub_array()})
        return
    if q == "q_project":
        x = dec(step["x"])
        if step["normalized"]:
            if not ref.norm_mask().all():
                rep.count("projection_normalized_skipped_not_all_normalized")
                return
            exp = np.clip(x, 0.0, 1.0)
        else:
            exp = ref.project(x)
        got = ds.project_into_bounds(x.copy(), normalized=step["normalized"])
        rep.count("oracle_projection")
        if not _eqv(got, exp):
            raise Mismatch("project_into_bounds" + (":normalized" if step["normalized"] else ""),
                           "projection is the component-wise clip onto the bounds", got, exp)
        return
    if q == "q_eq":
        twin = build_real(ref)
        rep.count("oracle_equality")
        if not (ds == twin and twin == ds):
            raise Mismatch("__eq__:rebuilt-copy-not-equal", "a design space equals its rebuilt copy", False, True)
        other = ref.copy()
        v = other.vars[0]
        if np.isfinite(v.ub[0]):
            v.ub[0] += 1.0
        else:
            v.ub[0] = 1e6 if v.value is None else float(np.real(v.value[0])) + 1e6
        if ds == build_real(other):
            raise Mismatch("__eq__:different-bound-equal", "design spaces with different bounds differ", True, False)
        return
    raise AssertionError(q)


API_OF_QUERY = {"q_bounds": "get_bounds", "q_current": "get_current_value", "q_indexes": "get_variables_indexes",
                "q_normalize": "normalize_vect", "q_unnormalize": "unnormalize_vect", "q_roundtrip": "roundtrip",
                "q_grad": "gradients", "q_round": "round_vect", "q_convert": "convert", "q_member": "check_membership",
                "q_project": "project_into_bounds", "q_eq": "__eq__"}
FILLING = {"q_current", "q_normalize", "q_unnormalize", "q_roundtrip", "q_grad", "q_round", "q_member", "q_project"}
EXPECTED_ERRORS = {"ValueError": ValueError, "KeyError": KeyError}


# =========================================================================== a whole history
def run_history(case, rep, *, count=True):
    from gemseo.algos.design_space import DesignSpace

    install_invariant()
    steps = case["steps"]
    ref, ds = RefSpace(), DesignSpace()
    filled = False
    edit_after_fill = False
    last_edit = "-"
    kinds = []
    n_viol = 0

    def violation(i, sig, clause, observed, expected, msg=""):
        nonlocal ds, filled, n_viol
        n_viol += 1
        rep.violation(sig, clause, {"kind": "history", "steps": steps[: i + 1]}, observed=observed, expected=expected,
                      msg=msg or f"step {i}: {json.dumps(steps[i])[:300]} (last edit: {last_edit})")
        ds = build_real(ref)  # resynchronise so that the defect does not cascade
        filled = False
        rep.count("resynchronisations_after_violation")

    def invariant_issues():
        if os.environ.get("C02_DISABLE_INVARIANT"):  # self-validation only: shows what the model layer catches alone
            return []
        rep.count("invariant_evaluations")
        return evaluate_invariant(ds)

    for i, step in enumerate(steps):
        if "op" in step:
            op = step["op"]
            kinds.append(op)
            last_edit = op
            if filled:
                edit_after_fill = True
                rep.count("edits_on_filled_caches")
            ref_before = ref.copy()
            expected_error = None
            try:
                ref = gh.apply_to_ref(ref, step)
            except RefError as e:
                expected_error = e
                ref = ref_before
            rep.count("edits")
            rep.count(f"edit:{op}")
            original = None
            try:
                ds, original = apply_to_real(ds, step)
                raised = None
            except CacheCoherenceError:
                raise
            except Exception as e:  # noqa: BLE001  judged just below
                raised = e
            if expected_error is not None:
                rep.count("documented_errors_expected")
                if raised is None:
                    violation(i, f"C02:{op}:no-exception-for-documented-error", "documented errors are raised", None,
                              expected_error.kind)
                    continue
                if not isinstance(raised, EXPECTED_ERRORS[expected_error.kind]):
                    violation(i, f"C02:{op}:exception:{type(raised).__name__}:instead-of-{expected_error.kind}",
                              "documented errors are raised", f"{type(raised).__name__}: {raised}", expected_error.kind)
                    continue
            elif raised is not None:
                violation(i, exception_signature(step, ref_before, raised),
                          "a valid edit succeeds", f"{type(raised).__name__}: {str(raised)[:400]}", "no exception")
                continue
            judge_ref, moved = ref, False
            if op == "rename_variable" and ds.variable_names != ref.names():
                order = [n for n in ref.names() if n != step["new"]] + [step["new"]]
                if ds.variable_names == order:
                    # Moving the renamed variable to the end is allowed by the statement provided every view follows
                    # the new order: this step is judged against the model in that order.
                    moved = True
                    judge_ref = ref.copy()
                    v = judge_ref.get(step["new"])
                    judge_ref.vars.remove(v)
                    judge_ref.vars.append(v)
                    rep.observe("rename_variable moves the renamed variable to the end of the variable order",
                                {"old": step["old"], "new": step["new"]})
            issues = invariant_issues()
            if issues:
                violation(i, invariant_signature(op, issues[0][0]), "cache-coherence invariant after a public method",
                          {"issues": issues}, "no issue")
                continue
            diffs = compare_structure(ds, judge_ref, rep)
            if diffs:
                violation(i, f"C02:{op}:views:{diffs[0][0]}", "views agree with the reference model after the edit",
                          {"what": [d[0] for d in diffs], "observed": diffs[0][1]}, diffs[0][2])
                continue
            if moved:
                # consistent move-to-end: legal; the rest of the history was generated for the in-place order
                ds = build_real(ref)
                filled = False
                rep.count("resynchronisations_after_consistent_reordering")
            if original is not None:
                if op == "deepcopy":
                    rep.count("oracle_equality")
                    if not (ds == original):
                        violation(i, "C02:deepcopy:copy-not-equal", "a deep copy equals the original", False, True)
                        continue
                else:
                    d0 = compare_structure(original, ref_before)
                    if d0:
                        violation(i, f"C02:filter:copy=True-modified-the-original:{d0[0][0]}", "filter(copy=True) leaves the original",
                                  d0[0][1], d0[0][2])
                        continue
        else:
            q = step["q"]
            kinds.append(q)
            if not ref.dimension:
                continue
            rep.count("queries")
            rep.count(f"query:{q}")
            try:
                run_query(ds, ref, step, rep)
            except Mismatch as m:
                violation(i, f"C02:{m.what}", m.clause, m.observed, m.expected)
                continue
            except CacheCoherenceError:
                raise
            except Exception as e:  # noqa: BLE001  a valid query must answer
                violation(i, f"C02:{API_OF_QUERY[q]}:exception:{type(e).__name__}", "a valid query returns",
                          f"{type(e).__name__}: {str(e)[:400]}", "a value")
                continue
            if q in FILLING:
                filled = True
            issues = invariant_issues()
            if issues:
                violation(i, f"C02:{API_OF_QUERY[q]}:invariant-after-query:{issues[0][0]}", "cache-coherence invariant after a query",
                          {"issues": issues}, "no issue")
                continue
    if count:
        rep.case((tuple(kinds), ref.bound_layout()), nontrivial=edit_after_fill)
        rep.count("histories")
        rep.count("icontract_condition_invocations", MON.invocations)
        MON.invocations = 0
    return n_viol


# =========================================================================== directed cases
def _var(name, size, lb, ub, value=None, type_="float"):
    return {"op": "add_variable", "name": name, "size": size, "type": type_, "lb": gh.enc(np.full(size, lb, dtype=float)),
            "ub": gh.enc(np.full(size, ub, dtype=float)), "value": None if value is None else gh.enc(np.full(size, value, dtype=float)),
            "scalar_lb": True, "scalar_ub": True, "scalar_value": False}


def directed_cases():
    """Fixed histories for the corners named in DESIGN.md sections 3 and 4."""
    inf = float("inf")
    qn = {"q": "q_normalize", "x": [0.5, 15.0, 15.0], "minus_lb": True, "api": "normalize_vect", "out": False}
    out = []
    # rename after the caches were filled (non-last and last variable)
    out.append([_var("a", 1, 0.0, 1.0, 0.5), _var("b", 2, 10.0, 20.0, 15.0), qn, {"q": "q_current", "names": ["a"]},
                {"op": "rename_variable", "old": "a", "new": "aa"}, qn, {"q": "q_current", "names": ["aa", "b"]},
                {"q": "q_indexes", "names": ["aa"], "order": True}, {"q": "q_bounds", "names": ["b"], "order": True}])
    out.append([_var("a", 1, 0.0, 1.0, 0.5), _var("b", 2, 10.0, 20.0, 15.0), {"q": "q_current", "names": ["b"]},
                {"op": "rename_variable", "old": "b", "new": "bb"}, {"q": "q_current", "names": ["bb"]}])
    out.append([_var("a", 1, 0.0, 1.0), _var("b", 2, 10.0, 20.0), {"op": "rename_variable", "old": "a", "new": "aa"},
                {"op": "set_current_value_array", "x": [0.5, 12.0, 13.0]}, qn, {"q": "q_current", "names": ["b", "aa"]}])
    # filter_dimensions with one-letter / longer names, with / without current value, other variables around
    for name in ("x", "xy"):
        for value in (0.5, None):
            for others in (False, True):
                steps = [_var("z", 1, -1.0, 1.0, 0.0)] if others else []
                steps += [_var(name, 3, 0.0, 1.0, value)]
                if others:
                    steps += [_var("y", 2, 0.0, 4.0, 1.0, "integer")]
                steps += [{"q": "q_current", "names": [name]}, {"op": "filter_dimensions", "name": name, "dims": [0, 2]},
                          {"q": "q_current", "names": [name]}, {"q": "q_indexes", "names": [name], "order": True}]
                out.append(steps)
    # membership after edits of the bounds / of the variables
    def mem(x, o):
        return {"q": "q_member", "x": x, "path": "array", "outside": o}

    out.append([_var("x", 1, 0.0, 1.0, 0.5), mem([0.5], False), {"op": "set_upper_bound", "name": "x", "bound": [2.0], "scalar": True},
                mem([1.5], False), mem([2.5], True), {"op": "set_lower_bound", "name": "x", "bound": [-3.0], "scalar": False},
                mem([-2.0], False), _var("y", 1, 0.0, 1.0, 0.5), mem([1.5, 0.5], False), mem([1.5, 1.5], True),
                {"op": "remove_variable", "name": "x"}, mem([0.5], False), mem([1.5], True),
                {"q": "q_project", "x": [5.0], "normalized": False}])
    out.append([_var("x", 2, 0.0, 1.0, 0.5), mem([0.5, 0.5], False), {"op": "filter_dimensions", "name": "x", "dims": [1]},
                mem([0.5], False), mem([1.5], True)])
    # normalized current value after a change of the bounds / of the integer switch / of one variable
    out.append([_var("x", 1, 0.0, 1.0, 0.5), {"q": "q_current", "names": ["x"]},
                {"op": "set_upper_bound", "name": "x", "bound": [2.0], "scalar": True}, {"q": "q_current", "names": ["x"]}])
    out.append([_var("n", 1, 0.0, 10.0, 5.0, "integer"), {"q": "q_current", "names": ["n"]}, {"op": "toggle_int_norm", "flag": True},
                {"q": "q_current", "names": ["n"]}, {"q": "q_unnormalize", "u": [0.26], "minus_lb": True, "api": "unnormalize_vect"},
                {"op": "toggle_int_norm", "flag": False}, {"q": "q_current", "names": ["n"]}])
    out.append([_var("x", 1, 0.0, 1.0, 0.5), {"q": "q_current", "names": ["x"]}, _var("z", 1, -inf, inf),
                {"op": "set_current_variable", "name": "x", "value": [0.25]}, {"q": "q_current", "names": ["x"]}])
    # gradients with integer variables, equal bounds, one-sided bounds
    def grad(g, form="1d"):
        return {"q": "q_grad", "g": g, "form": form}

    out.append([_var("n", 1, 0.0, 10.0, 5.0, "integer"), _var("x", 1, 0.0, 2.0, 1.0), grad([0.4, 0.4]),
                {"op": "toggle_int_norm", "flag": True}, grad([0.44, 0.4]), grad([[0.44, 0.4], [0.0, 1.3]], "csr")])
    out.append([_var("x", 2, 1.0, 1.0, 1.0), _var("y", 1, 0.0, inf, 1.0), _var("w", 1, -inf, 3.0), _var("v", 1, -2.0, 6.0, 0.0),
                qn | {"x": [1.0, 1.0, 5.0, -4.0, 2.0]}, {"q": "q_unnormalize", "u": [0.0, 0.0, 5.0, -4.0, 0.5], "minus_lb": True, "api": "unnormalize_vect"},
                grad([1.0, 2.0, 3.0, 4.0, 5.0]), {"q": "q_roundtrip", "u": [0.0, 0.0, 0.3, 0.3, 0.3], "x": [1.0, 1.0, 5.0, -4.0, 2.0]},
                {"q": "q_project", "x": [9.0, -9.0, -9.0, 9.0, 9.0], "normalized": False},
                mem([1.0, 1.0, 0.0, 3.0, 6.0], False), mem([1.0, 1.5, 0.0, 3.0, 6.0], True), {"q": "q_eq"}])
    # removal / filtering shifts the indices of the following variables
    out.append([_var("x", 2, 0.0, 1.0, 0.5), _var("xy", 1, -1.0, 1.0, 0.0), _var("y", 3, 0.0, 4.0, 2.0, "integer"), qn | {"x": [0.5] * 6},
                {"op": "remove_variable", "name": "xy"}, {"q": "q_indexes", "names": ["y", "x"], "order": False}, qn | {"x": [0.5] * 5},
                {"op": "filter", "keep": "y", "copy": False}, {"q": "q_indexes", "names": ["y"], "order": True}, qn | {"x": [0.5] * 3},
                {"op": "to_scalar_variables"}, {"q": "q_current", "names": ["y[1]"]}, {"op": "deepcopy"}, {"q": "q_eq"}])
    return [{"kind": "history", "steps": s} for s in out]


# =========================================================================== the repository's own tests under the invariant
SUITE_PLUGIN = '''
import json, os, sys
sys.path.insert(0, os.environ["C02_VERIF_ROOT"]); sys.path.insert(0, os.environ["C02_VERIF_DEPS"])
from checks import c02_design_space as c02
c02.MON.defer = False
c02.install_invariant()
def pytest_sessionfinish(session, exitstatus):
    kinds = {}
    for cls, issues, test in c02.MON.log:
        for kind, detail in issues:
            e = kinds.setdefault(cls + ":" + kind, {"count": 0, "tests": []})
            e["count"] += 1
            test = test.split(" ")[0].split("/")[-1]
            if test not in e["tests"] and len(e["tests"]) < 6:
                e["tests"].append(test)
    with open(os.environ["C02_VERIF_OUT"], "w") as f:
        json.dump({"invocations": c02.MON.invocations, "evaluations": c02.MON.evaluations, "issues": kinds}, f)
'''


def run_suite_under_invariant(spec, rep):
    """Run tests/algos/test_design_space.py and test_parameter_space.py with the invariant attached (observational)."""
    from vlib import bootstrap

    scratch = Path(spec["scratch"])
    (scratch / "c02_suite_plugin.py").write_text(SUITE_PLUGIN)
    out = scratch / "suite_out.json"
    env = dict(os.environ, C02_VERIF_ROOT=str(bootstrap.ROOT), C02_VERIF_DEPS=str(bootstrap.DEPS), C02_VERIF_OUT=str(out),
               PYTHONPATH=os.pathsep.join([bootstrap.repo_src(), str(scratch)]), PYTHONDONTWRITEBYTECODE="1")
    tests = ["/repo/tests/algos/test_design_space.py", "/repo/tests/algos/test_parameter_space.py"]
    cmd = [bootstrap.PY, "-m", "pytest", "-q", "-x", "--no-header", "-p", "no:cacheprovider", "-p", "c02_suite_plugin",
           "--rootdir", str(scratch), "-c", os.devnull, f"--basetemp={scratch / 'bt'}", *tests]
    try:
        res = subprocess.run(cmd, env=env, cwd=str(scratch), capture_output=True, text=True, timeout=900)
    except subprocess.TimeoutExpired:
        rep.observe("suite-under-invariant: timeout", None)
        return
    if not out.exists():
        rep.observe("suite-under-invariant: no output", (res.stdout + res.stderr)[-600:])
        return
    data = json.loads(out.read_text())
    rep.count("suite_invariant_evaluations", data["evaluations"])
    rep.count("suite_icontract_condition_invocations", data["invocations"])
    rep.observe("suite-under-invariant: pytest summary", (res.stdout.strip().splitlines() or ["?"])[-1])
    for kind, n in data["issues"].items():
        rep.observe(f"suite-under-invariant: {kind}", n)


# =========================================================================== entry points
def run_shard(spec, rep):
    if spec.get("suite"):
        run_suite_under_invariant(spec, rep)
        return
    rng = np.random.default_rng(spec["seed"])
    if spec.get("shard", 0) == 0:
        for case in directed_cases():
            run_history(case, rep)
            rep.count("directed_cases")
    for i in range(spec["n_histories"]):
        if rep.time_left() < 0:
            rep.count("stopped_on_time_budget")
            break
        case = gh.gen_history(rng, int(rng.integers(10, 41)))
        n = run_history(case, rep)
        if i < 2:
            rep.sample({"n_steps": len(case["steps"]), "violations_in_history": n,
                        "first_steps": case["steps"][:6], "note": "history: edits + queries judged by RefSpace and the invariant"})
    rep.count("invariant_evaluations_total", MON.evaluations)


def replay(case, rep):
    run_history(case, rep)
