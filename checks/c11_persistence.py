"""C11 — saved histories, design spaces, problems and caches reload identically.

Monitors (DESIGN.md section 3, C11):

* (M3/M4) a generated store/export state machine over ``Database`` with several append targets (files and nodes of one file): after every export the file is read
  back with ``Database.from_hdf`` and compared with an independent dictionary model of the history; at the
  end the incrementally appended file(s) are compared with a single full export;
* design-space files (HDF5 exact, csv/txt to the 16 printed digits), root and nested nodes;
* ``OptimizationProblem.to_hdf/from_hdf`` after a short driver run (root node, nested nodes, two problems in one
  file, incremental backup through a database listener);
* ``HDF5Cache`` re-opened by a second instance on the same file/node and by an instance on a copy of the file;
* (M7) census of open HDF5 identifiers (``h5py.h5f.get_obj_ids``) and of ``/proc/self/fd`` after every
  export / import;
* (M8) anchors.

Every file is created under ``spec["scratch"]``.
"""

from __future__ import annotations

import copy
import gc
import os
import shutil

import numpy as np

from vlib.harness import Reporter
from vlib.harness import subseed

PID = "C11"
LEVEL = "exploration"
RULE = (
    "seeded generator over (a) database histories: sequences of 5-40 operations among store(new point, outputs), "
    "store(existing point, new output names), store(point, {}), export(append=True) to one of 1-4 append targets "
    "drawn from {file A root, file A node n1, file A node grp/sub, file B root, file B node n2} in any interleaving "
    "(several files and several nodes of one file), export(append=False) to a further file, reload-from-a-target-"
    "and-continue, with value kinds {float, float64, int, size-1 array, vector, matrix, list[int], gradients "
    "'@name'}, float or integer points, file initially absent / holding an earlier database (from_hdf or "
    "update_from_hdf) / holding another node, default or explicit input space; every target is reloaded after each "
    "of its appends and, at the end, compared with the model and with a single final export; "
    "(b) design spaces (multi-character "
    "names, mixed types, +-inf bounds, missing values) written to .h5/.hdf5/.hdf/.csv/.txt and to nested nodes; "
    "(c) optimization problems (objective, 0-3 constraints, 0-2 observables, min/max) saved after SLSQP / LHS / "
    "CustomDOE runs at root or nested nodes or through an incremental backup listener; (d) HDF5Cache histories "
    "re-opened by a second instance. A case is distinct by its shape tuple (operation kinds sequence, value kinds, "
    "node, initial state, formats), never by its random numbers; non-trivial when at least one export happens "
    "after at least one store"
)
ASSUMPTIONS = [
    "the reference model of a database is a plain list of (point, dict) built from the generated operations; "
    "it never reads gemseo's Database",
    "values are compared after numpy.atleast_1d(...).astype(float) (representation normalisation allowed by the "
    "statement); shapes of arrays with more than one element must match",
    "text formats: values compared to a relative 1e-15 (the 16 significant digits that are printed), structure exactly",
    "re-storing an existing output name with a different value (overwrite) is outside the statement and is only "
    "recorded as an observation; constraint order after OptimizationProblem.from_hdf is only observed",
    "handle census: h5py/HDF5 identifiers that disappear after gc.collect() are observations, identifiers that "
    "survive it are violations",
]
ANCHORS = [
    "gemseo.algos._hdf_database:HDFDatabase.to_file",
    "gemseo.algos._hdf_database:HDFDatabase.update_from_file",
    "gemseo.algos._hdf_database:HDFDatabase.add_pending_array",
    "gemseo.algos._hdf_database:HDFDatabase.__append_hdf_output",
    "gemseo.algos._hdf_database:HDFDatabase.__get_missing_hdf_output_dataset",
    "gemseo.algos._hdf_database:HDFDatabase.__add_hdf_output_dataset",
    "gemseo.algos._hdf_database:HDFDatabase.__add_hdf_name_output",
    "gemseo.algos._hdf_database:HDFDatabase.__add_hdf_scalar_output",
    "gemseo.algos._hdf_database:HDFDatabase.__add_hdf_vector_output",
    "gemseo.algos.database:Database.to_hdf",
    "gemseo.algos.database:Database.from_hdf",
    "gemseo.algos.database:Database.update_from_hdf",
    "gemseo.algos.design_space:DesignSpace.to_hdf",
    "gemseo.algos.design_space:DesignSpace.from_hdf",
    "gemseo.algos.design_space:DesignSpace.to_csv",
    "gemseo.algos.design_space:DesignSpace.from_csv",
    "gemseo.algos.design_space:DesignSpace.to_file",
    "gemseo.algos.design_space:DesignSpace.from_file",
    "gemseo.algos.optimization_problem:OptimizationProblem.to_hdf",
    "gemseo.algos.optimization_problem:OptimizationProblem.from_hdf",
    "gemseo.utils.hdf5:store_attr_h5data",
    "gemseo.utils.hdf5:convert_h5_group_to_dict",
    "gemseo.caches._hdf5_file_singleton:HDF5FileSingleton.read_hashes",
    "gemseo.caches._hdf5_file_singleton:HDF5FileSingleton.write_data",
    "gemseo.caches._hdf5_file_singleton:HDF5FileSingleton.read_data",
    "gemseo.caches.hdf5_cache:HDF5Cache._read_hashes",
]
MIN_COUNTERS = {  # about half of what seed 0 observes
    "quick": {"db_histories": 195, "db_exports_append": 1800, "db_exports_full": 260,
              "db_appends_to_second_node_of_same_file": 420, "db_appends_to_second_file": 600,
              "db_histories_with_several_append_targets": 115,
              "db_reloads_compared": 2000, "db_appends_with_new_outputs_at_existing_points": 560,
              "db_final_equivalence_checked": 350, "db_continued_from_reload": 130, "db_input_space_compared": 600,
              "db_other_node_checked": 45, "handle_census": 5700, "ds_roundtrips_hdf": 130, "ds_roundtrips_text": 130,
              "ds_roundtrips_hdf_node": 85, "problem_roundtrips": 55, "problem_solutions_compared": 35,
              "problem_tolerances_compared": 55, "problem_function_descriptions_compared": 195,
              "problem_backup_exports": 300, "cache_instances_compared": 96, "cache_continued_after_reopen": 32,
              "directed_cases": 25},
    "thorough": {"db_histories": 3600, "db_exports_append": 30000, "db_exports_full": 4500,
                 "db_appends_to_second_node_of_same_file": 6000, "db_appends_to_second_file": 9000,
                 "db_histories_with_several_append_targets": 1800,
                 "db_reloads_compared": 33000, "db_appends_with_new_outputs_at_existing_points": 9500,
                 "db_final_equivalence_checked": 5500, "db_continued_from_reload": 2000,
                 "db_input_space_compared": 9500, "db_other_node_checked": 700,
                 "handle_census": 90000, "ds_roundtrips_hdf": 1200, "ds_roundtrips_text": 1200,
                 "ds_roundtrips_hdf_node": 800, "problem_roundtrips": 550, "problem_solutions_compared": 350,
                 "problem_tolerances_compared": 550, "problem_function_descriptions_compared": 1900,
                 "problem_backup_exports": 3000, "cache_instances_compared": 960, "cache_continued_after_reopen": 320,
                 "directed_cases": 25},
}
# every SciPy sparse container must have been written, re-opened and compared by dense value (half of seed 0)
for _tier, _each, _sq, _rect in (("quick", 45, 180, 200), ("thorough", 800, 3000, 3500)):
    MIN_COUNTERS[_tier].update({f"cache_reopened_jac_blocks_{_f}_{_fl}": _each
                                for _f in ("csr", "csc", "coo", "lil", "dia", "bsr", "dok")
                                for _fl in ("array", "matrix")})
    MIN_COUNTERS[_tier].update(cache_reopened_jac_blocks_dense=_each, cache_sparse_blocks_square=_sq,
                               cache_sparse_blocks_rectangular=_rect)
SHARD_TIMEOUT = {"quick": 400, "thorough": 3000}

SIZES = {
    "quick": {"n_db": 70, "n_ds": 40, "n_pb": 14, "n_cache": 10, "budget_s": 300},
    "thorough": {"n_db": 2200, "n_ds": 700, "n_pb": 260, "n_cache": 180, "budget_s": 2400},
}


def shards(tier, seed):
    return [dict(SIZES[tier], seed=subseed(seed, PID, i)) for i in range(16)]


# =========================================================================== handle census (M7)
def census(rep, scratch, where, case, counted=True):
    """No HDF5 identifier may be open and no descriptor may point into the scratch directory."""
    import h5py

    def look():
        ids = list(h5py.h5f.get_obj_ids(h5py.h5f.OBJ_ALL, h5py.h5f.OBJ_FILE | h5py.h5f.OBJ_GROUP | h5py.h5f.OBJ_DATASET
                                        | h5py.h5f.OBJ_ATTR))  # datatype ids are h5py's own module-level constants
        fds = []
        for fd in os.listdir("/proc/self/fd"):
            try:
                target = os.readlink(f"/proc/self/fd/{fd}")
            except OSError:
                continue
            if target.startswith(scratch) and os.path.isfile(target):
                fds.append(os.path.basename(target))
        return ids, fds

    if counted:
        rep.count("handle_census")
    ids, fds = look()
    if not ids and not fds:
        return True
    gc.collect()
    ids2, fds2 = look()
    if not ids2 and not fds2:
        rep.observe("hdf5-identifiers-released-only-by-gc", {"where": where, "n_ids": len(ids), "fds": fds})
        return True
    rep.violation(f"C11:open-handle-after:{where}", "no HDF5 handle stays open after an export/import", case,
                  observed={"hdf5_ids": [type(i).__name__ for i in ids2], "fds": fds2}, expected="none")
    for i in ids2:  # do not poison the following cases
        try:
            i.close() if hasattr(i, "close") else i._close()
        except Exception:
            pass
    return False


# =========================================================================== values
def make_value(desc):
    k, v = desc["k"], desc["v"]
    if k == "float":
        return float(v)
    if k == "f64":
        return np.float64(v)
    if k == "int":
        return int(v)
    if k == "ilist":
        return [int(i) for i in v]
    if k in ("a1", "vec", "mat"):
        return np.array(v, dtype=float)
    raise ValueError(k)


def norm(v):
    return np.atleast_1d(np.asarray(v)).astype(float)


def same_value(a, b, rtol=0.0):
    a, b = norm(a), norm(b)
    if a.shape != b.shape:
        if not (a.size == 1 and b.size == 1):
            return "shape"
        a, b = a.ravel(), b.ravel()
    if rtol:
        ok = np.all((a == b) | (np.abs(a - b) <= rtol * np.maximum(np.abs(a), np.abs(b))))
    else:
        ok = np.array_equal(a, b)
    return None if ok else "value"


def rnd_number(rng):
    r = rng.random()
    if r < 0.08:
        return float(rng.choice([0.0, 1.0, -1.5, 1e-300, 1e300, 123456789.0, 1 / 3, 2.0 ** -1074]))
    if r < 0.2:
        return float(rng.integers(-50, 50))
    return float(rng.normal() * 10.0 ** int(rng.integers(-3, 4)))


OUT_NAMES = ["f", "g", "a", "aa", "b", "Z", "c_1", "obj", "h10", "h2", "Iter", "@f", "@g", "@c_1", "zz", "B"]


def gen_value(rng, name, n):
    if name == "Iter":
        return {"k": "ilist", "v": [int(rng.integers(1, 100))]}
    if name.startswith("@"):
        if rng.random() < 0.5:
            return {"k": "vec", "v": [rnd_number(rng) for _ in range(n)]}
        m = int(rng.integers(1, 4))
        return {"k": "mat", "v": [[rnd_number(rng) for _ in range(n)] for _ in range(m)]}
    k = ["float", "float", "f64", "int", "a1", "vec", "vec", "mat", "ilist"][int(rng.integers(9))]
    if k in ("float", "f64"):
        return {"k": k, "v": rnd_number(rng)}
    if k == "int":
        return {"k": k, "v": int(rng.integers(-1000, 1000))}
    if k == "a1":
        return {"k": k, "v": [rnd_number(rng)]}
    if k == "vec":
        return {"k": k, "v": [rnd_number(rng) for _ in range(int(rng.integers(2, 5)))]}
    if k == "mat":
        r, c = int(rng.integers(1, 4)), int(rng.integers(2, 4))
        return {"k": k, "v": [[rnd_number(rng) for _ in range(c)] for _ in range(r)]}
    return {"k": "ilist", "v": [int(i) for i in rng.integers(-5, 500, size=int(rng.integers(1, 4)))]}


# =========================================================================== design spaces (generator + comparison)
DS_NAMES = ["x", "xy", "x_1", "alpha", "beta2", "y", "yy", "z10", "z2", "Mach", "t_c", "X", "value", "size", "l_b",
            "name", "inf", "k", "v"]


def _bound(b, lower):
    return (-np.inf if lower else np.inf) if b is None else b


def gen_space(rng, total=None, names=None):
    """A JSON-able description of a design space (None encodes an infinite bound)."""
    if total is None:
        nvar = int(rng.integers(1, 6))
        sizes = [int(rng.integers(1, 4)) for _ in range(nvar)]
    else:
        sizes = []
        left = total
        while left > 0:
            s = int(rng.integers(1, left + 1))
            sizes.append(s)
            left -= s
    pool = list(names or DS_NAMES)
    picked = [pool[i] for i in rng.permutation(len(pool))[: len(sizes)]]
    out = []
    for name, size in zip(picked, sizes):
        integer = rng.random() < 0.3
        lb, ub, val = [], [], []
        has_value = rng.random() < 0.7
        for _ in range(size):
            if integer:
                lo = int(rng.integers(-20, 10))
                hi = lo + int(rng.integers(0, 30))
                v = int(rng.integers(lo, hi + 1))
            else:
                lo = rnd_number(rng)
                w = abs(rnd_number(rng)) + abs(lo) * 1e-3
                hi = lo + w
                if not np.isfinite(hi) or hi <= lo:
                    hi = lo
                t = float(rng.random())
                v = float(rng.choice([lo, hi, lo + t * (hi - lo)]))
                v = min(max(v, lo), hi)
            r = rng.random()
            lb.append(None if r < 0.2 else lo)
            r = rng.random()
            ub.append(None if r < 0.2 else hi)
            val.append(v)
        out.append({"name": name, "size": size, "type": "integer" if integer else "float", "lb": lb, "ub": ub,
                    "value": val if has_value else None})
    return out


def build_space(desc):
    from gemseo.algos.design_space import DesignSpace

    ds = DesignSpace()
    for var in desc:
        integer = var["type"] == "integer"
        lb = np.array([_bound(b, True) for b in var["lb"]], dtype=float)
        ub = np.array([_bound(b, False) for b in var["ub"]], dtype=float)
        if integer and np.all(np.isfinite(lb)):
            lb = lb.astype(int)
        if integer and np.all(np.isfinite(ub)):
            ub = ub.astype(int)
        value = None
        if var["value"] is not None:
            value = np.array(var["value"], dtype=int if integer else float)
        ds.add_variable(var["name"], var["size"], type_=var["type"], lower_bound=lb, upper_bound=ub, value=value)
    return ds


def space_fields(ds):
    """Field-by-field content of a DesignSpace through its public accessors."""
    cur = ds._current_value
    return {
        "names": list(ds.variable_names),
        "sizes": {n: int(ds.variable_sizes[n]) for n in ds.variable_names},
        "types": {n: str(getattr(ds.variable_types[n], "value", ds.variable_types[n])) for n in ds.variable_names},
        "lb": {n: np.asarray(ds.get_lower_bound(n), dtype=float) for n in ds.variable_names},
        "ub": {n: np.asarray(ds.get_upper_bound(n), dtype=float) for n in ds.variable_names},
        "value": {n: (None if cur.get(n) is None else np.asarray(cur[n])) for n in ds.variable_names},
    }


def desc_fields(desc):
    return {
        "names": [v["name"] for v in desc],
        "sizes": {v["name"]: v["size"] for v in desc},
        "types": {v["name"]: v["type"] for v in desc},
        "lb": {v["name"]: np.array([_bound(b, True) for b in v["lb"]], dtype=float) for v in desc},
        "ub": {v["name"]: np.array([_bound(b, False) for b in v["ub"]], dtype=float) for v in desc},
        "value": {v["name"]: (None if v["value"] is None else np.array(v["value"])) for v in desc},
    }


def diff_fields(exp, got, rtol=0.0):
    """First difference between two field dictionaries, or None."""
    if exp["names"] != got["names"]:
        return {"field": "names", "expected": exp["names"], "observed": got["names"]}
    for fld in ("sizes", "types"):
        if exp[fld] != got[fld]:
            return {"field": fld, "expected": exp[fld], "observed": got[fld]}
    for fld in ("lb", "ub"):
        for n in exp["names"]:
            if same_value(exp[fld][n], got[fld][n], rtol) is not None or exp[fld][n].shape != got[fld][n].shape:
                return {"field": fld, "variable": n, "expected": exp[fld][n], "observed": got[fld][n]}
    for n in exp["names"]:
        a, b = exp["value"][n], got["value"][n]
        if (a is None) != (b is None):
            return {"field": "value-presence", "variable": n, "expected": a, "observed": b}
        if a is not None and (same_value(a, b, rtol) is not None or np.shape(a) != np.shape(b)):
            return {"field": "value", "variable": n, "expected": a, "observed": b}
    return None


# =========================================================================== database histories
def gen_outputs(rng, n, exclude=(), lo=0, hi=4):
    k = int(rng.integers(lo, hi + 1))
    pool = [nm for nm in OUT_NAMES if nm not in exclude]
    names = [pool[i] for i in rng.permutation(len(pool))[:k]]
    return {nm: gen_value(rng, nm, n) for nm in names}


def gen_point(rng, n, int_points, existing):
    for _ in range(50):
        if int_points:
            p = [int(v) for v in rng.integers(-60, 61, size=n)]
        else:
            p = [rnd_number(rng) + 0.0 for _ in range(n)]  # + 0.0: no negative zero
        if tuple(p) not in existing:
            return p
    raise RuntimeError("could not draw a new point")


TARGET_POOL = [["A", ""], ["A", "n1"], ["A", "grp/sub"], ["B", ""], ["B", "n2"]]


def gen_db_case(rng):
    n = int(rng.integers(1, 5))
    int_points = bool(rng.random() < 0.3)
    init = ["fresh", "fresh", "fresh", "from_hdf", "update_from_hdf", "other_node"][int(rng.integers(6))]
    with_full = bool(rng.random() < 0.3)
    n_targets = [1, 1, 1, 2, 2, 2, 3, 3, 4][int(rng.integers(9))]
    targets = [list(TARGET_POOL[i]) for i in rng.permutation(len(TARGET_POOL))[:n_targets]]
    n_steps = int(rng.integers(5, 41))
    case = {"kind": "db", "n": n, "int_points": int_points, "targets": targets,
            "full_node": ["", "n1", "grp/sub"][int(rng.integers(3))], "init": init,
            "space": gen_space(rng, total=n) if rng.random() < 0.3 else None, "prefill": [], "ops": []}
    if case["space"] is not None:
        for var in case["space"]:  # a database input space carries no current value and contains the points
            var["value"] = None
            var["lb"] = [None] * var["size"]
            var["ub"] = [None] * var["size"]
            var["type"] = "integer" if int_points else "float"
    model = {}  # tuple(point) -> set of names

    def a_store(kind=None):
        r = rng.random()
        kind = kind or ("new" if (not model or r < 0.45) else ("more" if r < 0.85 else "empty"))
        if kind == "new":
            p = gen_point(rng, n, int_points, model)
            outs = gen_outputs(rng, n, lo=0 if rng.random() < 0.15 else 1)
            model[tuple(p)] = set(outs)
            return {"op": "store", "p": p, "o": outs, "what": "new" if outs else "new-empty"}
        keys = list(model)
        p = list(keys[int(rng.integers(len(keys)))])
        if kind == "empty":
            return {"op": "store", "p": p, "o": {}, "what": "empty-at-existing"}
        outs = gen_outputs(rng, n, exclude=model[tuple(p)], lo=1, hi=3)
        model[tuple(p)] |= set(outs)
        return {"op": "store", "p": p, "o": outs, "what": "more"}

    def a_target():
        # the first target is the main one; the others are appended in any interleaving
        return 0 if (n_targets == 1 or rng.random() < 0.45) else int(rng.integers(n_targets))

    if init in ("from_hdf", "update_from_hdf"):
        for _ in range(int(rng.integers(1, 5))):
            case["prefill"].append(a_store())
        case["prefill_append"] = bool(rng.random() < 0.5)
    for _ in range(n_steps):
        r = rng.random()
        if r < 0.6:
            case["ops"].append(a_store())
        elif r < 0.89:
            case["ops"].append({"op": "append", "t": a_target()})
        elif r < 0.94:
            case["ops"].append({"op": "full"} if with_full else {"op": "append", "t": a_target()})
        elif r < 0.97:
            # re-store an existing name with the identical value and nothing new (harmless by the statement)
            case["ops"].append({"op": "store_same"})
        else:
            case["ops"].append({"op": "reload_continue", "t": a_target()})
    return case


def upgrade_db_case(case):
    """Witnesses stored before the targets were generalised: one node, files A (main) and C (other)."""
    if "targets" in case:
        return case
    case = copy.deepcopy(case)
    node = case.pop("node", "")
    case["targets"] = [["A", node], ["C", node]]
    case["full_node"] = node
    for op in case["ops"]:
        if op["op"] == "append_other":
            op.update(op="append", t=1)
        elif op["op"] in ("append", "reload_continue"):
            op.setdefault("t", 0)
    return case


def db_case_signature(case):
    kinds = sorted({d["k"] for op in case["ops"] + case["prefill"] if op["op"] == "store" for d in op["o"].values()})
    seq = "".join({"new": "n", "new-empty": "e", "more": "m", "empty-at-existing": "0"}[op.get("what", "new")]
                  if op["op"] == "store" else
                  {"append": "A%d", "reload_continue": "R%d", "full": "F", "store_same": "="}[op["op"]] % (
                      (op["t"],) if "t" in op else ())
                  for op in case["ops"])
    return ("db", case["n"], case["int_points"], tuple(map(tuple, case["targets"])), case["full_node"], case["init"],
            case["space"] is not None, len(case["prefill"]), tuple(kinds), seq)


class DbModel:
    """Independent model of a database: ordered points, per point an insertion-ordered dict of value descriptions."""

    def __init__(self, int_points):
        self.dtype = int if int_points else float
        self.points = []
        self.outs = {}

    def store(self, p, outs):
        key = tuple(p)
        if key not in self.outs:
            self.points.append(key)
            self.outs[key] = {}
        self.outs[key].update(outs)

    def copy(self):
        return copy.deepcopy(self)


def diff_db(db, model):
    """First difference between a gemseo Database and the model (None if equal)."""
    items = list(db.items())
    if len(items) != len(model.points):
        return {"kind": "n_points", "observed": len(items), "expected": len(model.points)}
    for i, ((k, outs), p) in enumerate(zip(items, model.points)):
        x = np.asarray(k.wrapped_array)
        if x.shape != (len(p),) or not np.array_equal(x.astype(float), np.array(p, dtype=float)):
            return {"kind": "point", "index": i, "observed": x, "expected": list(p)}
        exp = model.outs[p]
        if set(outs) != set(exp):
            return {"kind": "names", "index": i, "observed": sorted(outs), "expected": sorted(exp)}
        for name, d in exp.items():
            why = same_value(make_value(d), outs[name])
            if why is not None:
                return {"kind": f"{why}:{d['k']}", "index": i, "name": name, "observed": outs[name],
                        "expected": make_value(d), "names_at_point": list(exp)}
    return None


def diff_db_db(a, b):
    """First difference between two gemseo databases (both read back from files)."""
    ia, ib = list(a.items()), list(b.items())
    if len(ia) != len(ib):
        return {"kind": "n_points", "observed": len(ia), "expected": len(ib)}
    for i, ((ka, oa), (kb, ob)) in enumerate(zip(ia, ib)):
        if not np.array_equal(np.asarray(ka.wrapped_array, dtype=float), np.asarray(kb.wrapped_array, dtype=float)):
            return {"kind": "point", "index": i, "observed": ka.wrapped_array, "expected": kb.wrapped_array}
        if set(oa) != set(ob):
            return {"kind": "names", "index": i, "observed": sorted(oa), "expected": sorted(ob)}
        for name in oa:
            why = same_value(oa[name], ob[name])
            if why is not None:
                return {"kind": why, "index": i, "name": name, "observed": oa[name], "expected": ob[name]}
    return None


class Abort(Exception):
    pass


class DbRun:
    """Executes one database history against the real code; collects findings as dictionaries.

    Append targets are (file, node) pairs: several files and several nodes of one file, in any interleaving.
    """

    def __init__(self, case, workdir, rep, scratch, counted, focus=None):
        self.case, self.dir, self.rep, self.scratch, self.counted = case, workdir, rep, scratch, counted
        self.focus = focus  # classifier runs: only this target is read back and judged
        self.findings = []
        self.targets = [(os.path.join(workdir, f"{f}.h5"), node) for f, node in case["targets"]]
        self.X = os.path.join(workdir, "X.h5")  # full exports during the history (rewritten each time)
        self.F = os.path.join(workdir, "F.h5")  # the single final export
        self.full_node = case["full_node"]
        self.appended = []  # indices of the targets appended so far by the database under test, in first-use order
        self.more_since = {}  # target index -> stores of new outputs at existing points since its last append
        self.step = -1
        self.target = None  # index of the target being exported / reloaded (for the classifier)

    def count(self, name, k=1):
        if self.counted:
            self.rep.count(name, k)

    def finding(self, clause, kind, observed=None, expected=None, fatal=True):
        self.findings.append({"clause": clause, "kind": kind, "step": self.step, "observed": observed,
                              "expected": expected, "target": self.target})
        if fatal:
            raise Abort

    def call(self, clause, fn, *a, **k):
        try:
            return fn(*a, **k)
        except Abort:
            raise
        except Exception as e:  # valid history: the property promises an export / a reload
            self.finding(clause, f"exception:{type(e).__name__}", observed=f"{type(e).__name__}: {e}"[:400])

    def census(self, where):
        if not census(self.rep, self.scratch, where, self.case, self.counted):
            self.findings.append({"clause": "open-handle", "kind": where, "step": self.step, "reported": True})

    def reload(self, path, node, what, model):
        from gemseo.algos.database import Database

        r = self.call(f"reload-of-{what}-raises", Database.from_hdf, path, hdf_node_path=node, log=False)
        self.census(f"Database.from_hdf:{what}")
        self.count("db_reloads_compared")
        d = diff_db(r, model)
        if d is not None:
            self.finding(f"reload-of-{what}-differs-from-memory", d["kind"], d, None)
        return r

    def check_space(self, r, what):
        exp = space_fields(self.db.input_space)
        got = space_fields(r.input_space)
        d = diff_fields(exp, got)
        self.count("db_input_space_compared")
        if d is not None:
            self.finding(f"input-space-of-{what}-differs", d["field"], d)
        if self.case["space"] is not None and not (r.input_space == self.db.input_space):
            self.finding(f"input-space-of-{what}-differs", "eq-operator", "reloaded != original")

    def new_db(self):
        from gemseo.algos.database import Database

        if self.case["space"] is not None:
            return Database(input_space=build_space(self.case["space"]))
        return Database()

    def do_store(self, db, model, op):
        outs = {name: make_value(d) for name, d in op["o"].items()}
        self.call("store-raises", db.store, np.array(op["p"], dtype=model.dtype), outs)
        model.store(op["p"], op["o"])

    def run(self):
        try:
            self._run()
        except Abort:
            pass
        finally:
            self.census("end-of-history")
        return self.findings

    def files(self):
        return sorted({path for path, _ in self.targets})

    def _run(self):
        from gemseo.algos.database import Database

        case = self.case
        model = DbModel(case["int_points"])
        # ---- initial state of the files
        other = None
        if case["init"] == "other_node":
            other = DbModel(False)
            odb = Database()
            for i in range(3):
                op = {"p": [float(i), 0.5], "o": {"f": {"k": "float", "v": 1.5 * i}, "@f": {"k": "vec", "v": [i, 2.0]}}}
                self.do_store(odb, other, op)
            for path in self.files():
                self.call("append-export-raises", odb.to_hdf, path, append=True, hdf_node_path="other")
            self.census("Database.to_hdf:append")
        if case["init"] in ("from_hdf", "update_from_hdf"):
            self.target = 0
            path, node = self.targets[0]
            db0 = self.new_db()
            for op in case["prefill"]:
                self.do_store(db0, model, op)
            self.call("append-export-raises" if case.get("prefill_append") else "full-export-raises",
                      db0.to_hdf, path, append=bool(case.get("prefill_append")), hdf_node_path=node)
            self.census("Database.to_hdf:prefill")
            if case["init"] == "from_hdf":
                self.db = self.call("reload-of-appended-file-raises", Database.from_hdf, path, hdf_node_path=node,
                                    log=False)
            else:
                self.db = self.new_db()
                self.call("reload-of-appended-file-raises", self.db.update_from_hdf, path, hdf_node_path=node)
            self.census("Database.from_hdf:prefill")
            d = diff_db(self.db, model)
            if d is not None:
                self.finding("reload-of-full-export-differs-from-memory", d["kind"], d)
            del db0
            self.target = None
        else:
            self.db = self.new_db()
        # ---- the history
        for self.step, op in enumerate(case["ops"]):
            kind = op["op"]
            self.target = None
            if kind == "store":
                if tuple(op["p"]) in model.outs and op["o"]:
                    for t in self.more_since:
                        self.more_since[t] += 1
                self.do_store(self.db, model, op)
            elif kind == "store_same":
                if model.points:
                    p = model.points[len(model.points) // 2]
                    if model.outs[p]:
                        name = next(iter(model.outs[p]))
                        self.do_store(self.db, model, {"p": list(p), "o": {name: model.outs[p][name]}})
                        self.count("db_restore_same_value")
            elif kind in ("append", "reload_continue"):
                t = min(op.get("t", 0), len(self.targets) - 1)
                self.append_to(t, model)
                if kind == "reload_continue" and len(self.db):
                    path, node = self.targets[t]
                    self.target = t
                    r = self.call("reload-of-appended-file-raises", Database.from_hdf, path, hdf_node_path=node,
                                  log=False)
                    self.census("Database.from_hdf:appended-file")
                    self.db = r
                    # a new Database object: it has appended nothing yet
                    self.appended, self.more_since = [], {}
                    self.count("db_continued_from_reload")
            elif kind == "full":
                if len(self.db) == 0:
                    continue
                self.call("full-export-raises", self.db.to_hdf, self.X, append=False, hdf_node_path=self.full_node)
                self.census("Database.to_hdf:full")
                self.count("db_exports_full")
                r = self.reload(self.X, self.full_node, "full-export", model)
                self.check_space(r, "full-export")
        # ---- final flush of every target used in the history, single full export, equivalence
        self.step = len(case["ops"])
        self.target = None
        if not model.points:
            return
        used = sorted({min(op.get("t", 0), len(self.targets) - 1) for op in case["ops"]
                       if op["op"] in ("append", "reload_continue")}) or [0]
        for t in used:
            self.append_to(t, model, final=True)
        reloads = {}
        for t in used:
            if self.focus is not None and t != self.focus:
                continue
            self.target = t
            reloads[t] = self.reload(*self.targets[t], "appended-file", model)
        self.target = None
        self.call("full-export-raises", self.db.to_hdf, self.F, append=False, hdf_node_path=self.full_node)
        self.census("Database.to_hdf:full")
        self.count("db_exports_full")
        rf = self.reload(self.F, self.full_node, "full-export", model)
        for t, r in reloads.items():
            self.target = t
            self.count("db_final_equivalence_checked")
            d = diff_db_db(r, rf)
            if d is not None:
                self.finding("appended-file-and-single-export-differ", d["kind"], d)
            self.check_space(r, "appended-file")
        self.target = None
        self.check_space(rf, "full-export")
        if len(used) > 1:
            self.count("db_histories_with_several_append_targets")
        if other is not None:
            for path in sorted({self.targets[t][0] for t in used}):
                r = self.call("reload-of-other-node-raises", Database.from_hdf, path, hdf_node_path="other", log=False)
                self.count("db_other_node_checked")
                d = diff_db(r, other)
                if d is not None:
                    self.finding("other-node-of-the-file-changed", d["kind"], d)

    def append_to(self, t, model, final=False):
        if len(self.db) == 0:
            return
        path, node = self.targets[t]
        self.target = t
        self.call("append-export-raises", self.db.to_hdf, path, append=True, hdf_node_path=node)
        self.census("Database.to_hdf:append")
        self.count("db_exports_append")
        if self.more_since.get(t):
            self.count("db_appends_with_new_outputs_at_existing_points")
        self.more_since[t] = 0
        before = [self.targets[u] for u in self.appended if u != t]
        if any(p == path and nd != node for p, nd in before):
            self.count("db_appends_to_second_node_of_same_file")
        if any(p != path for p, nd in before):
            self.count("db_appends_to_second_file")
        if t not in self.appended:
            self.appended.append(t)
        if not final and (self.focus is None or t == self.focus):
            self.reload(path, node, "appended-file", model)
        self.target = None


_counter = [0]


def exec_db_case(case, rep, scratch, counted=False, focus=None):
    case = upgrade_db_case(case)
    _counter[0] += 1
    workdir = os.path.join(scratch, f"c11_db_{os.getpid()}_{_counter[0]}")
    os.makedirs(workdir)
    try:
        return DbRun(case, workdir, rep, scratch, counted, focus).run()
    finally:
        shutil.rmtree(workdir, ignore_errors=True)


def _clip(case, op):
    return min(op.get("t", 0), len(case["targets"]) - 1)


def restricted(case, t, drop):
    """Twin history for the classifier: exports to other targets than ``t`` removed.

    ``drop``: "nodes" removes the appends to the other nodes of the file of target ``t``; "files" removes the appends
    to the other files and the full exports; "all" removes both (only target ``t`` is left).
    """
    twin = copy.deepcopy(case)
    file_t = case["targets"][t][0]
    ops = []
    for op in twin["ops"]:
        if op["op"] == "full":
            if drop in ("files", "all"):
                continue
        elif op["op"] in ("append", "reload_continue") and _clip(case, op) != t:
            same_file = case["targets"][_clip(case, op)][0] == file_t
            if (same_file and drop in ("nodes", "all")) or (not same_file and drop in ("files", "all")):
                continue
        ops.append(op)
    twin["ops"] = ops
    return twin


def has_other_targets(case, t):
    return any(op["op"] == "full" or (op["op"] in ("append", "reload_continue") and _clip(case, op) != t)
               for op in case["ops"])


def first_real(findings):
    for f in findings:
        if not f.get("reported"):
            return f
    return None


LOST = "C11:database:append:entries-stored-before-an-export-to-another-%s-are-lost"


def db_signature(case, f, rep, scratch):
    """Mechanism signature of a database finding (narrow: decided by twin histories, never by values)."""
    case = upgrade_db_case(case)
    base = f"C11:database:{f['clause']}:{f['kind']}"
    t = f.get("target")
    if t is None or f["clause"] == "full-export-raises" or not has_other_targets(case, t):
        return base
    quiet = Reporter(PID)

    def fails(drop):  # judged on target t only (the other targets are exported but not read back)
        return first_real(exec_db_case(restricted(case, t, drop), quiet, scratch, focus=t)) is not None

    if fails("all"):
        return base  # target t alone already fails: not this mechanism
    with_nodes = fails("files")  # what is left: target t + the other nodes of its file
    with_files = fails("nodes")  # what is left: target t + the other files (and the full exports)
    if with_nodes and not with_files:
        return LOST % "node-of-the-same-file"
    if with_files and not with_nodes:
        return LOST % "file"
    return LOST % "target"


def shrink_db_case(case, sig, rep, scratch, budget=120):
    """Greedy removal of operations while the same signature is reproduced."""
    quiet = Reporter(PID)

    def same(c):
        f = first_real(exec_db_case(c, quiet, scratch))
        return f is not None and db_signature(c, f, quiet, scratch) == sig

    cur = copy.deepcopy(case)
    tries = 0
    for key in ("ops", "prefill"):
        i = len(cur[key]) - 1
        while i >= 0 and tries < budget:
            cand = copy.deepcopy(cur)
            del cand[key][i]
            tries += 1
            if same(cand):
                cur = cand
            i -= 1
    for simpl in ({"space": None}, {"full_node": ""}, {"init": "fresh", "prefill": []}):
        cand = dict(copy.deepcopy(cur), **simpl)
        if tries < budget + 10 and same(cand):
            cur = cand
        tries += 1
    # drop outputs one by one
    for op in cur["ops"]:
        if op["op"] != "store":
            continue
        for name in list(op["o"]):
            if tries >= budget + 60:
                break
            saved = op["o"].pop(name)
            tries += 1
            if not same(cur):
                op["o"][name] = saved
    return cur


def run_db_case(case, rep, scratch, shrink=True):
    case = upgrade_db_case(case)
    stores = [op for op in case["ops"] + case["prefill"] if op["op"] == "store"]
    exports = [op for op in case["ops"] if op["op"] != "store"]
    rep.case(db_case_signature(case), bool(stores))
    rep.count("db_histories")
    findings = exec_db_case(case, rep, scratch, counted=True)
    f = first_real(findings)
    if f is None:
        return
    sig = db_signature(case, f, rep, scratch)
    witness = case
    if shrink and rep.violation_counts.get(sig, 0) < Reporter.MAX_WITNESS_PER_SIG:
        try:
            witness = shrink_db_case(case, sig, rep, scratch)
            f2 = first_real(exec_db_case(witness, Reporter(PID), scratch))
            if f2 is not None:
                f = f2
        except Exception:
            witness = case
    rep.violation(sig, f["clause"], witness, observed=f.get("observed"), expected=f.get("expected"),
                  msg=f"step {f['step']} of {len(witness['ops'])} operations, target {f.get('target')} "
                      f"({len(exports)} exports in the original)")
    if sig.endswith("are-lost"):
        # the same history restricted to the failing target is a valid case of its own: keep exploring the
        # append path behind the known mechanism
        twin = restricted(case, f.get("target") or 0, "all")
        rep.count("db_twin_histories_without_other_targets")
        f3 = first_real(exec_db_case(twin, rep, scratch))
        if f3 is not None:
            rep.violation(db_signature(twin, f3, rep, scratch), f3["clause"], twin, observed=f3.get("observed"),
                          expected=f3.get("expected"), msg=f"step {f3['step']}")


# =========================================================================== design-space files
def run_space_case(case, rep, scratch):
    from gemseo.algos.database import Database
    from gemseo.algos.design_space import DesignSpace

    desc = case["space"]
    rep.case(("ds", tuple((v["size"], v["type"], v["value"] is None,
                           tuple(b is None for b in v["lb"]), tuple(b is None for b in v["ub"])) for v in desc),
              tuple(case["formats"]), case["node"]), True)
    rep.count("ds_cases")
    _counter[0] += 1
    workdir = os.path.join(scratch, f"c11_ds_{os.getpid()}_{_counter[0]}")
    os.makedirs(workdir)
    exp = desc_fields(desc)
    try:
        try:
            ds = build_space(desc)
        except Exception as e:  # the generator must only produce legal spaces
            rep.inconclusive(f"design-space generator produced an illegal space: {type(e).__name__}: {e}"[:300])
            return
        d0 = diff_fields(exp, space_fields(ds))
        if d0 is not None:  # what gemseo holds is not what was asked for: C02's business, not a file problem
            rep.observe("design-space-differs-from-its-description-before-any-file", d0)
            exp = space_fields(ds)
        for ext in case["formats"]:
            path = os.path.join(workdir, f"space.{ext}")
            text = ext in ("csv", "txt")
            fmt = "text" if text else "hdf5"
            try:
                ds.to_file(path)
                census(rep, scratch, f"DesignSpace.to_file:{fmt}", case)
                r = DesignSpace.from_file(path)
                census(rep, scratch, f"DesignSpace.from_file:{fmt}", case)
            except Exception as e:
                rep.violation(f"C11:design-space:{fmt}:exception:{type(e).__name__}", "to_file/from_file returns",
                              dict(case, formats=[ext]), observed=f"{type(e).__name__}: {e}"[:400],
                              expected="the same design space")
                continue
            rep.count("ds_roundtrips_text" if text else "ds_roundtrips_hdf")
            d = diff_fields(exp, space_fields(r), rtol=1e-15 if text else 0.0)
            if d is not None:
                rep.violation(f"C11:design-space:{fmt}:{d['field']}-differs", "from_file(to_file(space)) == space",
                              dict(case, formats=[ext]), observed=d["observed"], expected=d["expected"],
                              msg=str(d.get("variable", "")))
            elif not text and not (r == ds):
                rep.violation("C11:design-space:hdf5:eq-operator-false", "from_file(to_file(space)) == space",
                              dict(case, formats=[ext]), observed="r == space is False", expected=True)
        # nested node, appended to a file that already holds something else
        node = case["node"]
        if node:
            path = os.path.join(workdir, "shared.h5")
            try:
                keeper = Database()
                keeper.store(np.array([1.0, 2.0]), {"f": 1.0})
                keeper.to_hdf(path, append=True, hdf_node_path="keeper")
                ds.to_hdf(path, append=True, hdf_node_path=node)
                census(rep, scratch, "DesignSpace.to_hdf:node", case)
                r1 = DesignSpace.from_hdf(path, hdf_node_path=node)
                r2 = DesignSpace.from_file(path, hdf_node_path=node)
                census(rep, scratch, "DesignSpace.from_hdf:node", case)
                kept = Database.from_hdf(path, hdf_node_path="keeper", log=False)
            except Exception as e:
                rep.violation(f"C11:design-space:hdf5-node:exception:{type(e).__name__}", "to_hdf/from_hdf at a node",
                              case, observed=f"{type(e).__name__}: {e}"[:400], expected="the same design space")
            else:
                rep.count("ds_roundtrips_hdf_node")
                for r in (r1, r2):
                    d = diff_fields(exp, space_fields(r))
                    if d is not None or not (r == ds):
                        rep.violation(f"C11:design-space:hdf5-node:{d['field'] if d else 'eq-operator'}-differs",
                                      "from_hdf(node) == space", case, observed=d, expected=None)
                        break
                if len(kept) != 1:
                    rep.violation("C11:design-space:hdf5-node:other-node-clobbered", "append keeps the other nodes",
                                  case, observed=len(kept), expected=1)
    finally:
        shutil.rmtree(workdir, ignore_errors=True)


def gen_space_case(rng):
    hd = ["h5", "hdf5", "hdf"][int(rng.integers(3))]
    tx = ["csv", "txt"][int(rng.integers(2))]
    return {"kind": "ds", "space": gen_space(rng), "formats": [hd, tx],
            "node": ["", "dsn", "deep/er/node"][int(rng.integers(3))]}


# =========================================================================== optimization problems
CSTR_NAMES = ["zc", "ac", "g_10", "g_2", "Cons", "b"]
OBS_NAMES = ["obs", "o2", "watch"]


def gen_problem(rng):
    nvar = int(rng.integers(1, 4))
    names = [["x", "yy", "z_3", "alpha"][i] for i in rng.permutation(4)[:nvar]]
    variables = []
    for nm in names:
        size = int(rng.integers(1, 3))
        lb = [round(float(rng.uniform(-3, -1)), 2) for _ in range(size)]
        ub = [round(float(rng.uniform(1, 3)), 2) for _ in range(size)]
        val = [round(float(rng.uniform(-0.9, 0.9)), 3) for _ in range(size)]
        variables.append({"name": nm, "size": size, "type": "float", "lb": lb, "ub": ub, "value": val})
    n = sum(v["size"] for v in variables)
    ncon = int(rng.integers(0, 4))
    cnames = [CSTR_NAMES[i] for i in rng.permutation(len(CSTR_NAMES))[:ncon]]
    cons = []
    for nm in cnames:
        dim = int(rng.integers(1, 3))
        cons.append({"name": nm, "a": np.round(rng.uniform(-1, 1, (dim, n)), 2).tolist(),
                     "b": np.round(rng.uniform(0.5, 2, dim), 2).tolist(),
                     "type": "ineq" if rng.random() < 0.7 else "eq", "positive": bool(rng.random() < 0.3),
                     "value": float(rng.choice([0.0, 0.0, 0.25, -1.0]))})
    nobs = int(rng.integers(0, 3))
    obs = [{"name": OBS_NAMES[i], "a": np.round(rng.uniform(-1, 1, (1, n)), 2).tolist()} for i in range(nobs)]
    algo = ["SLSQP", "SLSQP", "LHS", "CustomDOE"][int(rng.integers(4))]
    if algo == "SLSQP":
        # SciPy's SLSQP can loop forever on over-determined / inconsistent equality constraints (not gemseo's
        # business and not this property's): keep the equality constraints strictly under-determined
        eq_dim = 0
        for con in cons:
            if con["type"] == "eq":
                if eq_dim + len(con["b"]) <= n - 2:
                    eq_dim += len(con["b"])
                else:
                    con["type"] = "ineq"
    case = {"kind": "problem", "space": variables, "w": np.round(rng.uniform(0.5, 2, n), 2).tolist(),
            "c": np.round(rng.uniform(-0.5, 0.5, n), 2).tolist(), "maximize": bool(rng.random() < 0.3),
            "constraints": cons, "observables": obs, "algo": algo, "max_iter": int(rng.integers(3, 7)),
            "tolerances": [None, None, [1e-3, 5e-2], [2e-5, 1e-7]][int(rng.integers(4))],
            "mode": ["root", "root", "node", "two", "backup", "backup-node"][int(rng.integers(6))],
            "samples": np.round(rng.uniform(-0.9, 0.9, (4, n)), 3).tolist()}
    return case


def build_problem(case):
    from gemseo.algos.optimization_problem import OptimizationProblem
    from gemseo.core.mdo_functions.mdo_function import MDOFunction

    ds = build_space(case["space"])
    names = [v["name"] for v in case["space"]]
    w, c = np.array(case["w"]), np.array(case["c"])
    sign = -1.0 if case["maximize"] else 1.0
    p = OptimizationProblem(ds)
    p.objective = MDOFunction(lambda x: sign * float(np.sum(w * (x - c) ** 2)), "f",
                              jac=lambda x: sign * 2 * w * (x - c), expr=("-" if case["maximize"] else "") + "sum(w*(x-c)**2)",
                              input_names=names, dim=1)
    if case["maximize"]:
        p.minimize_objective = False
    for con in case["constraints"]:
        a, b = np.array(con["a"]), np.array(con["b"])
        fn = MDOFunction(lambda x, a=a, b=b: a @ x - b, con["name"], jac=lambda x, a=a: a, expr=f"A_{con['name']}.x-b",
                         input_names=names, dim=len(b))
        p.add_constraint(fn, constraint_type=con["type"], positive=con["positive"], value=con["value"])
    for ob in case["observables"]:
        a = np.array(ob["a"])
        p.add_observable(MDOFunction(lambda x, a=a: a @ x, ob["name"], jac=lambda x, a=a: a, expr=f"O_{ob['name']}.x",
                                     input_names=names, dim=1))
    if case["tolerances"]:
        p.tolerances.inequality, p.tolerances.equality = case["tolerances"]
    return p


class DriverFailed(Exception):
    pass


def drive(problem, case, rep=None):
    """Run the short driver; a driver that raises is not this property's business: the case is skipped."""
    try:
        _drive(problem, case)
    except Exception as e:
        if rep is not None:
            rep.count("problem_cases_skipped_driver_raised")
            rep.observe("driver-raised-before-anything-was-saved (case skipped)",
                        {"error": f"{type(e).__name__}: {e}"[:200], "algo": case["algo"], "max_iter": case["max_iter"]})
        raise DriverFailed from None


def _drive(problem, case):
    if case["algo"] == "SLSQP":
        from gemseo.algos.opt.factory import OptimizationLibraryFactory

        OptimizationLibraryFactory().execute(problem, algo_name="SLSQP", max_iter=case["max_iter"])
    else:
        from gemseo.algos.doe.factory import DOELibraryFactory

        if case["algo"] == "LHS":
            DOELibraryFactory().execute(problem, algo_name="LHS", n_samples=case["max_iter"] + 1, seed=3)
        else:
            DOELibraryFactory().execute(problem, algo_name="CustomDOE", samples=np.array(case["samples"]))


def function_dict(fn):
    d = dict(fn.to_dict())
    d["f_type"] = str(getattr(d.get("f_type"), "value", d.get("f_type")))
    d["input_names"] = list(d.get("input_names") or [])
    d["output_names"] = list(d.get("output_names") or [])
    d["dim"] = int(d["dim"]) if d.get("dim") is not None else None
    return d


def db_as_model(db):
    """The in-memory database of the problem as a model (read once, before the export)."""
    return [(np.array(k.wrapped_array, dtype=float), {n: copy.deepcopy(v) for n, v in o.items()}) for k, o in db.items()]


def diff_db_snapshot(db, snap):
    items = list(db.items())
    if len(items) != len(snap):
        return {"kind": "n_points", "observed": len(items), "expected": len(snap)}
    for i, ((k, outs), (x, exp)) in enumerate(zip(items, snap)):
        if not np.array_equal(np.asarray(k.wrapped_array, dtype=float), x):
            return {"kind": "point", "index": i, "observed": k.wrapped_array, "expected": x}
        if set(outs) != set(exp):
            return {"kind": "names", "index": i, "observed": sorted(outs), "expected": sorted(exp)}
        for name in exp:
            why = same_value(exp[name], outs[name])
            if why is not None:
                return {"kind": why, "index": i, "name": name, "observed": outs[name], "expected": exp[name]}
    return None


SOLUTION_FIELDS = ["x_0", "x_opt", "f_opt", "is_feasible", "optimum_index", "status", "message", "optimizer_name",
                   "n_obj_call", "n_grad_call", "n_constr_call", "objective_name"]


def diff_solution(s, t):
    """First differing field of two OptimizationResult, or None."""
    if (s is None) != (t is None):
        return "presence", s, t
    if s is None:
        return None
    for fld in SOLUTION_FIELDS:
        a, b = getattr(s, fld), getattr(t, fld)
        if a is None or b is None:
            if a is not None or b is not None:
                return fld, a, b
        elif isinstance(a, str) or isinstance(b, str):
            if str(a) != str(b):
                return fld, a, b
        elif same_value(a, b) is not None:
            return fld, a, b
    for fld in ("x_0_as_dict", "x_opt_as_dict", "constraint_values", "constraints_grad"):
        # an entry bound to None ("no value") and a missing entry are the same content
        a = {k: v for k, v in (getattr(s, fld) or {}).items() if v is not None}
        b = {k: v for k, v in (getattr(t, fld) or {}).items() if v is not None}
        if set(a) != set(b):
            return fld, a, b
        for k in a:
            if a[k] is None or b[k] is None:
                if a[k] is not None or b[k] is not None:
                    return fld, a, b
            elif same_value(a[k], b[k]) is not None or np.shape(a[k]) != np.shape(b[k]):
                return fld, a, b
    return None


def compare_problem(p, q, snap, case, rep, where, solution=True):
    """Judge a reloaded problem ``q`` against the original ``p`` (``snap``: database content before export)."""
    feat = where
    rep.count("problem_roundtrips")
    # functions
    for label, fa, fb in (("objective", [p.objective], [q.objective]),
                          ("constraints", list(p.constraints), list(q.constraints)),
                          ("observables", list(p.observables), list(q.observables))):
        da = {f.name: function_dict(f) for f in fa}
        db_ = {f.name: function_dict(f) for f in fb}
        rep.count("problem_function_descriptions_compared", len(da))
        if set(da) != set(db_) or len(fa) != len(fb):
            rep.violation(f"C11:problem:{label}:names-differ:{feat}", "same function descriptions", case,
                          observed=[f.name for f in fb], expected=[f.name for f in fa])
            continue
        for name in da:
            for key in sorted(set(da[name]) | set(db_[name])):
                a, b = da[name].get(key), db_[name].get(key)
                if a != b:
                    if key == "input_names" and len(a) == 1 and len(a[0]) > 1 and b == list(a[0]):
                        sig = "C11:problem:function:single-multi-character-input-name-split-into-characters"
                    else:
                        sig = f"C11:problem:{label}:{key}-differs:{feat}"
                    rep.violation(sig, "same function descriptions", case, observed={name: b}, expected={name: a})
        if [f.name for f in fa] != [f.name for f in fb]:
            rep.observe("constraint-order-changed-by-from_hdf (alphabetical)",
                        {"original": [f.name for f in fa], "reloaded": [f.name for f in fb]})
    # scalar description
    if bool(p.minimize_objective) != bool(q.minimize_objective):
        rep.violation(f"C11:problem:minimize_objective-differs:{feat}", "same description", case,
                      observed=bool(q.minimize_objective), expected=bool(p.minimize_objective))
    if str(getattr(p.differentiation_method, "value", p.differentiation_method)) != \
            str(getattr(q.differentiation_method, "value", q.differentiation_method)):
        rep.violation(f"C11:problem:differentiation_method-differs:{feat}", "same description", case,
                      observed=str(q.differentiation_method), expected=str(p.differentiation_method))
    if float(p.differentiation_step) != float(q.differentiation_step):
        rep.violation(f"C11:problem:differentiation_step-differs:{feat}", "same description", case,
                      observed=q.differentiation_step, expected=p.differentiation_step)
    rep.count("problem_tolerances_compared")
    tp = (float(p.tolerances.inequality), float(p.tolerances.equality))
    tq = (float(q.tolerances.inequality), float(q.tolerances.equality))
    if tp != tq:
        rep.violation("C11:problem:constraint-tolerances-not-restored", "same description (tolerances)", case,
                      observed={"inequality": tq[0], "equality": tq[1]}, expected={"inequality": tp[0], "equality": tp[1]})
    # design space and database
    fp, fq = space_fields(p.design_space), space_fields(q.design_space)
    if not solution:
        # incremental backup: the design space is written by the first export only (by design: it is not rewritten
        # on every append), so the file holds the current value of that moment; compare everything but the value
        if diff_fields(dict(fp, value=fq["value"]), fq) is None and diff_fields(fp, fq) is not None:
            rep.observe("backup-file-keeps-the-current-value-of-the-first-export", where)
        fp = dict(fp, value=fq["value"])
    d = diff_fields(fp, fq)
    if d is not None or (solution and not (p.design_space == q.design_space)):
        rep.violation(f"C11:problem:design-space-differs:{d['field'] if d else 'eq-operator'}:{feat}",
                      "same design space", case, observed=d, expected=None)
    d = diff_db_snapshot(q.database, snap)
    rep.count("problem_databases_compared")
    if d is not None:
        rep.violation(f"C11:problem:database-differs:{d['kind']}:{feat}", "same database", case, observed=d,
                      expected=None)
    # solution
    if solution:
        rep.count("problem_solutions_compared")
        d = diff_solution(p.solution, q.solution)
        if d is not None:
            nodeish = "nested-node" if "node" in where or where == "two" else "root"
            if d[0] in ("x_0_as_dict", "x_opt_as_dict") and not d[2] and nodeish == "nested-node":
                sig = "C11:problem:solution-x_as_dict-lost:nested-node"
            else:
                sig = f"C11:problem:solution-field-differs:{d[0]}:{nodeish}"
            rep.violation(sig, "same solution", case, observed={d[0]: d[2]}, expected={d[0]: d[1]})


def run_problem_case(case, rep, scratch):
    from gemseo.algos.optimization_problem import OptimizationProblem

    mode = case["mode"]
    rep.case(("pb", len(case["space"]), tuple((c["type"], c["positive"], c["value"] != 0, len(c["b"])) for c in case["constraints"]),
              len(case["observables"]), case["maximize"], case["algo"], mode, case["tolerances"] is not None), True)
    rep.count("problem_cases")
    _counter[0] += 1
    workdir = os.path.join(scratch, f"c11_pb_{os.getpid()}_{_counter[0]}")
    os.makedirs(workdir)
    path = os.path.join(workdir, "problem.h5")

    def guarded(what, fn, *a, **k):
        try:
            return fn(*a, **k)
        except Exception as e:
            rep.violation(f"C11:problem:{what}:exception:{type(e).__name__}:{mode}", f"{what} returns", case,
                          observed=f"{type(e).__name__}: {e}"[:500], expected="no exception")
            raise Abort from None

    try:
        p = build_problem(case)
        if mode in ("backup", "backup-node"):
            node = "" if mode == "backup" else "run/backup"
            n_exports = [0]

            def listener(x):
                p.to_hdf(path, append=True, hdf_node_path=node)
                n_exports[0] += 1

            drive(build_problem(case), case, rep)  # the same run without the backup must work (else: skipped)
            p.add_listener(listener, at_each_iteration=False, at_each_function_call=True)
            try:
                _drive(p, case)
            except Exception as e:
                rep.violation(f"C11:problem:backup-listener:exception:{type(e).__name__}:{mode}",
                              "incremental backup during a run", case, observed=f"{type(e).__name__}: {e}"[:500])
                raise Abort from None
            rep.count("problem_backup_exports", n_exports[0])
            census(rep, scratch, "OptimizationProblem.to_hdf:append", case)
            snap = db_as_model(p.database)
            guarded("to_hdf", p.to_hdf, path, append=True, hdf_node_path=node)  # flush
            q = guarded("from_hdf", OptimizationProblem.from_hdf, path, hdf_node_path=node)
            census(rep, scratch, "OptimizationProblem.from_hdf", case)
            compare_problem(p, q, snap, case, rep, mode, solution=False)
            if p.solution is not None and q.solution is None:
                rep.observe("solution-not-written-when-appending-to-an-existing-backup", mode)
            return
        drive(p, case, rep)
        snap = db_as_model(p.database)
        if mode == "root":
            guarded("to_hdf", p.to_hdf, path)
            census(rep, scratch, "OptimizationProblem.to_hdf", case)
            q = guarded("from_hdf", OptimizationProblem.from_hdf, path)
            census(rep, scratch, "OptimizationProblem.from_hdf", case)
            compare_problem(p, q, snap, case, rep, mode)
        elif mode == "node":
            guarded("to_hdf", p.to_hdf, path, hdf_node_path="study/p1")
            census(rep, scratch, "OptimizationProblem.to_hdf", case)
            q = guarded("from_hdf", OptimizationProblem.from_hdf, path, hdf_node_path="study/p1")
            census(rep, scratch, "OptimizationProblem.from_hdf", case)
            compare_problem(p, q, snap, case, rep, mode)
        else:  # two problems in one file
            case2 = dict(case, maximize=not case["maximize"], c=[-v for v in case["c"]],
                         space=[dict(v, value=[-x for x in v["value"]]) for v in case["space"]])
            p2 = build_problem(case2)
            drive(p2, case2, rep)
            snap2 = db_as_model(p2.database)
            guarded("to_hdf", p.to_hdf, path, append=True, hdf_node_path="first")
            guarded("to_hdf", p2.to_hdf, path, append=True, hdf_node_path="second")
            census(rep, scratch, "OptimizationProblem.to_hdf:append", case)
            q = guarded("from_hdf", OptimizationProblem.from_hdf, path, hdf_node_path="first")
            q2 = guarded("from_hdf", OptimizationProblem.from_hdf, path, hdf_node_path="second")
            census(rep, scratch, "OptimizationProblem.from_hdf", case)
            compare_problem(p, q, snap, case, rep, mode)
            compare_problem(p2, q2, snap2, case, rep, mode)
    except (Abort, DriverFailed):
        pass
    finally:
        shutil.rmtree(workdir, ignore_errors=True)


# =========================================================================== HDF5 cache
SPARSE_FORMATS = ["csr", "csc", "coo", "lil", "dia", "bsr", "dok"]
SPARSE_CONTAINERS = [f"{f}_{flavour}" for f in SPARSE_FORMATS for flavour in ("array", "matrix")]


def make_block(values, container):
    """A Jacobian block in the requested container (None: dense ndarray)."""
    dense = np.array(values, dtype=float)
    if not container:
        return dense
    import scipy.sparse

    return getattr(scipy.sparse, container)(dense)


def gen_block(rng, rows, cols):
    """A block without symmetry and with explicit zeros (so that a transposed or re-ordered reload shows)."""
    m = [[rnd_number(rng) * float(rng.random() < 0.7) for _ in range(cols)] for _ in range(rows)]
    m[0][cols - 1] = 1.0 + abs(rnd_number(rng))
    if rows > 1:
        m[rows - 1][0] = 0.0
    return m


def gen_cache_case(rng):
    n_in = int(rng.integers(2, 15))
    inputs = []
    for i in range(n_in):
        d = {"x": {"dtype": "float", "v": [rnd_number(rng) for _ in range(int(rng.integers(1, 5)))]}}
        if rng.random() < 0.5:
            d["n"] = {"dtype": "int", "v": [int(v) for v in rng.integers(-5, 5, size=2)]}
        if rng.random() < 0.2:
            d["s"] = {"dtype": "str", "v": [["abc", "de", "f_g"][int(rng.integers(3))]]}
        d["x"]["v"][0] = float(i) + 0.25  # distinct inputs
        inputs.append(d)
    ops = []
    for _ in range(int(rng.integers(n_in, 3 * n_in + 1))):
        i = int(rng.integers(n_in))
        if rng.random() < 0.65:
            outs = {"y": {"dtype": "float", "v": [rnd_number(rng) for _ in range(int(rng.integers(1, 4)))]}}
            if rng.random() < 0.4:
                outs["zz"] = {"dtype": "int" if rng.random() < 0.3 else "float", "v": [int(rng.integers(9)), 3]}
            ops.append({"op": "out", "i": i, "data": outs})
        else:
            nx = len(inputs[i]["x"]["v"])

            def a_container():
                return None if rng.random() < 0.2 else SPARSE_CONTAINERS[int(rng.integers(len(SPARSE_CONTAINERS)))]

            # square (non-symmetric) or rectangular blocks, each in its own container
            rows = nx if rng.random() < 0.5 else int(rng.integers(1, 5))
            data = {"y": {"x": gen_block(rng, rows, nx)}}
            containers = {"y": {"x": a_container()}}
            if rng.random() < 0.5:
                data["zz"] = {"x": gen_block(rng, nx if rng.random() < 0.5 else 2, nx)}
                containers["zz"] = {"x": a_container()}
            ops.append({"op": "jac", "i": i, "data": data, "containers": containers})
    return {"kind": "cache", "node": ["node", "a/b", "n_1"][int(rng.integers(3))], "inputs": inputs, "ops": ops}


def _arr(d):
    return np.array(d["v"], dtype={"float": float, "int": int, "str": str}[d["dtype"]])


def diff_mapping(exp, got):
    if set(exp) != set(got):
        return {"names": [sorted(exp), sorted(got)]}
    for k in exp:
        a, b = exp[k], got[k]
        if isinstance(a, dict):
            d = diff_mapping(a, b)
            if d:
                return {k: d}
            continue
        a = a.toarray() if hasattr(a, "toarray") else np.asarray(a)
        b = b.toarray() if hasattr(b, "toarray") else np.asarray(b)
        if a.shape != b.shape or a.dtype.kind != b.dtype.kind or not np.array_equal(a, b):
            return {k: {"expected": a, "observed": b}}
    return None


def run_cache_case(case, rep, scratch):
    from gemseo.caches.hdf5_cache import HDF5Cache

    rep.case(("cache", case["node"], len(case["inputs"]), "".join(o["op"][0] for o in case["ops"]),
              tuple(sorted({k for d in case["inputs"] for k in d})),
              tuple(sorted({str(c) for o in case["ops"] for r in (o.get("containers") or {}).values() for c in r.values()}))),
             True)
    rep.count("cache_cases")
    _counter[0] += 1
    workdir = os.path.join(scratch, f"c11_cache_{os.getpid()}_{_counter[0]}")
    os.makedirs(workdir)
    path = os.path.join(workdir, "cache.h5")
    node = case["node"]
    model = []  # [index into inputs, outputs or None, jac or None], order of first appearance

    def find(i):
        for m in model:
            if m[0] == i:
                return m
        model.append([i, None, None, {}])
        return model[-1]

    def container_of(m, d):
        """The container of the first differing Jacobian block (for the signature)."""
        for out, row in (d or {}).items():
            if isinstance(row, dict):
                for inp in row:
                    return (m[3].get(out) or {}).get(inp) or "dense"
        return "unknown"

    def inputs_of(i):
        return {k: _arr(d) for k, d in case["inputs"][i].items()}

    def check(cache, label):
        try:
            entries = list(cache.get_all_entries())
            n = len(cache)
        except Exception as e:
            rep.violation(f"C11:cache:{label}:exception:{type(e).__name__}", "second instance reads the entries", case,
                          observed=f"{type(e).__name__}: {e}"[:400])
            return
        census(rep, scratch, f"HDF5Cache.get_all_entries:{label}", case)
        rep.count("cache_instances_compared")
        if n != len(model) or len(entries) != len(model):
            rep.violation(f"C11:cache:{label}:entry-count", "same entries", case, observed=[n, len(entries)],
                          expected=len(model))
            return
        for pos, (m, e) in enumerate(zip(model, entries)):
            for grp, exp, got in (("inputs", inputs_of(m[0]), e.inputs), ("outputs", m[1] or {}, e.outputs or {}),
                                  ("jacobian", m[2] or {}, e.jacobian or {})):
                d = diff_mapping(exp, got)
                if d:
                    feat = f":{container_of(m, d)}" if grp == "jacobian" else ""
                    rep.violation(f"C11:cache:{label}:{grp}-differ{feat}", "same entries in the same order", case,
                                  observed=d, expected={"position": pos})
                    return
            if label != "first-instance":
                for row in m[3].values():
                    for cont in row.values():
                        rep.count(f"cache_reopened_jac_blocks_{cont or 'dense'}")
        # look-ups
        for m in model:
            e = cache[inputs_of(m[0])]
            d = diff_mapping(m[1] or {}, e.outputs or {}) or diff_mapping(m[2] or {}, e.jacobian or {})
            if d:
                rep.violation(f"C11:cache:{label}:lookup-differs", "same entries", case, observed=d)
                return
        census(rep, scratch, f"HDF5Cache.__getitem__:{label}", case)

    try:
        cache = HDF5Cache(hdf_file_path=path, hdf_node_path=node)
        for op in case["ops"]:
            m = find(op["i"])
            if op["op"] == "out":
                data = {k: _arr(d) for k, d in op["data"].items()}
                cache.cache_outputs(inputs_of(op["i"]), data)
                if m[1] is None:
                    m[1] = data
            else:
                conts = op.get("containers") or {o: {i_: ("csr_array" if op.get("sparse") else None) for i_ in row}
                                                 for o, row in op["data"].items()}
                jac = {o: {i_: make_block(v, conts[o][i_]) for i_, v in row.items()} for o, row in op["data"].items()}
                cache.cache_jacobian(inputs_of(op["i"]), jac)
                if m[2] is None:
                    # the model keeps dense copies made by the harness, not the objects handed to gemseo
                    m[2] = {o: {i_: np.array(v, dtype=float) for i_, v in row.items()} for o, row in op["data"].items()}
                    m[3] = conts
                    for o, row in m[2].items():
                        for i_, blk in row.items():
                            if conts[o][i_]:
                                rep.count("cache_sparse_blocks_square" if blk.shape[0] == blk.shape[1] > 1
                                          else "cache_sparse_blocks_rectangular")
        census(rep, scratch, "HDF5Cache.cache_outputs", case)
        check(cache, "first-instance")
        check(HDF5Cache(hdf_file_path=path, hdf_node_path=node), "second-instance-same-file")
        copy_path = os.path.join(workdir, "copy_of_cache.h5")
        shutil.copy(path, copy_path)
        third = HDF5Cache(hdf_file_path=copy_path, hdf_node_path=node)
        check(third, "instance-on-a-copy-of-the-file")
        # continue on the copy, re-open again
        extra_in = {"x": np.array([1234.5, 6.0])}
        extra_out = {"y": np.array([7.0])}
        third.cache_outputs(extra_in, extra_out)
        fourth = HDF5Cache(hdf_file_path=copy_path, hdf_node_path=node)
        e = fourth[extra_in]
        rep.count("cache_continued_after_reopen")
        if len(fourth) != len(model) + 1 or diff_mapping(extra_out, e.outputs or {}):
            rep.violation("C11:cache:continued-after-reopen:entry-differs", "same entries", case,
                          observed={"len": len(fourth), "outputs": e.outputs}, expected={"len": len(model) + 1})
        census(rep, scratch, "HDF5Cache:continued", case)
    except Exception as e:
        rep.violation(f"C11:cache:exception:{type(e).__name__}", "cache history runs", case,
                      observed=f"{type(e).__name__}: {e}"[:500])
    finally:
        shutil.rmtree(workdir, ignore_errors=True)


# =========================================================================== directed cases
def _st(p, what="new", **outs):
    return {"op": "store", "p": p, "o": outs, "what": what}


def F(v):
    return {"k": "float", "v": v}


def V(*v):
    return {"k": "vec", "v": list(v)}


def directed_db_cases():
    base = {"kind": "db", "n": 2, "int_points": False, "node": "", "init": "fresh", "space": None, "prefill": []}
    out = []
    # the design-phase probe p9: names arriving unsorted, outputs at existing points across three appends
    out.append(dict(base, ops=[
        _st([1.0, 2.0], f=F(1.0)), _st([3.0, 4.0], "new-empty"), {"op": "append"},
        _st([3.0, 4.0], "more", g=V(1.0, 2.0), a=F(3.0)),
        _st([1.0, 2.0], "more", **{"@f": {"k": "mat", "v": [[1.0, 2.0]]}, "b": F(2.0), "Iter": {"k": "ilist", "v": [1]}}),
        _st([5.0, 6.0], f=F(7.0)), {"op": "append"}, _st([1.0, 2.0], "more", aa=F(5.0)), {"op": "append"}]))
    # vector before scalar before vector at the same point, each in its own append
    out.append(dict(base, node="grp/sub", ops=[
        _st([0.5, 0.25], z=V(1.0, 2.0, 3.0)), {"op": "append"}, _st([0.5, 0.25], "more", m=F(4.0)), {"op": "append"},
        _st([0.5, 0.25], "more", a=V(5.0, 6.0), b={"k": "a1", "v": [7.0]}), {"op": "append"},
        _st([0.5, 0.25], "more", **{"0": F(8.0)}), {"op": "append"}]))
    # empty entry exported, filled later; store(point, {}) at an existing point
    out.append(dict(base, ops=[_st([1.0, 1.0], "new-empty"), {"op": "append"}, _st([1.0, 1.0], "empty-at-existing"),
                               {"op": "append"}, _st([1.0, 1.0], "more", f=F(2.0)), {"op": "append"}]))
    # integer points, reload and continue
    out.append(dict(base, int_points=True, ops=[_st([1, 2], f=F(1.0)), {"op": "append"}, {"op": "reload_continue"},
                                                _st([1, 2], "more", g={"k": "int", "v": 3}), _st([2, 2], f=F(0.5)),
                                                {"op": "append"}]))
    # a full export to a second file between two appends
    out.append(dict(base, ops=[_st([1.0, 2.0], f=F(1.0)), {"op": "append"}, _st([3.0, 4.0], f=F(2.0)), {"op": "full"},
                               _st([5.0, 6.0], f=F(3.0)), {"op": "append"}]))
    # new outputs at an existing point, then an append to a third file, then the main append
    out.append(dict(base, ops=[_st([1.0, 2.0], f=F(1.0)), {"op": "append"}, _st([1.0, 2.0], "more", g=F(2.0)),
                               {"op": "append_other"}, {"op": "append"}]))
    # the same database backed up incrementally in two nodes of ONE file, in alternation: new point, then new
    # outputs at an existing point (root + nested node, then two nested nodes and a second file)
    new = {"kind": "db", "n": 2, "int_points": False, "full_node": "", "init": "fresh", "space": None, "prefill": []}

    def A(t):
        return {"op": "append", "t": t}

    for targets in ([["A", ""], ["A", "n1"]], [["A", "grp/sub"], ["A", "n1"], ["B", "n1"]]):
        k = len(targets)
        out.append(dict(new, targets=targets, ops=[
            _st([0.0, 1.0], f=F(1.0), g=V(1.0, 2.0)), *[A(t) for t in range(k)],
            _st([1.0, 2.0], f=F(2.0)), *[A(t) for t in range(k)],
            _st([0.0, 1.0], "more", **{"@f": {"k": "mat", "v": [[3.0, 4.0]]}, "h": F(5.0)}), *[A(t) for t in range(k)],
            _st([2.0, 3.0], "new-empty"), A(k - 1), _st([2.0, 3.0], "more", f=F(6.0)), A(0), A(k - 1)]))
    # reload from the second node and continue towards both nodes
    out.append(dict(new, targets=[["A", "n1"], ["A", ""]], ops=[
        _st([1.0, 1.0], f=F(1.0)), A(0), A(1), _st([2.0, 2.0], f=F(2.0)), {"op": "reload_continue", "t": 1},
        _st([1.0, 1.0], "more", g=F(3.0)), A(0), _st([3.0, 3.0], f=F(4.0)), A(1), A(0)]))
    return out


def directed_cache_cases():
    """One small cache history per sparse container: square non-symmetric and rectangular blocks."""
    x = lambda i: {"x": {"dtype": "float", "v": [i + 0.25, -1.5, 2.0]}}  # noqa: E731
    sq = [[1.0, 2.0, 3.0], [0.0, 4.0, 5.0], [0.0, 0.0, 6.0]]
    rect = [[0.0, 7.0, 8.0], [9.0, 0.0, 0.0]]
    row = [[0.0, 0.0, 10.0]]
    out = []
    for cont in SPARSE_CONTAINERS:
        out.append({"kind": "cache", "node": "node", "inputs": [x(0), x(1)], "ops": [
            {"op": "jac", "i": 0, "data": {"y": {"x": sq}, "zz": {"x": rect}},
             "containers": {"y": {"x": cont}, "zz": {"x": cont}}},
            {"op": "out", "i": 0, "data": {"y": {"dtype": "float", "v": [1.0, 2.0, 3.0]}}},
            {"op": "jac", "i": 1, "data": {"y": {"x": row}}, "containers": {"y": {"x": cont}}}]})
    return out


def directed_space_cases():
    inf = None
    p19 = [{"name": "alpha", "size": 2, "type": "float", "lb": [inf, 0.1234567890123456], "ub": [1 / 3, inf],
            "value": [0.1, 2 / 3]},
           {"name": "n", "size": 1, "type": "integer", "lb": [0], "ub": [10], "value": [3]},
           {"name": "novalue", "size": 1, "type": "float", "lb": [-1.0], "ub": [1.0], "value": None}]
    out = [{"kind": "ds", "space": p19, "formats": ["h5", "hdf5", "hdf", "csv", "txt"], "node": "deep/er/node"}]
    out.append({"kind": "ds", "formats": ["h5", "csv"], "node": "dsn", "space": [
        {"name": "x", "size": 1, "type": "float", "lb": [inf], "ub": [inf], "value": None},
        {"name": "xy", "size": 3, "type": "integer", "lb": [inf, -3, inf], "ub": [4, inf, inf], "value": [4, -3, 0]},
        {"name": "x_1", "size": 2, "type": "float", "lb": [1e-300, -1e300], "ub": [1e-300, 1e300],
         "value": [1e-300, 0.30000000000000004]}]})
    return out


def observe_outside_statement(rep, scratch):
    """Behaviours at the edge of the statement: recorded, never part of the verdict."""
    from gemseo.algos.database import Database

    workdir = os.path.join(scratch, "c11_observe")
    os.makedirs(workdir, exist_ok=True)
    try:
        path = os.path.join(workdir, "ow.h5")
        db = Database()
        db.store(np.array([1.0]), {"f": 1.0})
        db.to_hdf(path, append=True)
        db.store(np.array([1.0]), {"f": 2.0})  # overwrite of an existing output name
        db.to_hdf(path, append=True)
        r = Database.from_hdf(path, log=False)
        if float(r[np.array([1.0])]["f"]) != 2.0:
            rep.observe("overwritten-output-value-is-not-updated-by-an-append-export",
                        {"memory": 2.0, "file": float(r[np.array([1.0])]["f"])})
        try:
            case = {"kind": "ds", "formats": ["h5"], "node": "", "space": [
                {"name": "names", "size": 1, "type": "float", "lb": [0.0], "ub": [1.0], "value": [0.5]}]}
            ds = build_space(case["space"])
            ds.to_file(os.path.join(workdir, "names.h5"))
        except Exception as e:
            rep.observe("design-variable-called-'names'-cannot-be-written-to-hdf5", f"{type(e).__name__}: {e}"[:200])
        census(rep, scratch, "observations", None, counted=False)
    except Exception as e:
        rep.observe("observation-probe-failed", f"{type(e).__name__}: {e}"[:200])
    finally:
        import h5py

        for i in h5py.h5f.get_obj_ids(h5py.h5f.OBJ_ALL, h5py.h5f.OBJ_FILE):
            try:
                i.close()
            except Exception:
                pass
        shutil.rmtree(workdir, ignore_errors=True)


# =========================================================================== entry points
def run_shard(spec, rep):
    rng = np.random.default_rng(spec["seed"])
    scratch = spec["scratch"]
    if spec.get("shard", 0) == 0:
        for case in directed_db_cases():
            run_db_case(case, rep, scratch)
            rep.count("directed_cases")
        for case in directed_space_cases():
            run_space_case(case, rep, scratch)
            rep.count("directed_cases")
        for case in directed_cache_cases():
            run_cache_case(case, rep, scratch)
            rep.count("directed_cases")
        observe_outside_statement(rep, scratch)
    for i in range(spec["n_db"]):
        if rep.time_left() < 0:
            rep.count("stopped_on_time_budget")
            break
        case = gen_db_case(rng)
        run_db_case(case, rep, scratch)
        if i < 1:
            rep.sample({"case": case, "note": "database history: every export reloaded and compared with the model; "
                                              "appended file vs single final export at the end"})
    for i in range(spec["n_ds"]):
        if rep.time_left() < 0:
            rep.count("stopped_on_time_budget")
            break
        case = gen_space_case(rng)
        run_space_case(case, rep, scratch)
        if i < 1:
            rep.sample({"case": case, "note": "design space written to an HDF5 and a text file (+ nested node)"})
    for i in range(spec["n_pb"]):
        if rep.time_left() < 0:
            rep.count("stopped_on_time_budget")
            break
        case = gen_problem(rng)
        run_problem_case(case, rep, scratch)
        if i < 1:
            rep.sample({"case": case, "note": "problem saved after a short driver run and reloaded"})
    for i in range(spec["n_cache"]):
        if rep.time_left() < 0:
            rep.count("stopped_on_time_budget")
            break
        case = gen_cache_case(rng)
        run_cache_case(case, rep, scratch)
        if i < 1:
            rep.sample({"case": {k: v for k, v in case.items() if k != "ops"}, "n_ops": len(case["ops"]),
                        "note": "HDF5Cache history re-opened by a second instance and on a copy of the file"})


def replay(case, rep):
    scratch = rep.spec.get("scratch") or os.getcwd()
    kind = case.get("kind")
    if kind == "db":
        run_db_case(case, rep, scratch, shrink=False)
    elif kind == "ds":
        run_space_case(case, rep, scratch)
    elif kind == "problem":
        run_problem_case(case, rep, scratch)
    elif kind == "cache":
        run_cache_case(case, rep, scratch)
    else:
        raise ValueError(f"unknown case kind {kind!r}")
