"""C20 — serialized disciplines, processes and problems behave like the originals.

For an object ``o`` taken at some moment of its life and ``r = restore(serialize(o))``:

    (1) static    same grammars (names, required names, defaults, types), settings, public data attributes,
                  cache type and content, local data, status, residual history
    (2) behaviour same outputs / Jacobians / optimisation results on 3 fresh inputs (bitwise; 1e-13 for processes
                  that iterate); an exception raised by one must be raised by the other
    (3) independence  using / editing ``r`` leaves the observable state of ``o`` unchanged and vice versa, and no
                  mutable object is reachable from both (identity walk over the two object graphs; a file based
                  cache may refer to the same file singleton)
    (4) counters  execution statistics / ``n_calls`` of ``r`` equal those of ``o`` at serialization time, then evolve
                  independently
    (5) purity    serializing does not change the observable state of ``o``

Protocol "process": the pickle file is restored by vlib/gen/c20_child.py in a fresh interpreter whose PYTHONHASHSEED
is the creator's (the dispatcher forces 0 in every shard) or, mostly, a different one (case["hash_seed"]), as with
multiprocessing spawn / forkserver or from_pickle in another session: set / dict iteration orders of the creating and
of the restoring interpreter then differ.  Entries whose behaviour may depend on such orders (HASH_SENSITIVE_ENTRIES:
analytic disciplines with non-symmetric multi-input expressions, AutoPy, chains / MDAs built from them, grammars with
many names, ...) get several restoring seeds in both tiers.

Grammar life moments ("ops" / "grammar_ops"): read-only queries fill internal caches (cached schema, validator, pydantic
model) that edits may not invalidate; operation sequences (vlib.gen.c20_objects.random_grammar_ops + directed ones) are
applied to standalone grammars and to the grammars of disciplines before serializing; required names, defaults, types
and the validation verdicts on a data battery (every name left out in turn, wrong types, unknown name) must be equal,
and the disciplines are then executed on inputs with names left out at random.

Monitors: M4 (the restored twin is the differential oracle), M8 anchors.  See DESIGN.md section 3, C20.
The objects are built by ``vlib.gen.c20_objects`` (module level classes / functions so that pickle can find them).
"""

from __future__ import annotations

import collections
import copy
import enum
import functools
import io
import logging
import os
import pickle
import re
import sys
import types
import weakref
from pathlib import Path, PurePath

import numpy as np

from vlib.harness import subseed

PID = "C20"
LEVEL = "exploration"
RULE = (
    "table of objects (every class of the discipline and MDA factories that can be built offline, chains, scenarios "
    "per formulation, MDOFunction variants, design/parameter spaces, optimization problems, grammar and cache types, "
    "harness disciplines over generated coupled systems x grammar type x cache type) x life moment (fresh, after "
    "executions, after linearizations, after a failed execution, after a scenario/driver run, and - for standalone "
    "grammars of every type and for the input/output grammars of ten disciplines - after directed and seeded random "
    "sequences of read-only queries (schema, to_json, validate, to_simple_grammar, copy) interleaved with edits "
    "(required names add/remove/discard/clear, defaults, update_from_names/types, rename, restrict)) x protocol "
    "(pickle.dumps/loads with the default protocol and protocol 2, two successive pickle round trips, "
    "to_pickle/from_pickle, copy.deepcopy, and a pickle file restored and exercised in a fresh interpreter started with "
    "the creator's string hash seed or with another PYTHONHASHSEED in 1..9 derived from the case); a case is "
    "distinct by (entry, moment, protocol) and non-trivial when the round trip returned an object on which at "
    "least one behaviour comparison was made"
)
ASSUMPTIONS = [
    "the original and the restored object are driven in the same interpreter with the same inputs; equality is "
    "bitwise for single-pass disciplines and 1e-13 relative for iterating processes (MDA, ODE, scenarios)",
    "copy.deepcopy is not named by the property statement: a failure seen only under deepcopy is recorded as an "
    "observation, not as a violation",
    "the identity walk follows instance dictionaries, slots, containers, bound methods, partials and closure cells; "
    "classes importable by name, modules, functions, enum members, loggers and sympy objects count as immutable",
    "a file based cache (HDF5) legitimately shares its file singleton and lock; clearing the twin's file cache is "
    "not part of the independence test",
    "private attributes may differ (lazily rebuilt validators, dropped observers); only public plain-data "
    "attributes, grammars, defaults, settings, cache content, local data, status, histories and counters are compared",
]
ANCHORS = [
    "gemseo.core.serializable:Serializable.__getstate__",
    "gemseo.core.serializable:Serializable.__setstate__",
    "gemseo.core.grammars.json_grammar:JSONGrammar.__getstate__",
    "gemseo.core.grammars.json_grammar:JSONGrammar.__setstate__",
    "gemseo.core.grammars.pydantic_grammar:PydanticGrammar.__getstate__",
    "gemseo.core.grammars.pydantic_grammar:PydanticGrammar.__setstate__",
    "gemseo.caches.hdf5_cache:HDF5Cache.__getstate__",
    "gemseo.caches.hdf5_cache:HDF5Cache.__setstate__",
    "gemseo.core.discipline.discipline_data:DisciplineData.__getstate__",
    "gemseo.core.discipline.discipline_data:DisciplineData.__setstate__",
    "gemseo.core.execution_statistics:ExecutionStatistics._init_shared_memory_attrs_before",
    "gemseo.core.execution_status:ExecutionStatus._init_shared_memory_attrs_before",
    "gemseo.algos.problem_function:ProblemFunction._init_shared_memory_attrs_before",
    "gemseo.algos.doe.base_doe_library:BaseDOELibrary._init_shared_memory_attrs_after",
    "gemseo.disciplines.analytic:AnalyticDiscipline.__setstate__",
    "gemseo.problems.mdo.sobieski.disciplines:SobieskiDiscipline.__setstate__",
    "gemseo.utils.pickle:to_pickle",
    "gemseo.utils.pickle:from_pickle",
]
MIN_COUNTERS = {
    "quick": {"round_trips": 240, "complex_step_comparisons": 315,
              "complex_step_comparisons_with_nonzero_imaginary_outputs": 270, "round_trips_process": 40, "restored_under_a_different_hash_seed": 30,
              "restored_under_the_same_hash_seed": 10, "hash_sensitive_entries_restored_under_a_different_hash_seed": 24, "static_views_compared": 240, "behaviour_comparisons": 1200,
              "jacobian_comparisons": 500, "cached_input_replays": 100, "identity_walks": 230, "independence_checks": 1500,
              "counter_checks": 440, "counter_checks_with_nonzero_counters": 130, "purity_checks": 230,
              "moment_failed_cases": 10, "scenario_runs_compared": 9, "round_trips_kind_discipline": 180,
              "round_trips_kind_scenario": 9, "round_trips_kind_function": 22, "round_trips_kind_space": 7,
              "round_trips_kind_problem": 8, "round_trips_kind_grammar": 14, "round_trips_kind_cache": 4,
              "factory_classes_covered": 60, "grammar_op_sequences": 140,
              "grammar_op_sequences_with_cached_read_then_required_edit": 60, "grammar_ops_applied": 400,
              "grammar_validation_verdicts_compared": 2000},
    "thorough": {"round_trips": 1350, "complex_step_comparisons": 1000,
                 "complex_step_comparisons_with_nonzero_imaginary_outputs": 950, "round_trips_process": 200, "restored_under_a_different_hash_seed": 170,
                 "restored_under_the_same_hash_seed": 39, "hash_sensitive_entries_restored_under_a_different_hash_seed": 70, "static_views_compared": 1350,
                 "behaviour_comparisons": 6600, "jacobian_comparisons": 3000, "cached_input_replays": 600,
                 "identity_walks": 1250, "independence_checks": 8500, "counter_checks": 2500,
                 "counter_checks_with_nonzero_counters": 750, "purity_checks": 1250, "moment_failed_cases": 40,
                 "scenario_runs_compared": 40, "round_trips_kind_discipline": 1050, "round_trips_kind_scenario": 44,
                 "round_trips_kind_function": 100, "round_trips_kind_space": 32, "round_trips_kind_problem": 31,
                 "round_trips_kind_grammar": 64, "round_trips_kind_cache": 16, "factory_classes_covered": 60,
                 "grammar_op_sequences": 400, "grammar_op_sequences_with_cached_read_then_required_edit": 110,
                 "grammar_ops_applied": 1000, "grammar_validation_verdicts_compared": 5000},
}
SHARD_TIMEOUT = {"quick": 3000, "thorough": 14000}  # generous: only a guard against hanging (the machine may be shared)

PROTOCOLS = ("pickle", "pickle2", "to_pickle", "deepcopy", "pickle_twice")
N_SHARDS = 16


# =========================================================================== sharding
def shards(tier, seed):
    return [{"seed": subseed(seed, PID, i), "base_seed": seed, "n_shards": N_SHARDS, "budget_s": {"quick": 2400, "thorough": 12000}[tier]}
            for i in range(N_SHARDS)]


def moments_of(kind, entry):
    if kind == "discipline":
        m = ["fresh", "executed"]
        if entry.get("linearize", True):
            m.append("linearized")
        if entry.get("fail"):
            m.append("failed")
        if entry.get("grammar_ops"):
            m.append("grammar_ops")
        return m
    if kind == "scenario":
        return ["fresh", "run"]
    if kind == "function":
        return ["fresh", "evaluated"]
    if kind == "space":
        return ["fresh", "used", "edited"]
    if kind == "problem":
        return ["fresh", "evaluated", "preprocessed", "optimized"]
    if kind == "grammar":
        return ["fresh", "validated", "edited", "ops"]
    if kind == "cache":
        return ["fresh", "filled"]
    raise ValueError(kind)


ALL_MOMENTS = {"discipline": ["fresh", "executed", "linearized", "failed", "grammar_ops"], "scenario": ["fresh", "run"],
               "function": ["fresh", "evaluated"], "space": ["fresh", "used", "edited"],
               "problem": ["fresh", "evaluated", "preprocessed", "optimized"],
               "grammar": ["fresh", "validated", "edited", "ops"], "cache": ["fresh", "filled"]}


# =========================================================================== generic comparison
def _is_sparse(a):
    return hasattr(a, "toarray") and hasattr(a, "nnz")


def same(a, b, tol=0.0, path="", strict_type=False):
    """Return ``None`` when ``a`` and ``b`` are equal, else a short description ``path: what``."""
    if a is b:
        return None
    if _is_sparse(a) or _is_sparse(b):
        if _is_sparse(a) != _is_sparse(b):
            return f"{path}: sparse vs dense ({type(a).__name__} / {type(b).__name__})"
        if a.shape != b.shape:
            return f"{path}: shape {a.shape} / {b.shape}"
        return same(a.toarray(), b.toarray(), tol, path)
    if isinstance(a, np.ndarray) or isinstance(b, np.ndarray):
        if not (isinstance(a, np.ndarray) and isinstance(b, np.ndarray)):
            try:
                a, b = np.asarray(a), np.asarray(b)
            except Exception:
                return f"{path}: {type(a).__name__} / {type(b).__name__}"
        if a.shape != b.shape:
            return f"{path}: shape {a.shape} / {b.shape}"
        if a.dtype == object or b.dtype == object:
            for i, (u, v) in enumerate(zip(a.ravel().tolist(), b.ravel().tolist())):
                d = same(u, v, tol, f"{path}[{i}]")
                if d:
                    return d
            return None
        if a.dtype.kind in "US" or b.dtype.kind in "US":
            return None if np.array_equal(a, b) else f"{path}: string arrays differ"
        if tol == 0.0:
            ok = np.array_equal(a, b, equal_nan=True) if a.dtype.kind in "fc" or b.dtype.kind in "fc" else np.array_equal(a, b)
        else:
            with np.errstate(all="ignore"):
                ok = bool(np.all((np.abs(a - b) <= tol * (1.0 + np.maximum(np.abs(a), np.abs(b)))) | ((a != a) & (b != b))
                                 | (a == b)))
        if not ok:
            with np.errstate(all="ignore"):
                worst = float(np.nanmax(np.abs(np.asarray(a, dtype=complex) - np.asarray(b, dtype=complex)))) if a.size else 0.0
            return f"{path}: arrays differ (max abs diff {worst:.3g})"
        return None
    if isinstance(a, (float, complex, np.floating, np.complexfloating)) and isinstance(b, (int, float, complex, np.number)):
        return same(np.asarray(a), np.asarray(b), tol, path)
    if isinstance(a, dict) and isinstance(b, dict) or (isinstance(a, collections.abc.Mapping) and isinstance(b, collections.abc.Mapping)):
        ka, kb = list(a.keys()), list(b.keys())
        if set(map(repr, ka)) != set(map(repr, kb)):
            return f"{path}: keys {sorted(set(map(str, ka)) - set(map(str, kb)))} only in original, {sorted(set(map(str, kb)) - set(map(str, ka)))} only in restored"
        for k in ka:
            kk = k if k in b else next(x for x in kb if repr(x) == repr(k))
            d = same(a[k], b[kk], tol, f"{path}.{k}")
            if d:
                return d
        return None
    if isinstance(a, (list, tuple)) and isinstance(b, (list, tuple)):
        if len(a) != len(b):
            return f"{path}: length {len(a)} / {len(b)}"
        for i, (u, v) in enumerate(zip(a, b)):
            d = same(u, v, tol, f"{path}[{i}]")
            if d:
                return d
        return None
    if isinstance(a, (set, frozenset)) and isinstance(b, (set, frozenset)):
        ra, rb = sorted(map(repr, a)), sorted(map(repr, b))
        return None if ra == rb else f"{path}: sets differ {ra[:6]} / {rb[:6]}"
    if isinstance(a, PurePath) and isinstance(b, PurePath):
        return None if str(a) == str(b) else f"{path}: {a} / {b}"
    if isinstance(a, type) or isinstance(b, type):
        if a is b:
            return None
        na, nb = getattr(a, "__qualname__", repr(a)), getattr(b, "__qualname__", repr(b))
        return None if na == nb else f"{path}: types {na} / {nb}"
    try:
        eq = a == b
        if isinstance(eq, np.ndarray):
            eq = bool(eq.all())
        if eq:
            return None
    except Exception:
        pass
    ra, rb = _stable_repr(a), _stable_repr(b)
    if ra == rb:
        return None
    return f"{path}: {ra[:120]} / {rb[:120]}"


_ADDR = re.compile(r" at 0x[0-9a-fA-F]+")


def _stable_repr(o):
    try:
        return _ADDR.sub("", repr(o))
    except Exception:
        return f"<{type(o).__name__}>"


# =========================================================================== object graph walk
def _atomic_types():
    import multiprocessing.sharedctypes  # noqa: F401

    return (type(None), bool, int, float, complex, str, bytes, types.ModuleType, types.FunctionType,
            types.BuiltinFunctionType, types.MethodDescriptorType, types.WrapperDescriptorType, types.GetSetDescriptorType,
            types.MemberDescriptorType, enum.Enum, np.generic, np.dtype, re.Pattern, logging.Logger, range, slice,
            type(Ellipsis), type(NotImplemented), weakref.ReferenceType, property, staticmethod, classmethod,
            np.ufunc, type(len), types.CodeType, logging.Handler)


_ATOMIC = None
_IMMUTABLE_CONTAINERS = (tuple, frozenset, types.MappingProxyType, types.MethodType, functools.partial)
_SKIP_MODULE_PREFIXES = ("sympy", "mpmath", "h5py", "pydantic_core", "typing", "annotated_types", "jsonschema", "fastjsonschema",
                         "genson")


def _importable(cls):
    mod = sys.modules.get(getattr(cls, "__module__", None) or "")
    obj = mod
    try:
        for part in cls.__qualname__.split("."):
            obj = getattr(obj, part)
    except Exception:
        return False
    return obj is cls


def _is_pydantic_model(cls):
    try:
        from pydantic import BaseModel

        return issubclass(cls, BaseModel)
    except Exception:
        return False


def walk(root, allowed=None):
    """Map ``id -> (path, obj)`` of the mutable objects reachable from ``root``."""
    global _ATOMIC
    if _ATOMIC is None:
        _ATOMIC = _atomic_types()
    found, seen = {}, set()
    keep = []  # keep every visited object alive so that ids stay unique
    stack = [(root, "o")]
    allowed = allowed if allowed is not None else set()
    while stack:
        obj, path = stack.pop()
        if isinstance(obj, _ATOMIC):
            if isinstance(obj, types.FunctionType) and obj.__closure__:
                for i, cell in enumerate(obj.__closure__):
                    try:
                        stack.append((cell.cell_contents, f"{path}.<closure {obj.__code__.co_freevars[i]}>"))
                    except ValueError:
                        pass
            continue
        i = id(obj)
        if i in seen:
            continue
        seen.add(i)
        keep.append(obj)
        cls = type(obj)
        mod = getattr(cls, "__module__", "") or ""
        if isinstance(obj, type):
            if _importable(obj) or not _is_pydantic_model(obj):
                continue
            found[i] = (path, obj)  # a model class created at run time (PydanticGrammar edits its fields in place)
            mf = obj.__dict__.get("model_fields") if hasattr(obj, "__dict__") else None
            if isinstance(mf, dict):
                stack.append((mf, path + ".model_fields"))
            continue
        if mod.split(".")[0] in _SKIP_MODULE_PREFIXES:
            continue
        if cls.__name__ == "HDF5FileSingleton":
            allowed.add(i)
            lock = getattr(obj, "lock", None)
            if lock is not None:
                allowed.add(id(lock))
                keep.append(lock)
            continue
        if not isinstance(obj, _IMMUTABLE_CONTAINERS):
            found[i] = (path, obj)
        if mod.split(".")[0] in ("multiprocessing", "_thread", "threading", "_multiprocessing", "ctypes"):
            continue  # shared values and locks are leaves: their allocator (heap arena) is a process-wide global
        if isinstance(obj, np.ndarray):
            base = obj
            while isinstance(getattr(base, "base", None), np.ndarray):
                base = base.base
            if base is not obj and id(base) not in seen:
                seen.add(id(base))
                keep.append(base)
                found[id(base)] = (path + ".<base>", base)
            if obj.dtype == object:
                for k, v in enumerate(obj.ravel().tolist()):
                    stack.append((v, f"{path}[{k}]"))
            continue
        if isinstance(obj, types.MethodType):
            stack.append((obj.__self__, path + ".__self__"))
            stack.append((obj.__func__, path + ".__func__"))
            continue
        if isinstance(obj, functools.partial):
            stack.append((obj.func, path + ".func"))
            stack.append((obj.args, path + ".args"))
            stack.append((obj.keywords, path + ".keywords"))
            continue
        if isinstance(obj, (dict, types.MappingProxyType)):
            try:
                items = list(obj.items())
            except Exception:
                items = []
            for k, v in items:
                stack.append((k, f"{path}.<key {str(k)[:30]}>"))
                stack.append((v, f"{path}[{str(k)[:40]!r}]"))
        elif isinstance(obj, (list, tuple, set, frozenset, collections.deque)):
            for k, v in enumerate(list(obj)):
                stack.append((v, f"{path}[{k}]"))
        d = getattr(obj, "__dict__", None)
        if isinstance(d, dict):
            for k, v in list(d.items()):
                stack.append((v, f"{path}.{k}"))
        for klass in cls.__mro__:
            for s in getattr(klass, "__slots__", ()) or ():
                if isinstance(s, str) and s not in ("__dict__", "__weakref__"):
                    try:
                        stack.append((getattr(obj, s), f"{path}.{s}"))
                    except AttributeError:
                        pass
    return found, keep


def shared_objects(o, r):
    allowed = set()
    fo, keep_o = walk(o, allowed)
    fr, keep_r = walk(r, allowed)
    out = []
    for i in fo.keys() & fr.keys():
        if i in allowed:
            continue
        po, obj = fo[i]
        pr, _ = fr[i]
        out.append((po, pr.replace("o", "r", 1), type(obj).__name__))
    out.sort()
    return out, len(fo), len(fr)


def attribute_differences(o, r, limit=4000):
    """Instance attributes present on one side only, following the two graphs in parallel (observation only)."""
    out, seen, stack, n = [], set(), [(o, r, "o")], 0
    while stack and n < limit:
        a, b, path = stack.pop()
        if id(a) in seen or a is b:
            continue
        seen.add(id(a))
        n += 1
        da, db = getattr(a, "__dict__", None), getattr(b, "__dict__", None)
        if isinstance(da, dict) and isinstance(db, dict) and not isinstance(a, type):
            mod = (type(a).__module__ or "").split(".")[0]
            if mod in ("gemseo", "vlib") and set(da) != set(db):
                out.append((f"{path}<{type(a).__name__}>", sorted(set(da) - set(db)), sorted(set(db) - set(da))))
            for k in da.keys() & db.keys():
                stack.append((da[k], db[k], f"{path}.{k}"))
        if isinstance(a, dict) and isinstance(b, dict):
            for k in a.keys() & b.keys():
                try:
                    stack.append((a[k], b[k], f"{path}[{str(k)[:30]}]"))
                except Exception:
                    pass
        elif isinstance(a, (list, tuple)) and isinstance(b, (list, tuple)) and len(a) == len(b):
            for k, (u, v) in enumerate(zip(a, b)):
                stack.append((u, v, f"{path}[{k}]"))
    return out


def deep_snapshot(root):
    """A canonical, comparable picture of everything reachable from ``root`` (values, not identities)."""
    global _ATOMIC
    if _ATOMIC is None:
        _ATOMIC = _atomic_types()
    from multiprocessing.sharedctypes import Synchronized

    index = {}

    def snap(obj, depth):
        if isinstance(obj, (type(None), bool, int, str, bytes)):
            return obj
        if isinstance(obj, float):
            return ("f", repr(obj))
        if isinstance(obj, complex):
            return ("c", repr(obj))
        if isinstance(obj, enum.Enum):
            return ("e", str(obj))
        if isinstance(obj, np.generic):
            return ("g", obj.dtype.str, repr(obj.item()))
        if isinstance(obj, type):
            return ("t", getattr(obj, "__qualname__", "?"))
        if isinstance(obj, _ATOMIC):
            return ("a", type(obj).__name__, getattr(obj, "__qualname__", ""))
        i = id(obj)
        if i in index:
            return ("ref", index[i])
        index[i] = len(index)
        if depth > 60:
            return ("deep",)
        if isinstance(obj, Synchronized):
            return ("sync", repr(obj.value))
        if isinstance(obj, np.ndarray):
            if obj.dtype == object:
                return ("nd-o", obj.shape, tuple(snap(v, depth + 1) for v in obj.ravel().tolist()))
            return ("nd", obj.dtype.str, obj.shape, obj.tobytes())
        if _is_sparse(obj):
            c = obj.tocoo()
            return ("sp", type(obj).__name__, obj.shape, c.row.tobytes(), c.col.tobytes(), c.data.tobytes())
        cls = type(obj)
        mod = (getattr(cls, "__module__", "") or "").split(".")[0]
        if mod in _SKIP_MODULE_PREFIXES:
            return ("x", cls.__name__, _stable_repr(obj)[:200])
        if isinstance(obj, types.MethodType):
            return ("m", obj.__func__.__qualname__, snap(obj.__self__, depth + 1))
        if isinstance(obj, functools.partial):
            return ("p", snap(obj.func, depth + 1), snap(obj.args, depth + 1), snap(obj.keywords, depth + 1))
        parts = [cls.__name__]
        if isinstance(obj, (dict, types.MappingProxyType)):
            try:
                parts.append(tuple((snap(k, depth + 1), snap(v, depth + 1)) for k, v in list(obj.items())))
            except Exception:
                parts.append("<unreadable mapping>")
        elif isinstance(obj, (list, tuple, collections.deque)):
            parts.append(tuple(snap(v, depth + 1) for v in list(obj)))
        elif isinstance(obj, (set, frozenset)):
            parts.append(tuple(sorted((snap(v, depth + 1) for v in obj), key=repr)))
        d = getattr(obj, "__dict__", None)
        if isinstance(d, dict):
            parts.append(tuple((k, snap(v, depth + 1)) for k, v in list(d.items())))
        for klass in cls.__mro__:
            for s in getattr(klass, "__slots__", ()) or ():
                if isinstance(s, str) and s not in ("__dict__", "__weakref__"):
                    try:
                        parts.append((s, snap(getattr(obj, s), depth + 1)))
                    except AttributeError:
                        pass
        if len(parts) == 1:
            parts.append(_stable_repr(obj)[:120] if cls.__repr__ is not object.__repr__ else "")
        return tuple(parts)

    old = sys.getrecursionlimit()
    sys.setrecursionlimit(max(old, 20000))
    try:
        return snap(root, 0)
    finally:
        sys.setrecursionlimit(old)


def snapshot_diff(a, b, path="o"):
    """First place where two deep snapshots differ (best effort, for the message only)."""
    if a == b:
        return None
    if isinstance(a, tuple) and isinstance(b, tuple) and len(a) == len(b):
        for k, (u, v) in enumerate(zip(a, b)):
            if u != v:
                label = f"{path}/{u[0]}" if isinstance(u, tuple) and len(u) == 2 and isinstance(u[0], str) else f"{path}/{k}"
                if isinstance(u, tuple) and len(u) == 2 and isinstance(u[0], str) and isinstance(v, tuple) and len(v) == 2 and u[0] == v[0]:
                    return snapshot_diff(u[1], v[1], label)
                return snapshot_diff(u, v, label)
    ra, rb = repr(a), repr(b)
    return f"{path}: {ra[:80]} -> {rb[:80]}"


# =========================================================================== protocols
def roundtrip(obj, protocol, scratch, tag):
    if protocol == "pickle":
        return pickle.loads(pickle.dumps(obj))
    if protocol == "pickle2":
        return pickle.loads(pickle.dumps(obj, protocol=2))
    if protocol == "pickle_twice":  # the restored object is itself serialized and restored
        return pickle.loads(pickle.dumps(pickle.loads(pickle.dumps(obj))))
    if protocol == "to_pickle":
        from gemseo.utils.pickle import from_pickle, to_pickle

        p = Path(scratch) / f"{tag}.pkl"
        to_pickle(obj, p)
        return from_pickle(p)
    if protocol == "deepcopy":
        return copy.deepcopy(obj)
    raise ValueError(protocol)


# =========================================================================== adapters
def _plain(v, depth=0):
    """Whether ``v`` is plain data (numbers, strings, arrays, paths, enums and containers of those)."""
    if depth > 6:
        return False
    if isinstance(v, (type(None), bool, int, float, complex, str, bytes, np.generic, enum.Enum, PurePath)):
        return True
    if isinstance(v, np.ndarray):
        return v.dtype != object or all(_plain(x, depth + 1) for x in v.ravel().tolist())
    if _is_sparse(v):
        return True
    if isinstance(v, (list, tuple, set, frozenset)):
        return all(_plain(x, depth + 1) for x in v)
    if isinstance(v, (dict, types.MappingProxyType)) and type(v) in (dict, types.MappingProxyType, collections.OrderedDict):
        return all(_plain(k, depth + 1) and _plain(x, depth + 1) for k, x in v.items())
    return False


def public_attributes(obj):
    out = {}
    for k, v in getattr(obj, "__dict__", {}).items():
        if not k.startswith("_") and _plain(v):
            out[k] = copy.deepcopy(v)
    return out


def settings_view(obj):
    s = getattr(obj, "settings", None)
    if s is None:
        return None
    dump = getattr(s, "model_dump", None)
    if dump is None:
        return None
    try:
        d = dump()
    except Exception:
        return None
    return {k: (v if _plain(v) else _stable_repr(v)[:200]) for k, v in d.items()}


def grammar_view(g):
    if g is None:
        return None
    v = {"class": type(g).__name__, "name": g.name, "names": list(g.names), "required": sorted(g.required_names),
         "defaults": {k: copy.deepcopy(x) for k, x in g.defaults.items()}}
    try:
        v["to_namespaced"] = dict(g.to_namespaced)
        v["from_namespaced"] = dict(g.from_namespaced)
    except AttributeError:
        pass
    try:
        sg = g.to_simple_grammar()
        v["types"] = {n: getattr(sg[n], "__qualname__", repr(sg[n])) for n in sg.names}
    except Exception as e:
        v["types"] = f"to_simple_grammar raised {type(e).__name__}"
    return v


def cache_view(c):
    if c is None:
        return None
    v = {"class": type(c).__name__, "tolerance": c.tolerance, "name": c.name, "len": len(c)}
    entries = []
    for e in (c.get_all_entries() if len(c) else ()):  # HDF5Cache.get_all_entries asserts when its file does not exist yet
        entries.append({"inputs": dict(e.inputs), "outputs": dict(e.outputs),
                        "jacobian": {k: dict(x) for k, x in (e.jacobian or {}).items()}})
    v["entries"] = entries
    return v


def stats_view(obj):
    st = obj.execution_statistics
    return {"n_executions": st.n_executions, "n_linearizations": st.n_linearizations, "duration": st.duration}


def _subs(obj):
    for attr in ("disciplines", "_disciplines"):
        d = getattr(obj, attr, None)
        if isinstance(d, (list, tuple)) and d and all(hasattr(x, "execution_statistics") for x in d):
            return list(d)
    return []


def discipline_counters(obj, depth=0):
    out = {"self": stats_view(obj)}
    for a in ("n_run", "n_lin"):
        if hasattr(obj, a):
            out[a] = getattr(obj, a)
    if depth < 3:
        subs = _subs(obj)
        if subs:
            out["subs"] = [discipline_counters(s, depth + 1) for s in subs]
    for attr in ("mda_sequence", "inner_mdas"):
        inner = getattr(obj, attr, None)
        if isinstance(inner, (list, tuple)) and depth < 3:
            out[attr] = [discipline_counters(s, depth + 1) for s in inner]
    sc = getattr(obj, "scenario", None)
    if sc is not None and hasattr(sc, "execution_statistics"):
        out["scenario"] = stats_view(sc)
    return out


def strip_durations(c):
    if isinstance(c, dict):
        return {k: strip_durations(v) for k, v in c.items() if k != "duration"}
    if isinstance(c, list):
        return [strip_durations(v) for v in c]
    return c


def discipline_state(obj, depth=0, with_cache=True):
    """Observable state of a discipline (what clauses 3 and 5 require to be unchanged)."""
    v = {"data": {k: copy.deepcopy(x) for k, x in obj.io.data.items()},
         "input_defaults": {k: copy.deepcopy(x) for k, x in obj.io.input_grammar.defaults.items()},
         "output_defaults": {k: copy.deepcopy(x) for k, x in obj.io.output_grammar.defaults.items()},
         "status": str(obj.execution_status.value),
         "counters": discipline_counters(obj)}
    if with_cache:
        c = getattr(obj, "cache", None)
        v["cache_len"] = None if c is None else len(c)
    for a in ("residual_history", "normed_residual"):
        if hasattr(obj, a):
            v[a] = copy.deepcopy(getattr(obj, a))
    if hasattr(obj, "log"):
        v["log"] = list(obj.log)
    if depth < 2:
        subs = _subs(obj)
        if subs:
            v["subs"] = [discipline_state(s, depth + 1, with_cache) for s in subs]
    return v


def discipline_view(obj, depth=0):
    """Static view of a discipline (clause 1)."""
    v = {"class": type(obj).__name__, "name": obj.name,
         "in": grammar_view(obj.io.input_grammar), "out": grammar_view(obj.io.output_grammar),
         "settings": settings_view(obj), "public": public_attributes(obj),
         "cache": cache_view(getattr(obj, "cache", None)),
         "data": {k: copy.deepcopy(x) for k, x in obj.io.data.items()},
         "status": str(obj.execution_status.value)}
    jac = getattr(obj, "jac", None)
    if isinstance(jac, dict):
        v["jac"] = {k: dict(x) if isinstance(x, dict) else x for k, x in jac.items()}
    for a in ("residual_history", "normed_residual", "linearization_mode"):
        if hasattr(obj, a):
            x = getattr(obj, a)
            v[a] = copy.deepcopy(x) if _plain(x) else _stable_repr(x)
    try:
        v["residual_to_state"] = dict(obj.io.residual_to_state_variable)
    except Exception:
        pass
    if depth < 2:
        subs = _subs(obj)
        if subs:
            v["subs"] = [discipline_view(s, depth + 1) for s in subs]
    return v


def reset_status(obj, depth=0):
    """Put a failed process back to DONE (what a user must do before reusing it)."""
    try:
        st = obj.execution_status
        if str(st.value) != "DONE":
            st.value = st.Status.DONE
    except Exception:
        pass
    if depth < 4:
        for s in _subs(obj):
            reset_status(s, depth + 1)
        for attr in ("mda_sequence", "inner_mdas"):
            inner = getattr(obj, attr, None)
            if isinstance(inner, (list, tuple)):
                for s in inner:
                    reset_status(s, depth + 1)
        for attr in ("mdo_chain", "scenario"):
            s = getattr(obj, attr, None)
            if s is not None and hasattr(s, "execution_status"):
                reset_status(s, depth + 1)


def attempt(f, *a, **k):
    """Run ``f`` and return ``("ok", value)`` or ``("raise", type name, message)``."""
    try:
        return ("ok", f(*a, **k))
    except Exception as e:  # the comparison of the two outcomes is the oracle
        return ("raise", type(e).__name__, _ADDR.sub("", str(e))[:300])


def same_outcome(a, b, tol, path):
    if a[0] != b[0]:
        return f"{path}: original {'returned' if a[0] == 'ok' else 'raised ' + a[1] + ': ' + a[2][:150]}, restored {'returned' if b[0] == 'ok' else 'raised ' + b[1] + ': ' + b[2][:150]}"
    if a[0] == "raise":
        if a[1] != b[1]:
            return f"{path}: raised {a[1]} / {b[1]}"
        return None
    return same(a[1], b[1], tol, path)


def foreign_memory_arrays(obj):
    """Paths of arrays whose memory is owned by nobody (views of a transient buffer of a compiled solver)."""
    found, _keep = walk(obj)
    out = []
    for path, a in found.values():
        if isinstance(a, np.ndarray) and a.size and not a.flags.owndata and a.base is None:
            out.append(path)
    return out


# ---------------------------------------------------------------------------
class Ctx:
    """One (entry, moment, protocol) case: reporting helpers shared by the adapters."""

    def __init__(self, rep, case, entry_name, protocol):
        self.rep, self.case, self.entry, self.protocol = rep, case, entry_name, protocol
        self.cls = entry_name.split(":")[0]
        self.failed = 0

    def state_moved(self, what, d, owner):
        """The idle twin's observable state moved while the other one was used."""
        if ".data" in d and "arrays differ" in d:
            foreign = foreign_memory_arrays(owner)
            if foreign:
                # local data that are views of a buffer freed by a compiled solver change whenever that memory is
                # reused: not an effect of serialization (seen with MDAQuasiNewton / scipy.optimize.root)
                self.rep.observe("local-data-alias-a-transient-solver-buffer", {"entry": self.entry, "where": foreign[:3], "diff": d})
                self.rep.count("state_moves_explained_by_foreign_memory")
                return
        self.fail("independence", what + ":" + _path_head(d), d)

    def fail(self, clause, what, detail, observed=None, expected=None):
        """Report a failed oracle: a violation under pickle, an observation under deepcopy only."""
        self.failed += 1
        sig = f"C20:{clause}:{what}" if clause == "roundtrip" else f"C20:{clause}:{what}:{self.cls}"
        if self.protocol == "deepcopy":
            self.rep.observe("under-deepcopy:" + sig, {"case": self.case, "detail": detail})
            self.rep.count("deepcopy_findings_recorded_as_observations")
            return
        self.rep.violation(sig, clause, self.case, observed=observed if observed is not None else detail,
                           expected=expected, msg=str(detail)[:600])


def _path_head(desc):
    """First components of a ``same`` description, used as the mechanism part of a signature."""
    head = desc.split(":")[0].strip(".")
    head = re.sub(r"\[\d+\]", "[]", head)
    parts = [p for p in head.split(".") if p]
    return ".".join(parts[:3])[:60] or "value"


def draw_inputs(entry, obj, rng, k):
    inp = entry["inputs"]
    x = inp(rng, k, obj=obj) if getattr(inp, "needs_obj", False) else inp(rng, k)
    if entry.get("partial_inputs"):
        # grammar life moments: leave names out at random so that required names and defaults decide the outcome
        x = {n: v for n, v in x.items() if rng.random() < 0.55}
    return x


# --------------------------------------------------------------------------- discipline adapter
def disc_exec(obj, x):
    out = obj.execute({k: np.array(v, copy=True) if isinstance(v, np.ndarray) else v for k, v in x.items()})
    return {k: copy.deepcopy(v) for k, v in out.items()}


def disc_lin(obj, x, all_=True):
    jac = obj.linearize({k: np.array(v, copy=True) if isinstance(v, np.ndarray) else v for k, v in x.items()},
                        compute_all_jacobians=all_)
    return {o: {i: (J.copy() if hasattr(J, "copy") else J) for i, J in ji.items()} for o, ji in jac.items()}


CSTEP = 1e-30


def complex_perturbed(x):
    """``x + 1e-30j`` on every numeric array / float of an input dictionary (complex-step perturbation)."""
    out = {}
    for k, v in x.items():
        if isinstance(v, np.ndarray) and v.dtype.kind in "fc":
            out[k] = v + CSTEP * 1j
        elif isinstance(v, float):
            out[k] = complex(v, CSTEP)
        else:
            out[k] = v
    return out


def disc_exec_complex(obj, x):
    """Outputs at ``x + 1e-30j`` split into real parts and complex-step directional derivatives ``imag / 1e-30``."""
    out = disc_exec(obj, complex_perturbed(x))
    res = {"re": {}, "d": {}}
    for k, v in out.items():
        a = np.asarray(v) if isinstance(v, (np.ndarray, float, complex, np.number)) else None
        if a is None or a.dtype.kind not in "fciu":
            res["re"][k] = v
            continue
        res["re"][k] = np.real(a).copy()
        res["d"][k] = np.imag(a) / CSTEP
    return res


def apply_moment_discipline(entry, obj, moment, rng, rep):
    if moment == "fresh":
        return True
    if moment == "executed":
        for k in range(2):
            x = draw_inputs(entry, obj, rng, 100 + k)
            entry.setdefault("moment_inputs", []).append(x)
            disc_exec(obj, x)
        return True
    if moment == "linearized":
        x = draw_inputs(entry, obj, rng, 200)
        entry.setdefault("moment_inputs", []).append(x)
        disc_exec(obj, x)
        res = attempt(disc_lin, obj, x, entry.get("lin_all", True))
        if res[0] == "raise":
            rep.observe("original-cannot-be-linearized", {"entry": type(obj).__name__, "error": res[1:]})
            reset_status(obj)
            return False
        return True
    if moment == "grammar_ops":
        from vlib.gen import c20_objects as gobj

        if entry.get("ops_pre_execute"):
            attempt(disc_exec, obj, draw_inputs(entry, obj, rng, 400))
            reset_status(obj)
        done = gobj.apply_grammar_ops({"in": obj.io.input_grammar, "out": obj.io.output_grammar}, entry["ops"])
        rep.count("grammar_ops_applied", done)
        entry["partial_inputs"] = True
        return True
    if moment == "failed":
        disc_exec(obj, draw_inputs(entry, obj, rng, 300))
        res = attempt(disc_exec, obj, entry["fail"])
        if res[0] != "raise":
            rep.observe("failure-injection-did-not-raise", type(obj).__name__)
            return False
        return True
    raise ValueError(moment)


def judge_discipline(cx, entry, o, r, rng, moment):
    rep, tol = cx.rep, entry.get("tol", 0.0)
    with_cache = True
    # (2)+(3a) behaviour on 3 fresh inputs, alternating who goes first; the idle one must not move
    can_lin = entry.get("linearize", True)
    if moment == "failed":
        # both must refuse (or accept) to run again in the same way, then be reusable after a status reset
        x = draw_inputs(entry, o, rng, 10)
        a, b = attempt(disc_exec, o, x), attempt(disc_exec, r, x)
        rep.count("behaviour_comparisons")
        d = same_outcome(a, b, tol, "execute-after-failure")
        if d:
            cx.fail("behaviour", "execute-after-failure", d)
        reset_status(o)
        reset_status(r)
        if entry.get("twin_obj") is not None:
            reset_status(entry["twin_obj"])
    if moment == "grammar_ops":
        for label, go, gr in (("input", o.io.input_grammar, r.io.input_grammar), ("output", o.io.output_grammar, r.io.output_grammar)):
            for k, (a, b) in enumerate(zip(_grammar_exercise(go), _grammar_exercise(gr))):
                rep.count("behaviour_comparisons")
                rep.count("grammar_validation_verdicts_compared")
                d = same_outcome(a, b, 0.0, f"{label}-grammar-validate[{k}]")
                if d:
                    cx.fail("behaviour", f"{label}-grammar-validation-verdicts-differ", d, observed=b, expected=a)
    twin = entry.get("twin_obj")  # file based cache: a second original on another file plays the original's part
    ref = twin if twin is not None else o
    # replay the inputs of the life moment: both must answer from their cache (hit), identically
    for x in entry.get("moment_inputs", [])[-1:]:
        c_before = (strip_durations(discipline_counters(o)), strip_durations(discipline_counters(r)))
        a, b = attempt(disc_exec, o, x), attempt(disc_exec, r, x)
        rep.count("behaviour_comparisons")
        rep.count("cached_input_replays")
        d = same_outcome(a, b, tol, "outputs-at-a-cached-input")
        if d:
            cx.fail("behaviour", "outputs-differ-at-a-cached-input", d, observed=b, expected=a)
        c_after = (strip_durations(discipline_counters(o)), strip_durations(discipline_counters(r)))
        d = same(c_after[0], c_after[1], 0.0, "counters")
        if d and not same(c_before[0], c_before[1], 0.0, "counters"):
            cx.fail("static", "cache-hit-on-one-recomputation-on-the-other:" + _path_head(d), d, observed=c_after[1], expected=c_after[0])
        reset_status(o)
        reset_status(r)
    for k in range(3):
        x = draw_inputs(entry, o, rng, k)
        first, second = (r, ref) if (k % 2 == 0 or twin is not None) else (ref, r)
        if twin is not None:
            o_before = discipline_state(o, with_cache=False)
        idle_before = discipline_state(second, with_cache=not entry.get("file_cache"))
        res_first = attempt(disc_exec, first, x)
        idle_after = discipline_state(second, with_cache=not entry.get("file_cache"))
        rep.count("independence_checks")
        d = same(idle_before, idle_after, 0.0, "state")
        if d:
            cx.state_moved("executing-one-changes-the-other", d, second)
        if twin is not None:
            d = same(o_before, discipline_state(o, with_cache=False), 0.0, "state")
            if d:
                cx.state_moved("executing-the-restored-changes-the-original", d, o)
        res_second = attempt(disc_exec, second, x)
        res_o, res_r = (res_second, res_first) if first is r else (res_first, res_second)
        rep.count("behaviour_comparisons")
        d = same_outcome(res_o, res_r, tol, "outputs")
        if d:
            cx.fail("behaviour", "outputs-differ" if res_o[0] == res_r[0] else "one-raises", d,
                    observed={"restored": res_r}, expected={"original": res_o})
        if res_o[0] == "raise" or res_r[0] == "raise":
            reset_status(o)
            reset_status(r)
            rep.count("executions_that_raised_on_both" if res_o[0] == res_r[0] else "executions_that_raised_on_one")
            continue
        if can_lin:
            idle_before = discipline_state(second, with_cache=not entry.get("file_cache"))
            j_first = attempt(disc_lin, first, x, entry.get("lin_all", True))
            idle_after = discipline_state(second, with_cache=not entry.get("file_cache"))
            rep.count("independence_checks")
            d = same(idle_before, idle_after, 0.0, "state")
            if d:
                cx.state_moved("linearizing-one-changes-the-other", d, second)
            j_second = attempt(disc_lin, second, x, entry.get("lin_all", True))
            j_o, j_r = (j_second, j_first) if first is r else (j_first, j_second)
            rep.count("jacobian_comparisons")
            d = same_outcome(j_o, j_r, tol, "jacobian")
            if d:
                cx.fail("behaviour", "jacobians-differ" if j_o[0] == j_r[0] else "one-raises-in-linearize", d,
                        observed={"restored": j_r}, expected={"original": j_o})
            if j_o[0] == "raise" or j_r[0] == "raise":
                if j_o[0] == j_r[0] == "raise":
                    rep.observe("linearize-raises-on-both", {"entry": cx.entry, "error": j_o[1:]})
                    can_lin = False
                reset_status(o)
                reset_status(r)
    # (2c) complex-perturbed input: real parts and imag/1e-30 of the outputs must agree (non-default dtypes, data
    # processors and rebuilt numerical cores only show there)
    x = draw_inputs(entry, o, rng, 30)
    c_o = attempt(disc_exec_complex, ref, x)
    c_r = attempt(disc_exec_complex, r, x)  # always both, so that the counters keep evolving identically
    if c_o[0] == "raise":
        rep.count("complex_step_skipped_original_rejects_complex_inputs")
        rep.observe("complex-inputs-rejected-by-the-original", {"entry": cx.entry, "error": c_o[1:]})
        reset_status(ref)
        d = same_outcome(c_o, c_r, tol, "complex-step")
        if d:
            cx.fail("behaviour", "complex-input-rejected-by-one-only", d, observed=c_r, expected=c_o)
        reset_status(r)
    else:
        rep.count("complex_step_comparisons")
        rep.count("behaviour_comparisons")
        if any(np.any(np.asarray(v) != 0) for v in c_o[1]["d"].values()):
            rep.count("complex_step_comparisons_with_nonzero_imaginary_outputs")
        d = same_outcome(c_o, c_r, tol, "complex-step")
        if d:
            cx.fail("behaviour", "complex-step-outputs-differ:" + _path_head(d), d, observed=c_r, expected=c_o)
        if c_r[0] == "raise":
            reset_status(r)
    # (4) counters evolved identically (same operations from the same starting values)
    co, cr = strip_durations(discipline_counters(ref)), strip_durations(discipline_counters(r))
    rep.count("counter_checks")
    d = same(co, cr, 0.0, "counters")
    if d:
        cx.fail("counters", "diverge-after-identical-use:" + _path_head(d), d, observed=cr, expected=co)
    if twin is not None:
        # what the restored wrote is in the file of the original (attached), and the two handles are now out of sync
        x = draw_inputs(entry, o, rng, 0)
        res = attempt(disc_exec, o, draw_inputs(entry, o, np.random.default_rng(0), 0))
        if res[0] == "raise":
            rep.observe("two-handles-on-one-hdf5-node-get-out-of-sync", {"entry": cx.entry, "error": res[1:]})
            reset_status(o)
    # (3b) edit the restored twin: change a default, clear / fill its cache; the original must not move
    before = discipline_state(o, with_cache=not entry.get("file_cache"))
    view_before = None if entry.get("file_cache") else cache_view(getattr(o, "cache", None))
    names = [n for n, v in r.io.input_grammar.defaults.items() if isinstance(v, np.ndarray) and v.dtype.kind == "f"]
    if names:
        r.io.input_grammar.defaults[names[0]] = r.io.input_grammar.defaults[names[0]] + 1.0
        r.io.input_grammar.defaults[names[-1]][...] = 7.0  # in place
    r.io.data["__c20__"] = 1.0
    if getattr(r, "cache", None) is not None and not entry.get("file_cache"):
        r.cache.clear()
    if hasattr(r, "log"):
        r.log.append("edited")
    for s in _subs(r):
        try:
            for n, v in s.io.input_grammar.defaults.items():
                if isinstance(v, np.ndarray) and v.dtype.kind == "f":
                    v[...] = -3.0
        except Exception:
            pass
    after = discipline_state(o, with_cache=not entry.get("file_cache"))
    rep.count("independence_checks")
    d = same(before, after, 0.0, "state")
    if d:
        cx.fail("independence", "editing-the-restored-changes-the-original:" + _path_head(d), d)
    if view_before is not None:
        d = same(view_before, cache_view(getattr(o, "cache", None)), 0.0, "cache")
        if d:
            cx.fail("independence", "clearing-the-restored-cache-changes-the-original:" + _path_head(d), d)
    # and the other way round: fill the original's cache, the restored one stays empty
    if getattr(r, "cache", None) is not None and not entry.get("file_cache"):
        n_r = len(r.cache)
        x = draw_inputs(entry, o, rng, 20)
        attempt(disc_exec, o, x)
        reset_status(o)
        rep.count("independence_checks")
        if len(r.cache) != n_r:
            cx.fail("independence", "filling-the-original-cache-changes-the-restored", f"len {n_r} -> {len(r.cache)}")


# --------------------------------------------------------------------------- scenario adapter
def scenario_view(sc):
    pb = sc.formulation.optimization_problem
    v = {"class": type(sc).__name__, "name": sc.name, "formulation": type(sc.formulation).__name__,
         "disciplines": [d.name for d in sc.disciplines], "problem": problem_view(pb),
         "public": public_attributes(sc), "result": result_view(getattr(sc, "optimization_result", None)),
         "settings": settings_view(sc.formulation)}
    s = getattr(sc, "_settings", None)
    if s is not None and hasattr(s, "model_dump"):
        try:
            v["algo_settings"] = {k: (x if _plain(x) else _stable_repr(x)[:200]) for k, x in s.model_dump().items()}
        except Exception:
            pass
    return v


def scenario_state(sc):
    pb = sc.formulation.optimization_problem
    v = {"n_db": len(pb.database), "x": copy.deepcopy(pb.design_space.get_current_value(as_dict=True)),
         "status": str(sc.execution_status.value), "stats": strip_durations(stats_view(sc)),
         "result": result_view(getattr(sc, "optimization_result", None)),
         "disciplines": [strip_durations(discipline_counters(d)) for d in sc.disciplines if hasattr(d, "io")]}
    return v


def result_view(res):
    if res is None:
        return None
    out = {}
    for k in ("x_opt", "f_opt", "is_feasible", "n_obj_call", "n_grad_call", "n_constr_call", "status", "message",
              "optimizer_name", "constraint_values", "x_0", "x_opt_as_dict"):
        if hasattr(res, k):
            x = getattr(res, k)
            out[k] = copy.deepcopy(x) if _plain(x) else _stable_repr(x)[:200]
    return out


def database_view(db):
    out = []
    for x, vals in db.items():
        out.append({"x": np.array(x.unwrap() if hasattr(x, "unwrap") else x, copy=True), "values": {k: copy.deepcopy(v) for k, v in vals.items()}})
    return out


def space_view(ds):
    v = {"class": type(ds).__name__, "names": list(ds.variable_names), "dimension": ds.dimension}
    for n in ds.variable_names:
        v[n] = {"size": ds.get_size(n), "type": _stable_repr(ds.get_type(n)), "lb": copy.deepcopy(ds.get_lower_bound(n)),
                "ub": copy.deepcopy(ds.get_upper_bound(n))}
    v["current"] = {k: copy.deepcopy(x) for k, x in ds.get_current_value(as_dict=True).items()} if ds.has_current_value else None
    v["partial_current"] = {k: copy.deepcopy(x) for k, x in getattr(ds, "_DesignSpace__current_value", {}).items()}
    unc = getattr(ds, "uncertain_variables", None)
    if unc is not None:
        v["uncertain"] = list(unc)
        v["deterministic"] = list(ds.deterministic_variables)
        v["distributions"] = {n: _stable_repr(ds.distributions[n]) for n in unc}
    return v


def problem_view(pb):
    fns = {}
    for f in [pb.objective, *pb.constraints, *pb.observables]:
        fns[f.name] = function_view(f)
    v = {"class": type(pb).__name__, "space": space_view(pb.design_space), "functions": fns,
         "minimize": getattr(pb, "minimize_objective", None), "database": database_view(pb.database),
         "differentiation_method": str(pb.differentiation_method), "public": public_attributes(pb),
         "counter": {"current": pb.evaluation_counter.current, "maximum": pb.evaluation_counter.maximum}
         if hasattr(pb, "evaluation_counter") else None}
    try:
        v["preprocessed"] = bool(pb._OptimizationProblem__functions_are_preprocessed) if hasattr(pb, "_OptimizationProblem__functions_are_preprocessed") else None
    except Exception:
        pass
    return v


def function_view(f):
    v = {"class": type(f).__name__, "name": f.name, "f_type": str(f.f_type), "expr": f.expr, "input_names": list(f.input_names),
         "dim": f.dim, "output_names": list(f.output_names), "has_jac": f.has_jac, "special_repr": f.special_repr,
         "original_name": getattr(f, "original_name", None), "public": public_attributes(f)}
    for a in ("coefficients", "value_at_zero", "quad_coeffs", "linear_coeffs", "force_real", "positive", "sigma"):
        try:
            x = getattr(f, a)
        except Exception:
            continue
        v[a] = copy.deepcopy(x) if _plain(x) else _stable_repr(x)[:100]
    try:
        v["n_calls"] = f.n_calls
    except Exception:
        pass
    return v


def apply_moment_scenario(entry, sc, moment, rng, rep):
    if moment == "fresh":
        return True
    res = attempt(sc.execute, **entry["algo"])
    if res[0] == "raise":
        rep.observe("scenario-run-raised-on-the-original", {"error": res[1:]})
        return False
    return True


def judge_scenario(cx, entry, o, r, rng, moment):
    rep, tol = cx.rep, entry.get("tol", 1e-13)
    # run the restored scenario first, the original must not move; then run the original and compare
    idle_before = scenario_state(o)
    res_r = attempt(r.execute, **entry["algo"])
    idle_after = scenario_state(o)
    rep.count("independence_checks")
    d = same(idle_before, idle_after, 0.0, "state")
    if d:
        cx.fail("independence", "running-the-restored-changes-the-original:" + _path_head(d), d)
    res_o = attempt(o.execute, **entry["algo"])
    rep.count("scenario_runs_compared")
    rep.count("behaviour_comparisons")
    d = same_outcome(("ok", None) if res_o[0] == "ok" else res_o, ("ok", None) if res_r[0] == "ok" else res_r, tol, "execute")
    if d:
        cx.fail("behaviour", "one-run-raises", d, observed=res_r, expected=res_o)
    if res_o[0] == "raise":
        rep.observe("scenario-rerun-raises-on-both" if res_r[0] == "raise" else "scenario-rerun-raises-on-original",
                    {"entry": cx.entry, "moment": moment, "error": res_o[1:]})
    d = same(result_view(o.optimization_result), result_view(r.optimization_result), tol, "optimization_result")
    if d:
        cx.fail("behaviour", "optimization-results-differ:" + _path_head(d), d,
                observed=result_view(r.optimization_result), expected=result_view(o.optimization_result))
    rep.count("behaviour_comparisons")
    d = same(database_view(o.formulation.optimization_problem.database),
             database_view(r.formulation.optimization_problem.database), tol, "database")
    if d:
        cx.fail("behaviour", "histories-differ:" + _path_head(d), d)
    rep.count("counter_checks")
    d = same(scenario_state(o), scenario_state(r), tol, "state")
    if d:
        cx.fail("counters", "diverge-after-identical-use:" + _path_head(d), d)
    # edit the restored: its design space and database
    before = scenario_state(o)
    db_before = database_view(o.formulation.optimization_problem.database)
    ds = r.formulation.optimization_problem.design_space
    n0 = ds.variable_names[0]
    ds.set_current_variable(n0, np.asarray(ds.get_lower_bound(n0), dtype=float) + 0.123)
    r.formulation.optimization_problem.database.clear()
    rep.count("independence_checks")
    d = same(before, scenario_state(o), 0.0, "state") or same(db_before, database_view(o.formulation.optimization_problem.database), 0.0, "database")
    if d:
        cx.fail("independence", "editing-the-restored-changes-the-original:" + _path_head(d), d)


# --------------------------------------------------------------------------- function adapter
def func_eval(f, x):
    return {"value": copy.deepcopy(f.evaluate(np.array(x, copy=True)))}


def func_jac(f, x):
    return {"jac": copy.deepcopy(f.jac(np.array(x, copy=True)))}


def apply_moment_function(entry, f, moment, rng, rep):
    if moment == "evaluated":
        x = np.round(rng.uniform(-1, 1, entry["n"]), 3)
        f.evaluate(x)
        attempt(f.jac, x)
    return True


def judge_function(cx, entry, o, r, rng, moment):
    rep, tol = cx.rep, entry.get("tol", 0.0)
    for k in range(3):
        x = np.round(rng.uniform(-1.5, 1.5, entry["n"]), 3)
        first, second = (r, o) if k % 2 == 0 else (o, r)
        n_idle = function_view(second)
        a = attempt(func_eval, first, x)
        rep.count("independence_checks")
        d = same(n_idle, function_view(second), 0.0, "view")
        if d:
            cx.fail("independence", "evaluating-one-changes-the-other:" + _path_head(d), d)
        b = attempt(func_eval, second, x)
        ro, rr = (b, a) if first is r else (a, b)
        rep.count("behaviour_comparisons")
        d = same_outcome(ro, rr, tol, "evaluate")
        if d:
            cx.fail("behaviour", "values-differ" if ro[0] == rr[0] else "one-raises", d, observed=rr, expected=ro)
        if o.has_jac or r.has_jac:
            jo, jr = attempt(func_jac, o, x), attempt(func_jac, r, x)
            rep.count("jacobian_comparisons")
            d = same_outcome(jo, jr, tol, "jac")
            if d:
                cx.fail("behaviour", "jacobians-differ" if jo[0] == jr[0] else "one-raises-in-jac", d, observed=jr, expected=jo)
    rep.count("counter_checks")
    d = same(function_view(o), function_view(r), 0.0, "view")
    if d:
        cx.fail("counters" if "n_calls" in d else "static", "views-diverge-after-identical-use:" + _path_head(d), d)
    # edit the restored
    before = function_view(o)
    r.name = r.name + "_edited"
    try:
        r.input_names = [*list(r.input_names), "extra"]
    except Exception:
        pass
    for a in ("coefficients",):
        try:
            getattr(r, a)[...] = 0.0
        except Exception:
            pass
    rep.count("independence_checks")
    d = same(before, function_view(o), 0.0, "view")
    if d:
        cx.fail("independence", "editing-the-restored-changes-the-original:" + _path_head(d), d)
    x = np.round(rng.uniform(-1.5, 1.5, entry["n"]), 3)
    rep.count("behaviour_comparisons")


# --------------------------------------------------------------------------- space adapter
def apply_moment_space(entry, ds, moment, rng, rep):
    if moment == "fresh":
        return True
    if moment == "used":
        _space_exercise(ds, np.random.default_rng(1))
        return True
    if moment == "edited":
        _space_exercise(ds, np.random.default_rng(1))
        n0 = ds.variable_names[0]
        if n0 not in getattr(ds, "uncertain_variables", []):
            ds.set_lower_bound(n0, np.asarray(ds.get_lower_bound(n0)) - 0.5)
            ds.set_current_variable(n0, np.asarray(ds.get_lower_bound(n0), dtype=float) + 0.25)
        ds.add_variable("late", 2, lower_bound=-1.0, upper_bound=3.0, value=np.array([0.0, 1.0]))
        return True
    raise ValueError(moment)


def _finite_box(ds):
    lb, ub = ds.get_lower_bounds(), ds.get_upper_bounds()
    lb = np.where(np.isfinite(lb), lb, -5.0)
    ub = np.where(np.isfinite(ub), ub, 5.0)
    return lb, ub


def _space_exercise(ds, rng):
    out = {}
    lb, ub = _finite_box(ds)
    x = lb + (ub - lb) * rng.uniform(0.05, 0.95, lb.size)
    out["x"] = x
    out["normalize"] = attempt(lambda: ds.normalize_vect(x.copy()))
    out["unnormalize"] = attempt(lambda: ds.unnormalize_vect(rng.uniform(0.1, 0.9, lb.size)))
    out["round"] = attempt(lambda: ds.round_vect(x.copy()))
    out["project"] = attempt(lambda: ds.project_into_bounds(x * 3.0))
    out["to_dict"] = attempt(lambda: ds.convert_array_to_dict(x.copy()))
    out["membership"] = attempt(lambda: ds.check_membership(x * 3.0))
    out["indices"] = attempt(lambda: {k: list(v) for k, v in ds.get_variables_indexes(ds.variable_names).items()} if hasattr(ds, "get_variables_indexes") else None)
    out["active"] = attempt(lambda: ds.get_active_bounds(ds.project_into_bounds(x * 3.0)))
    if hasattr(ds, "uncertain_variables") and ds.uncertain_variables:
        out["sample"] = attempt(lambda: ds.compute_samples(4, as_dict=False))
        out["transform"] = attempt(lambda: ds.transform_vect(ds.project_into_bounds(x)))
        out["cdf"] = attempt(lambda: ds.evaluate_cdf({n: np.full(ds.get_size(n), 0.4) for n in ds.uncertain_variables}))
    return out


def judge_space(cx, entry, o, r, rng, moment):
    rep = cx.rep
    rep.count("behaviour_comparisons")
    res = attempt(lambda: bool(o == r))
    if res != ("ok", True):
        cx.fail("static", "restored-not-equal-to-original(__eq__)", f"o == r gave {res}")
    for k in range(3):
        s = int(rng.integers(1 << 30))
        before = space_view(o)
        er = _space_exercise(r, np.random.default_rng(s))
        rep.count("independence_checks")
        d = same(before, space_view(o), 0.0, "view")
        if d:
            cx.fail("independence", "using-the-restored-changes-the-original:" + _path_head(d), d)
        eo = _space_exercise(o, np.random.default_rng(s))
        for key in eo:
            if key == "sample":
                continue  # sampling consumes the global / distribution RNG state: compared below with a fixed seed
            rep.count("behaviour_comparisons")
            d = same_outcome(eo[key], er[key], 0.0, key) if isinstance(eo[key], tuple) else same(eo[key], er[key], 0.0, key)
            if d:
                cx.fail("behaviour", f"{key}-differs", d, observed=er[key], expected=eo[key])
    # edit the restored
    before = space_view(o)
    n0 = r.variable_names[0]
    if n0 not in getattr(r, "uncertain_variables", []):
        r.set_upper_bound(n0, np.asarray(r.get_upper_bound(n0)) + 1.0)
        if n0 in getattr(r, "_DesignSpace__current_value", {n0: 1}):
            r.set_current_variable(n0, np.asarray(r.get_lower_bound(n0), dtype=float) + 0.01)
    r.add_variable("only_in_restored", 1, lower_bound=0.0, upper_bound=1.0, value=0.5)
    if len(r.variable_names) > 2:
        r.remove_variable(r.variable_names[1])
    rep.count("independence_checks")
    d = same(before, space_view(o), 0.0, "view")
    if d:
        cx.fail("independence", "editing-the-restored-changes-the-original:" + _path_head(d), d)


# --------------------------------------------------------------------------- problem adapter
def apply_moment_problem(entry, pb, moment, rng, rep):
    if moment == "fresh":
        return True
    xs = [np.array([0.1, 0.2, 0.3]), np.array([-0.5, 1.0, 0.25])]
    if moment == "evaluated":
        for x in xs:
            pb.evaluate_functions(x, design_vector_is_normalized=False, jacobian_functions=())
        return True
    if moment == "preprocessed":
        pb.preprocess_functions()
        for x in xs:
            pb.objective.evaluate(x)
            for c in pb.constraints:
                c.evaluate(x)
            attempt(pb.objective.jac, x)
        return True
    if moment == "optimized":
        from gemseo import execute_algo

        res = attempt(execute_algo, pb, algo_name="SLSQP", max_iter=6)
        if res[0] == "raise":
            rep.observe("driver-run-raised-on-the-original", res[1:])
            return False
        return True
    raise ValueError(moment)


def _problem_exercise(pb, x):
    out = {}
    out["evaluate_functions"] = attempt(lambda: pb.evaluate_functions(x.copy(), design_vector_is_normalized=False,
                                                                      jacobian_functions=()))
    out["objective"] = attempt(lambda: copy.deepcopy(pb.objective.evaluate(x.copy())))
    out["objective_jac"] = attempt(lambda: copy.deepcopy(pb.objective.jac(x.copy())))
    out["constraints"] = attempt(lambda: [copy.deepcopy(c.evaluate(x.copy())) for c in pb.constraints])
    out["n_db"] = len(pb.database)
    out["optimum"] = attempt(lambda: result_view(pb.solution) if getattr(pb, "solution", None) is not None else None)
    out["history_optimum"] = attempt(lambda: tuple(copy.deepcopy(v) for v in pb.history.optimum) if len(pb.database) else None)
    return out


def judge_problem(cx, entry, o, r, rng, moment):
    rep, tol = cx.rep, 0.0
    for k in range(3):
        x = np.round(rng.uniform(-1.5, 1.5, 3), 3)
        before = problem_view(o)
        er = _problem_exercise(r, x)
        rep.count("independence_checks")
        d = same(before, problem_view(o), 0.0, "view")
        if d:
            cx.fail("independence", "using-the-restored-changes-the-original:" + _path_head(d), d)
        eo = _problem_exercise(o, x)
        for key in eo:
            rep.count("behaviour_comparisons")
            d = same_outcome(eo[key], er[key], tol, key) if isinstance(eo[key], tuple) and eo[key] and eo[key][0] in ("ok", "raise") else same(eo[key], er[key], tol, key)
            if d:
                cx.fail("behaviour", f"{key}-differs", d, observed=er[key], expected=eo[key])
    rep.count("counter_checks")
    d = same(problem_view(o), problem_view(r), 0.0, "view")
    if d:
        cx.fail("counters" if "n_calls" in d or "counter" in d else "static", "views-diverge-after-identical-use:" + _path_head(d), d)
    before = problem_view(o)
    r.database.clear()
    r.design_space.set_current_value(np.array([0.9, 0.9, 0.9]))
    r.objective.name = "renamed"
    rep.count("independence_checks")
    d = same(before, problem_view(o), 0.0, "view")
    if d:
        cx.fail("independence", "editing-the-restored-changes-the-original:" + _path_head(d), d)


# --------------------------------------------------------------------------- grammar adapter
def _grammar_probes(g):
    from vlib.gen.c20_objects import grammar_probe_value

    names = list(g.names)
    ok = {n: grammar_probe_value(g, n) for n in names}
    probes = [dict(ok), {}]
    for n in names[:8]:  # one name left out: decides on required names
        probes.append({k: v for k, v in ok.items() if k != n})
    for n in names[:4]:  # one value of a wrong type: decides on the types
        bad = dict(ok)
        bad[n] = "not a number" if not isinstance(ok[n], str) else 3
        probes.append(bad)
    probes.append(dict(ok, unknown_name=1.0))
    return probes


def _grammar_exercise(g):
    out = []
    for p in _grammar_probes(g):
        out.append(attempt(lambda p=p: g.validate(dict(p), raise_exception=True)))
    return out


def apply_moment_grammar(entry, g, moment, rng, rep):
    if moment == "fresh":
        return True
    if moment == "ops":
        from vlib.gen import c20_objects as gobj

        rep.count("grammar_ops_applied", gobj.apply_grammar_ops({"in": g, "out": g}, entry["ops"]))
        return True
    _grammar_exercise(g)
    if moment == "edited":
        g.update_from_names(["late"])
        g.required_names.discard("late")
        g.defaults["late"] = np.array([4.0])
        g.update_from_types({"flag": bool})
    return True


def judge_grammar(cx, entry, o, r, rng, moment):
    rep = cx.rep
    before = grammar_view(o)
    er = _grammar_exercise(r)
    rep.count("independence_checks")
    d = same(before, grammar_view(o), 0.0, "view")
    if d:
        cx.fail("independence", "validating-with-the-restored-changes-the-original:" + _path_head(d), d)
    eo = _grammar_exercise(o)
    for k, (a, b) in enumerate(zip(eo, er)):
        rep.count("behaviour_comparisons")
        rep.count("grammar_validation_verdicts_compared")
        d = same_outcome(a, b, 0.0, f"validate[{k}]")
        if d:
            cx.fail("behaviour", "validation-verdicts-differ", d, observed=b, expected=a)
    # edit the restored in every way a discipline does
    before = grammar_view(o)
    probes_before = _grammar_exercise(o)
    r.update_from_names(["only_in_restored"])
    r.defaults["only_in_restored"] = 1.0
    names = list(r.names)
    r.required_names.discard(names[0])
    for n, v in r.defaults.items():
        if isinstance(v, np.ndarray):
            v[...] = -9.0
    try:
        r.update_from_types({names[0]: str})
    except Exception:
        pass
    rep.count("independence_checks")
    d = same(before, grammar_view(o), 0.0, "view")
    if d:
        cx.fail("independence", "editing-the-restored-changes-the-original:" + _path_head(d), d)
    for k, (a, b) in enumerate(zip(probes_before, _grammar_exercise(o))):
        d = same_outcome(a, b, 0.0, f"validate[{k}]")
        if d:
            cx.fail("independence", "editing-the-restored-changes-the-original-verdicts", d)
    # the same edit applied to both keeps them equal (the restored grammar is still editable)
    ra = attempt(lambda: (o.update_from_names(["z_new"]), r.update_from_names(["z_new"])))
    rep.count("behaviour_comparisons")
    if ra[0] == "raise":
        cx.fail("behaviour", "update-after-restore-raises", ra[1:])


# --------------------------------------------------------------------------- cache adapter
def _cache_fill(c, k0=0):
    for k in range(2):
        x = {"x": np.array([1.0 + k0 + k, 2.0]), "z": np.array([0.5 * (k + 1)])}
        c.cache_outputs(x, {"y": np.array([3.0 + k, 4.0, 5.0]), "f": np.array([float(k)])})
        if k == 0:
            c.cache_jacobian(x, {"y": {"x": np.arange(6.0).reshape(3, 2), "z": np.ones((3, 1))},
                                 "f": {"x": np.array([[1.0, -1.0]]), "z": np.array([[2.0]])}})


def _cache_lookup(c):
    out = []
    for x in ({"x": np.array([1.0, 2.0]), "z": np.array([0.5])}, {"x": np.array([2.0, 2.0]), "z": np.array([1.0])},
              {"x": np.array([9.0, 2.0]), "z": np.array([0.5])}, {"x": np.array([1.0 + 1e-9, 2.0]), "z": np.array([0.5])}):
        e = c[x]
        out.append({"outputs": dict(e.outputs or {}), "jacobian": {k: dict(v) for k, v in (e.jacobian or {}).items()}})
    out.append(attempt(lambda: cache_view(c)["entries"][-1] if len(c) else None))
    return out


def apply_moment_cache(entry, c, moment, rng, rep):
    if moment == "filled":
        _cache_fill(c)
    return True


def judge_cache(cx, entry, o, r, rng, moment):
    rep = cx.rep
    rep.count("behaviour_comparisons")
    d = same(_cache_lookup(o), _cache_lookup(r), 0.0, "lookup")
    if d:
        cx.fail("behaviour", "lookups-differ:" + _path_head(d), d)
    if not entry.get("file_cache"):
        before = cache_view(o)
        _cache_fill(r, k0=10)
        rep.count("independence_checks")
        d = same(before, cache_view(o), 0.0, "cache")
        if d:
            cx.fail("independence", "filling-the-restored-changes-the-original:" + _path_head(d), d)
        r.clear()
        rep.count("independence_checks")
        d = same(before, cache_view(o), 0.0, "cache")
        if d:
            cx.fail("independence", "clearing-the-restored-changes-the-original:" + _path_head(d), d)
        _cache_fill(o, k0=20)
        if len(r) != 0:
            cx.fail("independence", "filling-the-original-changes-the-restored", f"len(restored) = {len(r)}")
    else:
        # file based: both see what either writes (the statement: stays attached to its file)
        _cache_fill(r, k0=10)
        rep.count("behaviour_comparisons")
        fresh = type(o)(hdf_file_path=o.hdf_file.hdf_file_path, hdf_node_path=o.hdf_node_path)
        d = same(cache_view(fresh)["entries"], cache_view(r)["entries"], 0.0, "file-content")
        if d:
            cx.fail("static", "restored-file-cache-detached-from-its-file", d)


KINDS = {
    "discipline": (apply_moment_discipline, judge_discipline, discipline_view, discipline_state),
    "scenario": (apply_moment_scenario, judge_scenario, scenario_view, scenario_state),
    "function": (apply_moment_function, judge_function, function_view, function_view),
    "space": (apply_moment_space, judge_space, space_view, space_view),
    "problem": (apply_moment_problem, judge_problem, problem_view, problem_view),
    "grammar": (apply_moment_grammar, judge_grammar, grammar_view, grammar_view),
    "cache": (apply_moment_cache, judge_cache, cache_view, cache_view),
}


def counters_of(kind, obj):
    if kind == "discipline":
        return discipline_counters(obj)
    if kind == "scenario":
        return {"self": stats_view(obj), "disciplines": [discipline_counters(d) for d in obj.disciplines if hasattr(d, "io")],
                "functions": {f.name: getattr(f, "n_calls", None) for f in [obj.formulation.optimization_problem.objective,
                                                                          *obj.formulation.optimization_problem.constraints]}}
    if kind == "function":
        return {"n_calls": getattr(obj, "n_calls", None)}
    if kind == "problem":
        return {"functions": {f.name: getattr(f, "n_calls", None) for f in [obj.objective, *obj.constraints, *obj.observables]},
                "counter": obj.evaluation_counter.current if hasattr(obj, "evaluation_counter") else None}
    return {}


# =========================================================================== restoring in another interpreter
def exercise_plain(kind, obj, payload):
    """Views at load time + behaviour on the payload's inputs, as plain picklable data (parent and child run this)."""
    _apply, _judge, view, _state = KINDS[kind]
    out = {"view": attempt(view, obj), "counters": attempt(lambda: strip_durations(counters_of(kind, obj))), "results": []}
    if kind == "discipline":
        for x in payload["inputs"]:
            res = attempt(disc_exec, obj, x)
            out["results"].append(res)
            if res[0] == "raise":
                reset_status(obj)
                continue
            if payload.get("linearize", True):
                j = attempt(disc_lin, obj, x, payload.get("lin_all", True))
                out["results"].append(j)
                if j[0] == "raise":
                    reset_status(obj)
        if payload.get("complex_input") is not None:
            res = attempt(disc_exec_complex, obj, payload["complex_input"])
            out["results"].append(res)
            if res[0] == "raise":
                reset_status(obj)
        out["counters_after"] = attempt(lambda: strip_durations(discipline_counters(obj)))
    elif kind == "scenario":
        res = attempt(obj.execute, **payload["algo"])
        out["results"].append(("ok", None) if res[0] == "ok" else res)
        out["results"].append(attempt(lambda: result_view(obj.optimization_result)))
        out["results"].append(attempt(lambda: database_view(obj.formulation.optimization_problem.database)))
    elif kind == "function":
        for x in payload["inputs"]:
            out["results"].append(attempt(func_eval, obj, x))
            out["results"].append(attempt(func_jac, obj, x))
        out["counters_after"] = attempt(lambda: getattr(obj, "n_calls", None))
    elif kind == "space":
        for s_ in payload["seeds"]:
            ex = _space_exercise(obj, np.random.default_rng(s_))
            ex.pop("sample", None)
            out["results"].append(ex)
    elif kind == "problem":
        for x in payload["inputs"]:
            out["results"].append(_problem_exercise(obj, x))
    elif kind == "grammar":
        out["results"].append(_grammar_exercise(obj))
    elif kind == "cache":
        out["results"].append(_cache_lookup(obj))
    return out


def unordered_names(v):
    """Copy of a view in which every list / tuple made of strings only is sorted."""
    if isinstance(v, dict):
        return {k: unordered_names(x) for k, x in v.items()}
    if isinstance(v, (list, tuple)):
        if v and all(isinstance(x, str) for x in v):
            return sorted(v)
        return type(v)(unordered_names(x) for x in v)
    return v


def _hash_sensitive():
    from vlib.gen import c20_objects as gobj

    return gobj.HASH_SENSITIVE_ENTRIES


def run_case_process(cx, case, entry, kind, o, rng, rep, scratch, tag, builder, moment):
    """Protocol "process": pickle to a file, restore and exercise in a fresh interpreter, compare with the original."""
    import subprocess

    tol = entry.get("tol", 0.0)
    payload = {"linearize": entry.get("linearize", True), "algo": entry.get("algo"), "lin_all": entry.get("lin_all", True)}
    if kind == "discipline":
        payload["inputs"] = [draw_inputs(entry, o, rng, k) for k in range(3)]
        payload["complex_input"] = draw_inputs(entry, o, rng, 30)
        rep.count("complex_step_comparisons")
    elif kind in ("function",):
        payload["inputs"] = [np.round(rng.uniform(-1.5, 1.5, entry["n"]), 3) for _ in range(3)]
    elif kind == "problem":
        payload["inputs"] = [np.round(rng.uniform(-1.5, 1.5, 3), 3) for _ in range(3)]
    elif kind == "space":
        payload["seeds"] = [int(rng.integers(1 << 30)) for _ in range(3)]
    fin, fout = Path(scratch) / f"{tag}_job.pkl", Path(scratch) / f"{tag}_res.pkl"
    try:
        with open(fin, "wb") as f:
            pickle.dump({"kind": kind, "obj": o, "payload": payload}, f)
    except Exception as e:
        rep.case(case_signature(case), nontrivial=False)
        rep.count("round_trips_that_raised")
        cx.fail("roundtrip", f"raises:{type(e).__name__}:{unpicklable_attribute(o)}", f"{type(e).__name__}: {e}"[:400])
        return
    env = dict(os.environ)
    own = env.get("PYTHONHASHSEED", "random")
    hs = case.get("hash_seed")
    if hs is not None:
        if str(hs) == own:  # the shard itself runs under that seed (not the case with the dispatcher's PYTHONHASHSEED=0)
            hs = int(hs) + 101
        env["PYTHONHASHSEED"] = str(hs)
    different = hs is not None
    try:
        proc = subprocess.run([sys.executable, "-m", "vlib.gen.c20_child", str(fin), str(fout)], env=env,
                              cwd=scratch, timeout=1500, capture_output=True, text=True)
    except subprocess.TimeoutExpired:
        rep.inconclusive("child interpreter hit its watchdog")
        return
    if not fout.exists():
        rep.inconclusive(f"child interpreter died rc={proc.returncode}: {proc.stderr[-300:]}")
        return
    with open(fout, "rb") as f:
        got = pickle.load(f)
    rep.count("round_trips")
    rep.count("round_trips_process")
    rep.count(f"round_trips_kind_{kind}")
    rep.count("restored_under_a_different_hash_seed" if different else "restored_under_the_same_hash_seed")
    if different and case["entry"] in _hash_sensitive():
        rep.count("hash_sensitive_entries_restored_under_a_different_hash_seed")
    if got["status"] == "raise":
        cx.fail("roundtrip", "restoring-or-using-in-a-fresh-interpreter-raises:" + got["error"].split(":")[0], got["error"],
                observed=got.get("traceback"))
        rep.case(case_signature(case), nontrivial=False)
        return
    # the original's part is played by the original itself, or by its twin when a file based cache is attached
    ref = entry.get("twin_obj") if entry.get("twin_obj") is not None else o
    exp = exercise_plain(kind, ref, payload)
    rep.count("static_views_compared")
    if different:
        # lists of names built from sets legitimately come in the order of the restoring interpreter: the views are
        # compared with every list of strings sorted (the in-process protocols compare the orders as well)
        exp["view"], got["result"]["view"] = unordered_names(exp["view"]), unordered_names(got["result"]["view"])
    d = same_outcome(exp["view"], got["result"]["view"], 0.0, "view")
    if d:
        cx.fail("static", "differs:" + _path_head(d), d)
    rep.count("counter_checks")
    d = same_outcome(exp["counters"], got["result"]["counters"], 0.0, "counters")
    if d:
        cx.fail("counters", "not-carried-as-values:" + _path_head(d), d)
    for k, (a, b) in enumerate(zip(exp["results"], got["result"]["results"])):
        rep.count("behaviour_comparisons")
        if isinstance(a, tuple) and a and a[0] in ("ok", "raise"):
            d = same_outcome(a, b, tol, f"result[{k}]")
        else:
            d = same(a, b, tol, f"result[{k}]")
        if d:
            cx.fail("behaviour", "differs-in-a-fresh-interpreter:" + _path_head(d), d, observed=b, expected=a)
    if "counters_after" in exp:
        rep.count("counter_checks")
        d = same_outcome(exp["counters_after"], got["result"]["counters_after"], 0.0, "counters_after")
        if d:
            cx.fail("counters", "diverge-after-identical-use:" + _path_head(d), d)
    rep.case(case_signature(case), nontrivial=True)


def case_signature(case):
    ops = case.get("ops")
    shape = tuple(f"{w}:{op}" for w, op, _ in ops) if ops else ()
    return (case["entry"], case["moment"], case["protocol"], shape, bool(case.get("pre_execute")), case.get("hash_seed"))


# =========================================================================== one case
def run_case(case, rep, scratch):
    from vlib.gen import c20_objects as gobj

    name, moment, protocol = case["entry"], case["moment"], case["protocol"]
    table = gobj.entries()
    builder = table[name]
    tag = re.sub(r"[^A-Za-z0-9]+", "_", f"{name}_{moment}_{protocol}_{case.get('n', 0)}")
    rng_m = np.random.default_rng([case["seed"], 1])
    rng = np.random.default_rng([case["seed"], 2])
    cx = Ctx(rep, case, name, protocol)
    spec = case.get("spec")
    if spec is None and name.endswith(":rand"):
        strongly = name.split(":")[0] in ("MDANewtonRaphson", "MDAQuasiNewton", "MDAGSNewton")
        spec = gobj.rand_spec(case.get("spec_index", 0), strongly=strongly)
        case["spec"] = spec
    builder_ = builder
    if spec is not None:
        def builder(ctx, _b=builder_, _s=spec):  # noqa: E731
            return _b(dict(ctx, spec=_s))
    try:
        entry = builder({"scratch": scratch, "tag": tag})
    except Exception as e:
        rep.observe("entry-could-not-be-built", {"entry": name, "error": f"{type(e).__name__}: {e}"[:300]})
        rep.count("entries_not_built")
        return
    kind, o = entry["kind"], entry["obj"]
    apply_moment, judge, view, state = KINDS[kind]
    if moment in ("ops", "grammar_ops"):
        if "ops" not in case:  # replay of an old witness or a hand written case
            case["ops"] = gobj.random_grammar_ops(np.random.default_rng([case["seed"], 3]), kind == "discipline")
        entry["ops"] = [list(op) for op in case["ops"]]
        entry["grammar_ops"] = True
        entry["ops_pre_execute"] = bool(case.get("pre_execute"))
        rep.count("grammar_op_sequences")
        if gobj.has_cached_read_then_required_edit(entry["ops"]):
            rep.count("grammar_op_sequences_with_cached_read_then_required_edit")
    if moment not in moments_of(kind, entry):
        return
    try:
        ok = apply_moment(entry, o, moment, rng_m, rep)
        if ok and kind == "discipline" and entry.get("file_cache"):
            twin = builder({"scratch": scratch, "tag": tag + "_twin"})
            apply_moment(twin, twin["obj"], moment, np.random.default_rng([case["seed"], 1]), rep)
            entry["twin_obj"] = twin["obj"]
    except Exception as e:
        rep.observe("moment-could-not-be-reached", {"entry": name, "moment": moment, "error": f"{type(e).__name__}: {e}"[:300]})
        rep.count("moments_not_reached")
        return
    if not ok:
        rep.count("moments_not_reached")
        return
    if moment == "failed":
        rep.count("moment_failed_cases")
    if protocol == "process":
        run_case_process(cx, case, entry, kind, o, rng, rep, scratch, tag, builder, moment)
        return
    # ---- (5) purity: observable state and deep picture before / after serializing
    deep0 = deep_snapshot(o)
    try:
        r = roundtrip(o, protocol, scratch, tag)
    except Exception as e:
        rep.case(case_signature(case), nontrivial=False)
        rep.count("round_trips_that_raised")
        mech = unpicklable_attribute(o)
        cx.fail("roundtrip", f"raises:{type(e).__name__}:{mech}", f"{type(e).__name__}: {e}"[:400],
                observed={"error": f"{type(e).__name__}: {e}"[:400], "unpicklable": mech}, expected="a restored object")
        return
    rep.count("round_trips")
    rep.count(f"round_trips_{protocol}")
    rep.count(f"round_trips_kind_{kind}")
    deep1 = deep_snapshot(o)
    rep.count("purity_checks")
    if deep0 != deep1:
        # decide on the observable state only; a private lazily built attribute is an observation
        rep.observe("serializing-touched-private-state-of-the-original",
                    {"entry": name, "moment": moment, "where": snapshot_diff(deep0, deep1)})
    # static views (these calls may lazily build validators etc.: done after the deep pictures)
    try:
        vo = view(o)
    except Exception as e:
        rep.observe("view-of-the-original-raised", {"entry": name, "error": f"{type(e).__name__}: {e}"[:300]})
        return
    res = attempt(view, r)
    rep.count("static_views_compared")
    if res[0] == "raise":
        cx.fail("static", f"view-of-the-restored-raises:{res[1]}", res[1:])
        return
    vr = res[1]
    d = same(vo, vr, 0.0, "view")
    if d:
        cx.fail("static", "differs:" + _path_head(d), d)
    # purity on the observable state: serialize once more and compare the views of the original
    try:
        roundtrip(o, protocol, scratch, tag + "_again")
    except Exception as e:
        cx.fail("roundtrip", f"second-serialization-raises:{type(e).__name__}", f"{type(e).__name__}: {e}"[:300])
        return
    res = attempt(view, o)
    if res[0] == "raise" or same(vo, res[1], 0.0, "view"):
        cx.fail("purity", "serializing-changes-the-original:" + (_path_head(same(vo, res[1], 0.0, "view")) if res[0] == "ok" else res[1]),
                same(vo, res[1], 0.0, "view") if res[0] == "ok" else res[1:])
    # ---- (4) counters carried as values
    co, cr = counters_of(kind, o), attempt(counters_of, kind, r)
    if co:
        rep.count("counter_checks")
        d = same_outcome(("ok", co), cr, 0.0, "counters")
        if d:
            cx.fail("counters", "not-carried-as-values:" + _path_head(d), d, observed=cr, expected=co)
        if moment != "fresh":
            rep.count("counter_checks_with_nonzero_counters")
        if cr[0] == "raise":
            rep.case(case_signature(case), nontrivial=False)
            return
    for where, missing, extra in attribute_differences(o, r)[:5]:
        rep.observe("instance-attributes-differ-after-restore:" + re.sub(r"^.*<", "<", where) + ":" + ",".join(missing + ["+" + e for e in extra])[:80],
                    {"entry": name, "where": where, "only_in_original": missing, "only_in_restored": extra})
    # ---- (3) identity walk
    shared, n_o, n_r = shared_objects(o, r)
    rep.count("identity_walks")
    rep.count("identity_walk_nodes", n_o + n_r)
    if shared:
        # objects that an independently built instance reaches as well are process-wide constants / singletons
        # (e.g. the bound arrays of SobieskiProblem are views of module level constants): not an effect of restoring
        try:
            indep = builder({"scratch": scratch, "tag": tag + "_indep"})["obj"]
            f_ind, keep_ind = walk(indep)
            f_o, keep_o = walk(o)
            globals_ = set(f_ind) & set(f_o)
            kept = []
            for po, pr, tname in shared:
                i = next((k for k, (p_, _) in f_o.items() if p_ == po), None)
                if i in globals_:
                    rep.count("shared_objects_that_are_process_wide_globals")
                else:
                    kept.append((po, pr, tname))
            shared = kept
            del keep_ind, keep_o
        except Exception as e:
            rep.observe("baseline-instance-could-not-be-built", {"entry": name, "error": f"{type(e).__name__}: {e}"[:200]})
    if shared:
        po, pr, tname = shared[0]
        mech = re.sub(r"\[[^\]]*\]", "[]", po)
        mech = ".".join(mech.split(".")[-2:])[:60]
        cx.fail("independence", f"shared-mutable-object:{tname}:{mech}",
                {"n_shared": len(shared), "first": [list(s) for s in shared[:6]]})
    # ---- (2)+(3) behaviour and independence
    nontrivial = True
    try:
        judge(cx, entry, o, r, rng, moment)
    except Exception as e:
        import traceback

        # never seen on the unchanged tree; on a broken tree the restored object may be unusable in a way the
        # adapters did not foresee: recorded as a finding of its own and the run is not allowed to be "held"
        rep.observe("judge-raised", {"entry": name, "moment": moment, "protocol": protocol,
                                     "error": traceback.format_exc()[-700:]})
        rep.count("judge_errors")
        cx.fail("behaviour", f"using-the-restored-raises-unexpectedly:{type(e).__name__}", traceback.format_exc()[-600:])
        rep.inconclusive(f"adapter raised while judging {name}/{moment}/{protocol}: {type(e).__name__}")
        nontrivial = False
    rep.case(case_signature(case), nontrivial=nontrivial)


def unpicklable_attribute(root):
    """``Owner.attribute:LeafType`` of the first attribute that makes ``pickle.dumps(root)`` fail (mechanism name)."""

    def fails(x):
        try:
            pickle.dumps(x)
        except Exception:
            return True
        return False

    obj, owner = root, type(root).__name__
    seen = set()
    for _ in range(40):
        if id(obj) in seen:
            break
        seen.add(id(obj))
        state = None
        try:
            red = obj.__reduce_ex__(4)
            if isinstance(red, tuple):
                state = {"<args>": red[1]}
                if len(red) > 2 and red[2] is not None:
                    st = red[2]
                    if isinstance(st, tuple) and len(st) == 2 and isinstance(st[1], dict):  # (dict state, slots state)
                        st = {**(st[0] or {}), **st[1]}
                    state = st if isinstance(st, dict) else {"<state>": st}
                    if red[1] and fails(red[1]):
                        state = {"<args>": red[1]}
                if len(red) > 3 and red[3] is not None:
                    state = dict(state or {}, **{f"<item {k}>": v for k, v in enumerate(list(red[3]))})
                if len(red) > 4 and red[4] is not None:
                    state = dict(state or {}, **{f"[{k}]": v for k, v in dict(red[4]).items()})
        except Exception:
            return f"{owner}:{type(obj).__name__}"
        if isinstance(obj, (list, tuple, set, frozenset)):
            state = {f"[{k}]": v for k, v in enumerate(obj)}
        elif type(obj) is dict:
            state = {f"[{k}]": v for k, v in obj.items()}
        if not isinstance(state, dict):
            return f"{owner}:{type(obj).__name__}"
        nxt = None
        for k, v in state.items():
            if fails(v):
                nxt = (k, v)
                break
        if nxt is None:
            return f"{owner}:{type(obj).__name__}"
        k, v = nxt
        if not str(k).startswith(("[", "<")):
            owner = f"{type(obj).__name__}.{k}"
        obj = v
    return f"{owner}:{type(obj).__name__}"


def _raise_mechanism(e):
    msg = str(e)
    m = re.search(r"cannot pickle '([^']+)'", msg) or re.search(r"Can't pickle ([^:]+)", msg)
    if m:
        return re.sub(r"[^A-Za-z0-9_.]+", "-", m.group(1))[:40]
    if "should only be shared between processes through inheritance" in msg:
        return msg.split(" objects")[0].strip()[:20] + "-not-inheritable"
    return "other"


# =========================================================================== case list
def all_cases(tier, seed):
    """Deterministic list of cases; independent of the gemseo tree (uses only the table's names)."""
    from vlib.gen import c20_objects as gobj

    names = list(gobj.entries())
    kinds = gobj.entry_kinds()
    cases = []
    n = 0
    for i, name in enumerate(names):
        moments = ALL_MOMENTS[kinds[name]]
        for j, m in enumerate(moments):
            if m in ("ops", "grammar_ops"):
                if m == "grammar_ops" and name not in gobj.GRAMMAR_OPS_ENTRIES:
                    continue
                in_disc = m == "grammar_ops"
                n_rand = {"quick": 10, "thorough": 40}[tier]
                seqs = [("directed", ops) for ops in gobj.DIRECTED_GRAMMAR_OPS]
                rng_ops = np.random.default_rng([subseed(seed, "ops", name) % (1 << 32)])
                seqs += [("random", gobj.random_grammar_ops(rng_ops, in_disc)) for _ in range(n_rand)]
                plain = [p for p in PROTOCOLS if p != "deepcopy"]
                for q, (origin, ops) in enumerate(seqs):
                    p = plain[(i + q + seed) % len(plain)]
                    if tier == "thorough" and q % 9 == 4:
                        p = "process"
                    cases.append({"entry": name, "moment": m, "protocol": p, "ops": ops, "ops_origin": origin,
                                  "hash_seed": (1 + (q + seed) % 9) if p == "process" else None,
                                  "pre_execute": bool(in_disc and q % 3 == 2),
                                  "seed": subseed(seed, "case", name, m, p, q), "n": n})
                    n += 1
                continue
            if tier == "quick":
                protos = [PROTOCOLS[(i + j + seed) % len(PROTOCOLS)]]
                if protos[0] == "deepcopy":  # deepcopy findings are only observations: always pair with pickle
                    protos.append("pickle")
            else:
                protos = list(PROTOCOLS)
            hash_seeds = []
            if j == min(1, len(moments) - 1) and (tier == "thorough" or (i + seed) % 8 == 0):
                # restored and exercised in a fresh interpreter, under another string hash seed than the creator's
                hash_seeds = [1 + (i + 3 * seed) % 9] if (i + seed) % 3 else [None]
            if name in gobj.HASH_SENSITIVE_ENTRIES and j <= min(1, len(moments) - 1):
                # set / dict iteration order may enter the behaviour: several restoring hash seeds + the creator's own
                base = subseed(seed, "hash", name) % 9
                k_seeds = (1 if j == 0 else 2) if tier == "quick" else (2 if j == 0 else 5)
                hash_seeds = [1 + (base + 2 * q) % 9 for q in range(k_seeds)] + ([None] if j else [])
            n_specs = 1 if not name.endswith(":rand") else (1 if tier == "quick" else 5)
            for p in protos:
                for si in range(n_specs):
                    c = {"entry": name, "moment": m, "protocol": p, "seed": subseed(seed, "case", name, m, p, si), "n": n}
                    if name.endswith(":rand"):
                        c["spec_index"] = (seed * 7 + si) % 1000
                    cases.append(c)
                    n += 1
            for hs in dict.fromkeys(hash_seeds):
                for si in range(n_specs if tier == "thorough" else 1):
                    c = {"entry": name, "moment": m, "protocol": "process", "hash_seed": hs,
                         "seed": subseed(seed, "case", name, m, "process", hs, si), "n": n}
                    if name.endswith(":rand"):
                        c["spec_index"] = (seed * 7 + si) % 1000
                    cases.append(c)
                    n += 1
    return cases


def run_shard(spec, rep):
    import warnings

    warnings.filterwarnings("ignore")
    logging.disable(logging.CRITICAL)
    from vlib.gen import c20_objects as gobj

    tier = spec.get("tier", "quick")
    shard = spec.get("shard", 0)
    base_seed = int(spec.get("base_seed", 0))
    cases = all_cases(tier, base_seed)
    mine = [c for k, c in enumerate(cases) if k % spec.get("n_shards", N_SHARDS) == shard]
    if shard == 0:
        census(rep, gobj)
    for c in mine:
        if rep.time_left() < 0:
            rep.count("stopped_on_time_budget")
            rep.inconclusive("time budget exhausted before all cases were run")
            break
        run_case(c, rep, spec["scratch"])
        if c["n"] % 97 == 0:
            rep.sample({"case": c, "note": "object built, brought to the moment, serialized and restored; static view, "
                                           "counters, identity walk, 3 behaviour comparisons and independence edits judged"})
    logging.disable(logging.NOTSET)


def census(rep, gobj):
    """Every class of the discipline / MDA / cache / grammar factories is either in the table or skipped with a reason."""
    from gemseo.caches.factory import CacheFactory
    from gemseo.core.grammars.factory import GrammarFactory
    from gemseo.disciplines.factory import DisciplineFactory
    from gemseo.formulations.factory import MDOFormulationFactory
    from gemseo.mda.factory import MDAFactory

    covered = {n.split(":")[0] for n in gobj.entries()}
    forms = {n.split(":")[1] for n in gobj.entries() if n.startswith(("MDOScenario:", "DOEScenario:"))}
    for fac, label in ((DisciplineFactory(), "discipline"), (MDAFactory(), "mda"), (CacheFactory(), "cache"),
                       (GrammarFactory(), "grammar")):
        for n in fac.class_names:
            rep.count(f"factory_classes_{label}")
            if n in covered:
                rep.count("factory_classes_covered")
            elif n in gobj.SKIPPED:
                rep.count("factory_classes_skipped")
                rep.observe(f"skipped-class:{n}", gobj.SKIPPED[n])
            else:
                rep.observe("factory-class-without-entry", {"factory": label, "class": n})
                rep.count("factory_classes_without_entry")
    for n in MDOFormulationFactory().class_names:
        rep.count("factory_classes_formulation")
        if n in forms:
            rep.count("factory_classes_covered")
        else:
            rep.observe("factory-class-without-entry", {"factory": "formulation", "class": n})
    for n, why in gobj.SKIPPED.items():
        if n not in DisciplineFactory().class_names:
            rep.observe(f"skipped-class:{n}", why)


def coverage_extra(tier, counters):
    return {"protocols": list(PROTOCOLS), "moments": ALL_MOMENTS}


def replay(case, rep):
    import warnings

    warnings.filterwarnings("ignore")
    logging.disable(logging.CRITICAL)
    run_case(case, rep, rep.spec["scratch"])
    logging.disable(logging.NOTSET)
